//! C13 — analysis is insensitive to layout, comments and letter case.
//!
//!   c13 init                                         keywords and builtin attribute names in the order in which
//!                                                    `Symbols::from_standard` inserts them (one per line, hex)
//!   c13 sym  <seed> <n> <cases_out> <impl_out>       symbol-table / lowercase / keyword-lookup cases:
//!        L                      -> the 256 values of Latin1String::lowercase
//!        S0 <hex> <hex> ...     -> ids of the symbols returned by inserting the names into an empty SymbolTable
//!        S1 <hex> <hex> ...     -> the same, into the table of `Symbols::default()` (keywords + attributes first)
//!        K <hex>                -> kind of the single token of that text: `kw:<index>` | `id` | `other`
//!      (a name whose first byte is a backslash is inserted with `insert_extended`)
//!   c13 symcase <cases_in> <impl_out>                run given case lines (corpus / replay)
//!   c13 proj <seed> <n_gen> <n_transforms> <projects_in.jsonl|-> <out.jsonl> <workdir> [threads]
//!        ORACLE: every project (input file first, then n_gen generated ones) is analysed with
//!        `Project::analyse()` (all linters on) as it is and after each of n_transforms token-preserving
//!        transformations (k%7: 0 re-spacing, 1 comments inserted/deleted, 2 case permutation, 3 all three,
//!        4 every file joined onto one line, 5 one token per line, 6 ONE file only: header lines
//!        prepended / joined / split / re-spaced, the other files untouched, and the same edit applied IN PLACE to a live
//!        project (update_source) and re-analysed; `M:` corpus projects: every (file, operation) pair);
//!        diagnostics are compared through the token-index map.
//!   c13 replay <replay.json> <workdir>               re-run one recorded (original, transformed) pair
//!
//! A record of out.jsonl: {"id","k","mode","tseed","verdict":"OK|MISMATCH|LEXDIFF|PANIC","detail",
//!   "ndiag","codes":{..},"nfiles","ntokens","changed_case","changed_gaps","comments_added","comments_removed",
//!   "orig":{lib:[[file,text]..]}, "trans":{..}}  (orig/trans only for verdict != OK)
use std::collections::BTreeMap;
use std::fmt::Write as _;
use std::io::{BufRead, Write as _};
use std::panic::{catch_unwind, AssertUnwindSafe};
use std::path::{Path, PathBuf};
use std::sync::{Arc, Mutex};
use verif_harness::rng::Rng;
use vhdl_lang::verif::data::{ContentReader, Diagnostic, DiagnosticHandler, Latin1String, SymbolTable};
use vhdl_lang::verif::syntax::{kind_str, Kind, Symbols, Token, TokenStream, Tokenizer, Value};
use vhdl_lang::{Config, NullMessages, Project, Source, VHDLStandard};

const STD_DIR: &str = "/repo/vhdl_libraries";

// ---------------------------------------------------------------------------------------------
// small helpers
// ---------------------------------------------------------------------------------------------
fn hex(bytes: &[u8]) -> String {
    if bytes.is_empty() {
        return "-".to_string();
    }
    let mut s = String::new();
    for b in bytes {
        write!(s, "{:02x}", b).unwrap();
    }
    s
}
fn unhex(s: &str) -> Vec<u8> {
    if s == "-" {
        return vec![];
    }
    (0..s.len() / 2).map(|i| u8::from_str_radix(&s[2 * i..2 * i + 2], 16).unwrap()).collect()
}
fn l1_to_string(bytes: &[u8]) -> String {
    bytes.iter().map(|b| *b as char).collect()
}
fn string_to_l1(s: &str) -> Vec<u8> {
    s.chars().map(|c| if (c as u32) < 256 { c as u32 as u8 } else { b'?' }).collect()
}
fn symbol_id(sym: &vhdl_lang::verif::data::Symbol) -> i64 {
    // `Symbol::id` is pub(crate); the derived Debug prints `Symbol { id: 3, name: .. }`
    let d = format!("{:?}", sym);
    let i = d.find("id: ").map(|i| i + 4).unwrap_or(0);
    d[i..].chars().take_while(|c| c.is_ascii_digit()).collect::<String>().parse().unwrap_or(-1)
}

// ---------------------------------------------------------------------------------------------
// symbol table / lowercase / keyword cases
// ---------------------------------------------------------------------------------------------
fn init_names() -> Vec<Vec<u8>> {
    let std = VHDLStandard::default();
    let mut v: Vec<Vec<u8>> = std.keywords().iter().map(|k| kind_str(*k).as_bytes().to_vec()).collect();
    for a in std.builtin_attributes() {
        v.push(string_to_l1(&format!("{a}")));
    }
    v
}

fn insert_name(t: &SymbolTable, name: &[u8]) -> i64 {
    let n = Latin1String::new(name);
    let s = if name.first() == Some(&b'\\') { t.insert_extended(&n) } else { t.insert(&n) };
    // the symbol keeps the spelling it was inserted with
    if s.name().bytes != name {
        return -2;
    }
    symbol_id(&s)
}

struct Collect(Vec<Diagnostic>);
impl DiagnosticHandler for Collect {
    fn push(&mut self, d: Diagnostic) {
        self.0.push(d)
    }
}

fn lex(symbols: &Symbols, text: &str) -> (Vec<Token>, Vec<Diagnostic>) {
    let src = Source::inline(Path::new("/c13/lex.vhd"), text);
    let contents = src.contents();
    let tokenizer = Tokenizer::new(symbols, &src, ContentReader::new(&contents));
    let mut h = Collect(Vec::new());
    let stream = TokenStream::new(tokenizer, &mut h);
    let mut toks = Vec::new();
    while let Some(t) = stream.peek() {
        toks.push(t.clone());
        stream.skip();
    }
    drop(stream);
    (toks, h.0)
}

fn run_sym_case(line: &str, kws: &[Kind]) -> String {
    let mut it = line.split_whitespace();
    let tag = it.next().unwrap_or("");
    let r = catch_unwind(AssertUnwindSafe(|| match tag {
        "L" => (0..=255u8).map(|b| Latin1String::lowercase(b).to_string()).collect::<Vec<_>>().join(" "),
        "S0" | "S1" => {
            let symbols = Symbols::default();
            let fresh = SymbolTable::default();
            let t: &SymbolTable = if tag == "S1" { symbols.symtab() } else { &fresh };
            let ids: Vec<String> = it.map(|h| insert_name(t, &unhex(h)).to_string()).collect();
            ids.join(" ")
        }
        "K" => {
            let symbols = Symbols::default();
            let text = l1_to_string(&unhex(it.next().unwrap_or("-")));
            let (toks, diags) = lex(&symbols, &text);
            // (an identifier warning such as "ends with underscore" does not change the token)
            if toks.len() != 1 {
                format!("other:{}:{}", toks.len(), diags.len())
            } else if let Some(i) = kws.iter().position(|k| *k == toks[0].kind) {
                format!("kw:{}", i)
            } else if toks[0].kind == Kind::Identifier {
                "id".to_string()
            } else {
                "other".to_string()
            }
        }
        _ => "?".to_string(),
    }));
    r.unwrap_or_else(|_| "PANIC".to_string())
}

const LETTERS: &[u8] = b"aAbBzZeExX";
const L1: &[u8] = &[192, 224, 214, 246, 215, 247, 216, 248, 222, 254, 223, 255, 65, 97, 90, 122, 64, 91, 96, 123, 191, 95, 48];

fn gen_name(rng: &mut Rng, kwnames: &[Vec<u8>], pool: &mut Vec<Vec<u8>>) -> Vec<u8> {
    let r = rng.below(100);
    let case_mix = |rng: &mut Rng, n: &[u8]| -> Vec<u8> {
        n.iter()
            .map(|b| match rng.below(3) {
                0 => b.to_ascii_uppercase(),
                1 => b.to_ascii_lowercase(),
                _ => *b,
            })
            .collect()
    };
    let flip_l1 = |rng: &mut Rng, n: &[u8]| -> Vec<u8> {
        n.iter()
            .map(|b| {
                if rng.below(2) == 0 {
                    return *b;
                }
                match *b {
                    65..=90 | 192..=222 => b + 32,
                    97..=122 | 224..=254 => b - 32,
                    x => x,
                }
            })
            .collect()
    };
    let name = if r < 30 && !pool.is_empty() {
        // a case variant of an earlier name (any byte of the Latin-1 letter ranges flipped, incl. 215/247)
        let base = pool[rng.below(pool.len())].clone();
        flip_l1(rng, &base)
    } else if r < 40 && !pool.is_empty() {
        // the same content as an extended identifier / without the backslashes
        let base = pool[rng.below(pool.len())].clone();
        if base.first() == Some(&b'\\') && base.len() >= 2 {
            base[1..base.len() - 1].to_vec()
        } else {
            let mut v = vec![b'\\'];
            v.extend_from_slice(&base);
            v.push(b'\\');
            v
        }
    } else if r < 55 {
        {
        let k = kwnames[rng.below(kwnames.len())].clone();
        case_mix(rng, &k)
    }
    } else if r < 80 {
        let len = 1 + rng.below(4);
        (0..len).map(|_| LETTERS[rng.below(LETTERS.len())]).collect()
    } else {
        let len = 1 + rng.below(4);
        let mut v: Vec<u8> = (0..len).map(|_| L1[rng.below(L1.len())]).collect();
        if rng.below(4) == 0 {
            v.insert(0, b'\\');
            v.push(b'\\');
        }
        v
    };
    let name = if name.is_empty() { vec![b'a'] } else { name };
    pool.push(name.clone());
    name
}

fn gen_sym_case(rng: &mut Rng, kwnames: &[Vec<u8>]) -> String {
    let r = rng.below(10);
    let mut pool = Vec::new();
    if r < 2 {
        // a keyword in random case, or a near-keyword
        let mut n = kwnames[rng.below(kwnames.len())].clone();
        for b in n.iter_mut() {
            if rng.below(2) == 0 {
                *b = b.to_ascii_uppercase();
            }
        }
        if rng.below(6) == 0 {
            n.push(b"sx_1"[rng.below(4)]);
        }
        format!("K {}", hex(&n))
    } else {
        let tag = if r < 6 { "S0" } else { "S1" };
        let len = 1 + rng.below(14);
        let names: Vec<String> = (0..len).map(|_| hex(&gen_name(rng, kwnames, &mut pool))).collect();
        format!("{} {}", tag, names.join(" "))
    }
}

// ---------------------------------------------------------------------------------------------
// projects
// ---------------------------------------------------------------------------------------------
type Files = BTreeMap<String, Vec<(String, String)>>; // library -> [(file name, text with chars < 256)]

#[derive(Clone)]
struct Proj {
    id: String,
    libs: Files,
}

fn proj_from_json(v: &serde_json::Value) -> Option<Proj> {
    let id = v.get("id")?.as_str()?.to_string();
    Some(Proj { id, libs: files_from_json(v.get("libs")?)? })
}
fn files_from_json(v: &serde_json::Value) -> Option<Files> {
    let mut libs = Files::new();
    for (lib, fs) in v.as_object()? {
        let mut out = Vec::new();
        for f in fs.as_array()? {
            let a = f.as_array()?;
            out.push((a[0].as_str()?.to_string(), a[1].as_str()?.to_string()));
        }
        libs.insert(lib.clone(), out);
    }
    Some(libs)
}
fn files_to_json(f: &Files) -> serde_json::Value {
    let mut m = serde_json::Map::new();
    for (lib, fs) in f {
        m.insert(
            lib.clone(),
            serde_json::Value::Array(fs.iter().map(|(n, t)| serde_json::json!([n, t])).collect()),
        );
    }
    serde_json::Value::Object(m)
}

/// character offsets of the line starts; line breaks as `Contents` sees them: LF, CR LF, lone CR
fn line_starts(text: &[char]) -> Vec<usize> {
    let mut v = vec![0];
    let mut i = 0;
    while i < text.len() {
        if text[i] == '\r' {
            if i + 1 < text.len() && text[i + 1] == '\n' {
                i += 1;
            }
            v.push(i + 1);
        } else if text[i] == '\n' {
            v.push(i + 1);
        }
        i += 1;
    }
    v
}

#[derive(Clone)]
struct Tok {
    s: usize, // char offsets into the text (all chars < 256, so UTF-16 column = char index in line)
    e: usize,
    sp: (u32, u32),
    ep: (u32, u32),
    kind: Kind,
    value: Value,
}

struct FileToks {
    toks: Vec<Tok>,
    lexdiags: usize,
}

fn tokenize(symbols: &Symbols, text: &str) -> FileToks {
    let chars: Vec<char> = text.chars().collect();
    let ls = line_starts(&chars);
    let (toks, diags) = lex(symbols, text);
    let off = |line: u32, ch: u32| -> usize {
        let l = line as usize;
        if l < ls.len() {
            (ls[l] + ch as usize).min(chars.len())
        } else {
            chars.len()
        }
    };
    let toks = toks
        .iter()
        .map(|t| {
            let a = t.pos.range.start;
            let b = t.pos.range.end;
            Tok {
                s: off(a.line, a.character),
                e: off(b.line, b.character),
                sp: (a.line, a.character),
                ep: (b.line, b.character),
                kind: t.kind,
                value: t.value.clone(),
            }
        })
        .collect();
    FileToks { toks, lexdiags: diags.len() }
}

const MODE_SPACE: u32 = 1;
const MODE_COMMENT: u32 = 2;
const MODE_CASE: u32 = 4;
/// every gap becomes one blank (or nothing where two tokens may touch), comments are dropped: each file on ONE line
const MODE_JOIN: u32 = 8;
/// every gap becomes a line break (comments kept on lines of their own): ONE TOKEN PER LINE
const MODE_SPLIT: u32 = 16;
/// 3..48 blank / comment lines in front of the file, the rest untouched
const MODE_HEADER: u32 = 32;
/// flag in the recorded mode: only ONE file of the project was transformed (the others are untouched), so that
/// relative positions ACROSS files change
const MODE_ONE_FILE: u32 = 64;

#[derive(Default, Clone)]
struct TStats {
    changed_case: usize,
    changed_gaps: usize,
    comments_added: usize,
    comments_removed: usize,
    files_kept: usize,
}

fn is_basic_ident_or_keyword(t: &Tok, text: &[char]) -> bool {
    let first = text[t.s];
    if !first.is_ascii_alphabetic() {
        return false;
    }
    match (&t.kind, &t.value) {
        (Kind::Identifier, Value::Identifier(_)) => true,
        (Kind::BitString, _) | (Kind::AbstractLiteral, _) | (Kind::StringLiteral, _) | (Kind::Character, _) | (Kind::Text, _) => false,
        (_, Value::None) => true, // a keyword (delimiters do not start with a letter)
        _ => false,
    }
}

/// may the two tokens be written without anything in between?
fn may_touch(a: &[char], b: &[char]) -> bool {
    let safe = |x: &[char]| x.len() == 1 && matches!(x[0], ';' | '(' | ')' | ',');
    safe(a) || safe(b)
}

enum Piece {
    Ws(String),
    Line(String),  // `-- ...` without the line break
    Block(String), // `/* ... */`
}

fn split_gap(g: &[char]) -> Option<Vec<Piece>> {
    let mut out = Vec::new();
    let mut i = 0;
    while i < g.len() {
        if g[i] == '-' && i + 1 < g.len() && g[i + 1] == '-' {
            let mut j = i;
            while j < g.len() && g[j] != '\n' && g[j] != '\r' {
                j += 1;
            }
            out.push(Piece::Line(g[i..j].iter().collect()));
            i = j;
        } else if g[i] == '/' && i + 1 < g.len() && g[i + 1] == '*' {
            let mut j = i + 2;
            loop {
                if j + 1 >= g.len() {
                    return None;
                }
                if g[j] == '*' && g[j + 1] == '/' {
                    break;
                }
                j += 1;
            }
            out.push(Piece::Block(g[i..j + 2].iter().collect()));
            i = j + 2;
        } else if matches!(g[i], ' ' | '\t' | '\n' | '\r') {
            let mut j = i;
            while j < g.len() && matches!(g[j], ' ' | '\t' | '\n' | '\r') {
                j += 1;
            }
            out.push(Piece::Ws(g[i..j].iter().collect()));
            i = j;
        } else {
            // something the tokenizer skipped that is neither blank nor comment (e.g. NBSP): keep the gap
            return None;
        }
    }
    Some(out)
}

const WS: &[&str] = &[" ", "  ", "\t", "\n", "\r\n", "\n\n  ", " \t ", "\n\t", "   \n ", "\r\n\r\n", "\r", " \r "];
const NL: &[&str] = &["\n", "\r\n", "\n  ", "\n\n", "\r\n\t", "\r", "\r  "];
const LINE_COMMENTS: &[&str] = &[
    "-- c13", "--", "-- signal X : bit; end;", "--! \"doc' /* x", "-- \u{e9}\u{d7}\u{f7} Latin-1", "--/* not a block", "-- */ x /*",
    "---", "-- trailing blanks  \t ", "--\t", "-- vhdl_ls  off", "-- VHDL_LS OFF", "-- vhdl_ls offside", "--vhdl_ls on.", "-- \\ext\\ 'c' \"s\"",
];
const BLOCK_COMMENTS: &[&str] = &[
    "/* c13 */", "/**/", "/***/", "/****/", "/*****/", "/* x **/", "/* x ***/", "/** x */", "/*** x **/", "/**** x ****/", "/*/ x */",
    "/*/*/", "/* a * / b */", "/* a ** / b **/", "/* -- */", "/*\n*/", "/*\n**/", "/* a\n   b -- c\n */", "/* \"unterminated 'x */",
    "/* end; entity; */", "/* \\ \\x\\ */", "/* vhdl_ls off x */", "/* VHDL_LS OFF */", "/* vhdl_ls  on **/", "/* /* nested? */",
    "/* \u{e9}\u{d7} *\u{f7}*/", "/*\r\n * doc\r\n **/", "/* *\n/ */",
];
const BLOCK_BITS: &[&str] = &["*", "**", "***", "/", "//", " ", "x", "\n", "-", "--", "\"", "'", "\\", "* /", "vhdl_ls off", "\u{e9}", "\t", "\r\n"];
const LINE_BITS: &[&str] = &["/*", "*/", "**/", "\"", "'", "\\", " ", "\t", "x", "\u{e9}\u{d7}\u{f7}", "--", "vhdl_ls off", "end;", "*", "/"];

fn is_directive_body(body: &str) -> bool {
    let t = body.trim();
    t == "vhdl_ls off" || t == "vhdl_ls on"
}

/// a block comment with a random body over stars, slashes, dashes, quotes, line breaks ...; the body
/// never contains `*/` (it may end with stars: `**/`) and is not a tool directive
fn random_block_comment(rng: &mut Rng) -> String {
    let mut body = String::new();
    for _ in 0..rng.below(7) {
        body.push_str(BLOCK_BITS[rng.below(BLOCK_BITS.len())]);
    }
    while body.contains("*/") {
        body = body.replace("*/", "* /");
    }
    if is_directive_body(&body) {
        body.push('x');
    }
    format!("/*{}*/", body)
}
fn random_line_comment(rng: &mut Rng) -> String {
    let mut body = String::new();
    for _ in 0..rng.below(6) {
        body.push_str(LINE_BITS[rng.below(LINE_BITS.len())]);
    }
    if is_directive_body(&body) {
        body.push('x');
    }
    format!("--{}", body)
}
fn pick_block_comment(rng: &mut Rng) -> String {
    if rng.below(2) == 0 { BLOCK_COMMENTS[rng.below(BLOCK_COMMENTS.len())].to_string() } else { random_block_comment(rng) }
}
fn pick_line_comment(rng: &mut Rng) -> String {
    if rng.below(2) == 0 { LINE_COMMENTS[rng.below(LINE_COMMENTS.len())].to_string() } else { random_line_comment(rng) }
}

fn piece_is_directive(p: &Piece) -> bool {
    match p {
        Piece::Line(s) => is_directive_body(&s[2..]),
        Piece::Block(s) => is_directive_body(&s[2..s.len() - 2]),
        _ => false,
    }
}
fn piece_str(p: &Piece) -> &str {
    match p {
        Piece::Ws(s) | Piece::Line(s) | Piece::Block(s) => s,
    }
}

/// Directive comments (`vhdl_ls off` / `vhdl_ls on`) are never deleted, altered or inserted, and keep their
/// attachment: a `--` directive that is the TRAILING comment of the previous token (same line, only blanks
/// between) stays trailing (that part of the gap is copied), every other directive stays a leading comment
/// (a line break or a comment stands between the previous token and it).  Everything else in the gap —
/// blanks, ordinary comments, also between a directive and the next token — is transformed as usual.
fn new_gap(rng: &mut Rng, orig: &[char], mode: u32, must_sep: bool, is_tail: bool, after_token: bool, st: &mut TStats) -> String {
    let all_pieces = match split_gap(orig) {
        Some(p) => p,
        None => return orig.iter().collect(),
    };
    let mut prefix = String::new();
    let mut pieces: &[Piece] = &all_pieces;
    if after_token {
        if let Some(i) = all_pieces.iter().position(|p| !matches!(p, Piece::Ws(_))) {
            let blanks_only = all_pieces[..i].iter().all(|p| !piece_str(p).contains(['\n', '\r']));
            if matches!(all_pieces[i], Piece::Line(_)) && piece_is_directive(&all_pieces[i]) && blanks_only {
                for p in &all_pieces[..=i] {
                    prefix.push_str(piece_str(p));
                }
                pieces = &all_pieces[i + 1..];
            }
        }
    }
    let has_directive = !prefix.is_empty() || pieces.iter().any(piece_is_directive);
    if mode & MODE_JOIN != 0 {
        st.comments_removed += pieces.iter().filter(|p| !matches!(p, Piece::Ws(_)) && !piece_is_directive(p)).count();
        if has_directive {
            // directives keep lines of their own
            let mut out = prefix.clone();
            let mut pending = !prefix.is_empty();
            for p in pieces.iter().filter(|p| piece_is_directive(p)) {
                if pending || matches!(p, Piece::Line(_)) {
                    out.push('\n');
                }
                out.push_str(piece_str(p));
                pending = matches!(p, Piece::Line(_));
            }
            if pending {
                out.push('\n');
            } else if must_sep {
                out.push(' ');
            }
            return out;
        }
        if is_tail {
            return if rng.below(2) == 0 { String::new() } else { "\n".to_string() };
        }
        return if must_sep || (!orig.is_empty() && rng.below(3) != 0) { " ".to_string() } else { String::new() };
    }
    if mode & MODE_SPLIT != 0 {
        let mut out = prefix.clone();
        out.push_str(if rng.below(4) == 0 { "\r\n" } else { "\n" });
        for p in pieces {
            match p {
                Piece::Ws(_) => {}
                Piece::Line(c) | Piece::Block(c) => {
                    out.push_str(c);
                    out.push('\n');
                }
            }
        }
        if rng.below(3) == 0 {
            out.push_str(["  ", "\t", "        "][rng.below(3)]);
        }
        return out;
    }
    let mut out = prefix.clone();
    // `pending_nl`: the previous piece was a line comment, the next thing must start with a line break
    let mut pending_nl = !prefix.is_empty();
    // a comment has been written in this gap (then a following `--` directive is a leading comment)
    let mut seen_comment = !prefix.is_empty();
    let push_ws = |out: &mut String, rng: &mut Rng, pending_nl: &mut bool, orig_ws: Option<&str>| {
        let respace = mode & MODE_SPACE != 0;
        let w: String = match orig_ws {
            Some(w) if !respace => w.to_string(),
            _ => {
                if *pending_nl {
                    NL[rng.below(NL.len())].to_string()
                } else if respace && orig_ws.is_some() && rng.below(6) == 0 {
                    String::new()
                } else {
                    WS[rng.below(WS.len())].to_string()
                }
            }
        };
        if *pending_nl && !(w.starts_with('\n') || w.starts_with('\r')) {
            out.push('\n');
        }
        out.push_str(&w);
        *pending_nl = false;
    };
    let maybe_insert = |out: &mut String, rng: &mut Rng, pending_nl: &mut bool, st: &mut TStats| {
        if mode & MODE_COMMENT != 0 && rng.below(5) == 0 {
            if *pending_nl {
                out.push('\n');
                *pending_nl = false;
            }
            if rng.below(2) == 0 {
                out.push_str(&pick_line_comment(rng));
                *pending_nl = true;
            } else {
                out.push_str(&pick_block_comment(rng));
            }
            st.comments_added += 1;
        }
    };
    maybe_insert(&mut out, rng, &mut pending_nl, st);
    seen_comment = seen_comment || out.contains("--") || out.contains("/*");
    if pieces.is_empty() && mode & MODE_SPACE != 0 && rng.below(3) == 0 {
        push_ws(&mut out, rng, &mut pending_nl, None);
    }
    for p in pieces {
        match p {
            Piece::Ws(w) => push_ws(&mut out, rng, &mut pending_nl, Some(w)),
            Piece::Line(c) => {
                let dir = piece_is_directive(p);
                if !dir && mode & MODE_COMMENT != 0 && rng.below(3) == 0 {
                    st.comments_removed += 1;
                } else {
                    if pending_nl {
                        out.push('\n');
                    } else if dir && after_token && !seen_comment && !out.contains(['\n', '\r']) && !out.contains("/*") {
                        // stays a leading comment of the next token
                        out.push('\n');
                    }
                    out.push_str(c);
                    pending_nl = true;
                    seen_comment = true;
                }
            }
            Piece::Block(c) => {
                if !piece_is_directive(p) && mode & MODE_COMMENT != 0 && rng.below(3) == 0 {
                    st.comments_removed += 1;
                } else {
                    if pending_nl {
                        out.push('\n');
                        pending_nl = false;
                    }
                    out.push_str(c);
                    seen_comment = true;
                }
            }
        }
        maybe_insert(&mut out, rng, &mut pending_nl, st);
        seen_comment = seen_comment || out.contains("--") || out.contains("/*");
    }
    // a line comment may end the file without a line break
    if pending_nl && !(is_tail && mode & MODE_COMMENT != 0 && rng.below(2) == 0) {
        out.push_str(NL[rng.below(NL.len())]);
    }
    if must_sep && out.is_empty() {
        out.push(' ');
    }
    out
}

fn permute_case(rng: &mut Rng, w: &[char]) -> String {
    match rng.below(5) {
        0 => w.iter().map(|c| c.to_ascii_uppercase()).collect(),
        1 => w.iter().map(|c| c.to_ascii_lowercase()).collect(),
        2 => w.iter().enumerate().map(|(i, c)| if i == 0 { c.to_ascii_uppercase() } else { c.to_ascii_lowercase() }).collect(),
        _ => w.iter().map(|c| if rng.below(2) == 0 { c.to_ascii_uppercase() } else { c.to_ascii_lowercase() }).collect(),
    }
}

/// A token-preserving transformation of one file; `None` = the file is kept as it is (lexical
/// errors, tool directives, `vhdl_ls off`).
fn transform_file(symbols: &Symbols, rng: &mut Rng, text: &str, mode: u32, st: &mut TStats) -> Option<String> {
    if text.contains('`') {
        return None;
    }
    // the tokens INSIDE `vhdl_ls off` .. `vhdl_ls on` regions are found by tokenizing a copy of the text whose
    // directive comments are spelt `vhdl_ls_off` / `vhdl_ls_on` (same length, same offsets)
    let masked = text.replace("vhdl_ls off", "vhdl_ls_off").replace("vhdl_ls on", "vhdl_ls_on");
    let ft = tokenize(symbols, &masked);
    if ft.lexdiags > 0 {
        return None;
    }
    let chars: Vec<char> = text.chars().collect();
    let toks = &ft.toks;
    for w in toks.windows(2) {
        if w[0].e > w[1].s {
            return None;
        }
    }
    if toks.iter().any(|t| t.s >= t.e || t.e > chars.len()) {
        return None;
    }
    let mut out = String::new();
    let mut prev_end = 0usize;
    // gaps after a tick and after the token that follows a tick stay verbatim: `'` x `'` must not
    // become (or stop being) a character literal
    let mut keep_gap = 0;
    for (i, t) in toks.iter().enumerate() {
        let gap = &chars[prev_end..t.s];
        let tt = &chars[t.s..t.e];
        let g: String = if keep_gap > 0 {
            keep_gap -= 1;
            if mode & MODE_JOIN != 0 && gap.iter().all(|c| matches!(c, ' ' | '\t' | '\n' | '\r')) {
                gap.iter().map(|c| if matches!(c, '\n' | '\r') { ' ' } else { *c }).collect()
            } else {
                gap.iter().collect()
            }
        } else {
            let must_sep = i > 0 && !gap.is_empty() && !may_touch(&chars[toks[i - 1].s..toks[i - 1].e], tt);
            new_gap(rng, gap, mode, must_sep, false, i > 0, st)
        };
        // `-` followed by an inserted `-- ..` would read as a comment that starts one character early
        let g = if g.starts_with('-') && out.ends_with('-') { format!(" {}", g) } else { g };
        if g.chars().ne(gap.iter().copied()) {
            st.changed_gaps += 1;
        }
        out.push_str(&g);
        if t.kind == Kind::Tick {
            keep_gap = 2;
        }
        if mode & MODE_CASE != 0 && is_basic_ident_or_keyword(t, &chars) && rng.below(4) != 0 {
            let w = permute_case(rng, tt);
            if w.chars().ne(tt.iter().copied()) {
                st.changed_case += 1;
            }
            out.push_str(&w);
        } else {
            out.extend(tt.iter());
        }
        prev_end = t.e;
    }
    let tail = &chars[prev_end..];
    let g = new_gap(rng, tail, mode, false, true, !toks.is_empty(), st);
    if g.chars().ne(tail.iter().copied()) {
        st.changed_gaps += 1;
    }
    out.push_str(&g);
    Some(out)
}

fn header_lines(rng: &mut Rng) -> String {
    let n = 3 + rng.below(46);
    let nl = if rng.below(4) == 0 { "\r\n" } else { "\n" };
    let mut h = String::new();
    for _ in 0..n {
        match rng.below(5) {
            0 => h.push_str("-- header"),
            1 => h.push_str("   "),
            2 => h.push_str("/* block */"),
            3 => h.push_str("--------------------------------------------------------------------------------"),
            _ => {}
        }
        h.push_str(nl);
    }
    h
}

/// `only = Some(i)`: the i-th file of the project (libraries in order, files in order) is transformed, all
/// others stay as they are
fn transform_project(symbols: &Symbols, rng: &mut Rng, p: &Files, mode: u32, only: Option<usize>) -> (Files, TStats) {
    let mut st = TStats::default();
    let mut out = Files::new();
    let mut idx = 0usize;
    for (lib, fs) in p {
        let mut v = Vec::new();
        for (name, text) in fs {
            let this = only.map(|i| i == idx).unwrap_or(true);
            idx += 1;
            if !this {
                v.push((name.clone(), text.clone()));
                continue;
            }
            if mode & MODE_HEADER != 0 {
                st.changed_gaps += 1;
                v.push((name.clone(), format!("{}{}", header_lines(rng), text)));
                continue;
            }
            match transform_file(symbols, rng, text, mode, &mut st) {
                Some(t) => v.push((name.clone(), t)),
                None => {
                    st.files_kept += 1;
                    v.push((name.clone(), text.clone()))
                }
            }
        }
        out.insert(lib.clone(), v);
    }
    (out, st)
}

/// the lexer-level half of the oracle: same number of tokens, same kinds, same values (identifier
/// values are `Symbol`s of one shared table, compared by id)
fn lexdiff(symbols: &Symbols, a: &Files, b: &Files) -> Option<String> {
    for (lib, fs) in a {
        for (i, (name, ta)) in fs.iter().enumerate() {
            let tb = &b[lib][i].1;
            if ta == tb {
                continue;
            }
            let x = tokenize(symbols, ta);
            let y = tokenize(symbols, tb);
            if x.lexdiags != y.lexdiags {
                return Some(format!("{}: tokenizer diagnostics {} vs {}", name, x.lexdiags, y.lexdiags));
            }
            for (k, (p, q)) in x.toks.iter().zip(y.toks.iter()).enumerate() {
                if p.kind != q.kind || p.value != q.value {
                    return Some(format!(
                        "{}: token {} is {:?} {:?} at {}:{} but {:?} {:?} at {}:{} after the transformation",
                        name, k, p.kind, p.value, p.sp.0, p.sp.1, q.kind, q.value, q.sp.0, q.sp.1
                    ));
                }
            }
            if x.toks.len() != y.toks.len() {
                return Some(format!("{}: {} tokens vs {} tokens", name, x.toks.len(), y.toks.len()));
            }
        }
    }
    None
}

// ------------------------------------------------------------------ analysis and canonical diagnostics
fn config_text(p: &Files) -> String {
    let mut s = String::from("[libraries]\n");
    s.push_str(&format!("std.files = ['{STD_DIR}/std/*.vhd']\nstd.is_third_party = true\n"));
    if !p.contains_key("ieee") {
        s.push_str(&format!(
            "ieee.files = ['{STD_DIR}/ieee2008/std_logic_1164.vhdl', '{STD_DIR}/ieee2008/std_logic_1164-body.vhdl']\nieee.is_third_party = true\n"
        ));
    }
    for (lib, files) in p {
        let names: Vec<String> = files.iter().map(|(f, _)| format!("'{f}'")).collect();
        s.push_str(&format!("{lib}.files = [{}]\n", names.join(", ")));
    }
    s
}

fn analyse(dir: &Path, p: &Files) -> Vec<Diagnostic> {
    let _ = std::fs::remove_dir_all(dir);
    std::fs::create_dir_all(dir).unwrap();
    for fs in p.values() {
        for (name, text) in fs {
            std::fs::write(dir.join(name), string_to_l1(text)).unwrap();
        }
    }
    let mut msgs = NullMessages;
    let mut cfg = Config::default();
    let c2 = Config::from_str(&config_text(p), dir).expect("config text");
    cfg.append(&c2, &mut msgs);
    let mut pr = Project::from_config(cfg, &mut msgs);
    pr.enable_all_linters();
    pr.analyse()
}

/// the re-layout as an EDIT HISTORY: the original project is loaded and analysed (linters on), then every file
/// that differs is replaced in place (`Source::change` + `Project::update_source`, what didChange does) and the
/// project is analysed again
fn analyse_live(dir: &Path, orig: &Files, trans: &Files) -> Vec<Diagnostic> {
    let _ = std::fs::remove_dir_all(dir);
    std::fs::create_dir_all(dir).unwrap();
    for fs in orig.values() {
        for (name, text) in fs {
            std::fs::write(dir.join(name), string_to_l1(text)).unwrap();
        }
    }
    let mut msgs = NullMessages;
    let mut cfg = Config::default();
    let c2 = Config::from_str(&config_text(orig), dir).expect("config text");
    cfg.append(&c2, &mut msgs);
    let mut pr = Project::from_config(cfg, &mut msgs);
    pr.enable_all_linters();
    let _ = pr.analyse();
    for (lib, fs) in orig {
        for (i, (name, text)) in fs.iter().enumerate() {
            let t = &trans[lib][i].1;
            if t != text {
                let src = pr.get_source(&dir.join(name)).expect("source of a project file");
                src.change(None, t);
                pr.update_source(&src);
            }
        }
    }
    pr.analyse()
}
fn analyse_live_safe(dir: &Path, orig: &Files, trans: &Files) -> Result<Vec<Diagnostic>, String> {
    catch_unwind(AssertUnwindSafe(|| analyse_live(dir, orig, trans))).map_err(|e| {
        e.downcast_ref::<String>()
            .cloned()
            .or_else(|| e.downcast_ref::<&str>().map(|s| s.to_string()))
            .unwrap_or_else(|| "panic".to_string())
    })
}

fn analyse_safe(dir: &Path, p: &Files) -> Result<Vec<Diagnostic>, String> {
    catch_unwind(AssertUnwindSafe(|| analyse(dir, p))).map_err(|e| {
        e.downcast_ref::<String>()
            .cloned()
            .or_else(|| e.downcast_ref::<&str>().map(|s| s.to_string()))
            .unwrap_or_else(|| "panic".to_string())
    })
}

fn l1_lower(s: &str) -> String {
    s.chars()
        .map(|c| match c as u32 {
            215 => c,
            65..=90 | 192..=222 => char::from_u32(c as u32 + 32).unwrap(),
            _ => c,
        })
        .collect()
}

struct TokMaps(BTreeMap<String, FileToks>);

impl TokMaps {
    fn new(symbols: &Symbols, p: &Files) -> TokMaps {
        let mut m = BTreeMap::new();
        for fs in p.values() {
            for (name, text) in fs {
                m.insert(name.clone(), tokenize(symbols, text));
            }
        }
        TokMaps(m)
    }
    /// canonical coordinate of a range: `t<i>` / `t<i>-<j>` when it starts inside token i and ends
    /// inside token j; syntax errors: `n<k>` = number of tokens that end at or before its start
    /// (= index of the token after the anchor)
    fn coord(&self, file: &Path, r: &vhdl_lang::Range, syntax: bool) -> String {
        let base = file.file_name().map(|x| x.to_string_lossy().to_string()).unwrap_or_default();
        match self.0.get(&base) {
            None => format!("{}@{}:{}-{}:{}", file.display(), r.start.line, r.start.character, r.end.line, r.end.character),
            Some(ft) => {
                let s = (r.start.line, r.start.character);
                let e = (r.end.line, r.end.character);
                if syntax {
                    let k = ft.toks.iter().filter(|t| t.ep <= s).count();
                    return format!("{}@n{}", base, k);
                }
                let i = ft.toks.iter().position(|t| t.sp <= s && s < t.ep);
                let j = ft.toks.iter().position(|t| t.sp < e && e <= t.ep);
                match (i, j) {
                    (Some(i), Some(j)) if i == j => format!("{}@t{}", base, i),
                    (Some(i), Some(j)) => format!("{}@t{}-{}", base, i, j),
                    _ => {
                        // not on token boundaries: number of tokens before start / before end
                        let a = ft.toks.iter().filter(|t| t.ep <= s).count();
                        let b = ft.toks.iter().filter(|t| t.ep <= e).count();
                        format!("{}@g{}{}-{}{}", base, a, if s == e { "z" } else { "" }, b, if i.is_some() { "s" } else if j.is_some() { "e" } else { "" })
                    }
                }
            }
        }
    }
}

fn canon(maps: &TokMaps, diags: &[Diagnostic]) -> Vec<String> {
    let mut out: Vec<String> = diags
        .iter()
        .map(|d| {
            let code = format!("{:?}", d.code);
            let syntax = code == "SyntaxError";
            let mut rel: Vec<String> = d
                .related
                .iter()
                .map(|(p, m)| format!("{} {}", maps.coord(p.source.file_name(), &p.range, false), l1_lower(m)))
                .collect();
            rel.sort();
            format!(
                "{} {} {} || {}",
                code,
                maps.coord(d.pos.source.file_name(), &d.pos.range, syntax),
                l1_lower(&d.message),
                rel.join(" ## ")
            )
        })
        .collect();
    out.sort();
    out
}

fn first_diff(a: &[String], b: &[String]) -> String {
    let only_a: Vec<&String> = a.iter().filter(|x| !b.contains(x)).collect();
    let only_b: Vec<&String> = b.iter().filter(|x| !a.contains(x)).collect();
    if only_a.is_empty() && only_b.is_empty() {
        return format!("same diagnostics with different multiplicity ({} vs {})", a.len(), b.len());
    }
    format!(
        "only original: [{}] only transformed: [{}]",
        only_a.iter().take(3).map(|s| s.as_str()).collect::<Vec<_>>().join(" ;; "),
        only_b.iter().take(3).map(|s| s.as_str()).collect::<Vec<_>>().join(" ;; ")
    )
}

struct Outcome {
    verdict: &'static str,
    detail: String,
    ndiag: usize,
    codes: BTreeMap<String, usize>,
}

/// `orig_canon`: Ok(canonical diagnostics) or Err(panic message) of the original, when already known
fn compare_pair(
    symbols: &Symbols,
    dir: &Path,
    orig: &Files,
    orig_canon: Option<&Result<Vec<String>, String>>,
    trans: &Files,
    live: bool,
) -> (Outcome, Result<Vec<String>, String>) {
    let oc: Result<Vec<String>, String> = match orig_canon {
        Some(c) => c.clone(),
        None => analyse_safe(&dir.join("p"), orig).map(|d| canon(&TokMaps::new(symbols, orig), &d)),
    };
    let mut codes = BTreeMap::new();
    let ndiag = oc.as_ref().map(|c| c.len()).unwrap_or(0);
    if let Ok(c) = &oc {
        for l in c {
            *codes.entry(l.split(' ').next().unwrap_or("").to_string()).or_insert(0) += 1;
        }
    }
    if let Some(d) = lexdiff(symbols, orig, trans) {
        return (Outcome { verdict: "LEXDIFF", detail: d, ndiag, codes }, oc);
    }
    let tc = analyse_safe(&dir.join("p"), trans).map(|d| canon(&TokMaps::new(symbols, trans), &d));
    // the same re-layout applied in place to the live project must leave every diagnostic on its token too
    if live {
        if let (Ok(a), Ok(b)) = (&oc, &tc) {
            // a design-unit name defined in two files: which one wins after an edit follows the edit order, not the
            // layout (outside the claim, as in C01/C04; DESIGN 4.0)
            let unit_dup = a.iter().any(|l| l.contains("a primary unit has already been declared") || l.contains("duplicate architecture"));
            if a == b && !unit_dup {
                let lc = analyse_live_safe(&dir.join("p"), orig, trans).map(|d| canon(&TokMaps::new(symbols, trans), &d));
                match lc {
                    Ok(l) if &l == a => {}
                    Ok(l) => {
                        let detail = format!(
                            "after the re-layout was applied IN PLACE (Source::change + update_source) and the project re-analysed: {}",
                            first_diff(a, &l)
                        );
                        return (Outcome { verdict: "MISMATCH", detail, ndiag, codes }, oc);
                    }
                    Err(e) => {
                        let detail = format!("the analysis panics after the in-place re-layout (update_source): {}", e);
                        return (Outcome { verdict: "MISMATCH", detail, ndiag, codes }, oc);
                    }
                }
            }
        }
    }
    let o = match (&oc, &tc) {
        (Ok(a), Ok(b)) if a == b => Outcome { verdict: "OK", detail: String::new(), ndiag, codes },
        (Ok(a), Ok(b)) => Outcome { verdict: "MISMATCH", detail: first_diff(a, b), ndiag, codes },
        // the analysis of the original panics as well: nothing to compare (totality is property C03)
        (Err(a), Err(_)) => Outcome { verdict: "BOTHPANIC", detail: a.clone(), ndiag, codes },
        (Ok(_), Err(b)) => Outcome {
            verdict: "MISMATCH",
            detail: format!("the analysis panics on the transformed project only: {}", b),
            ndiag,
            codes,
        },
        (Err(a), Ok(_)) => Outcome {
            verdict: "MISMATCH",
            detail: format!("the analysis panics on the original project only: {}", a),
            ndiag,
            codes,
        },
    };
    (o, oc)
}

fn mode_of(k: usize) -> u32 {
    match k % 7 {
        0 => MODE_SPACE,
        1 => MODE_COMMENT,
        2 => MODE_CASE,
        3 => MODE_SPACE | MODE_COMMENT | MODE_CASE,
        4 => MODE_JOIN,
        5 => MODE_SPLIT,
        _ => MODE_ONE_FILE,
    }
}
const ONE_FILE_OPS: &[u32] = &[MODE_HEADER, MODE_JOIN, MODE_SPLIT, MODE_SPACE | MODE_COMMENT];

fn run_project(symbols: &Symbols, dir: &Path, seed: u64, idx: usize, p: &Proj, ntrans: usize) -> Vec<serde_json::Value> {
    let mut out = Vec::new();
    let ntok: usize = p.libs.values().flatten().map(|(_, t)| tokenize(symbols, t).toks.len()).sum();
    let nfiles: usize = p.libs.values().map(|v| v.len()).sum();
    let mut oc: Option<Result<Vec<String>, String>> = None;
    // the plan: (mode, the one file to transform); hand-made corpus projects (`M:`) additionally get EVERY
    // (file, one-file operation) pair
    let mut plan: Vec<(u32, Option<usize>)> = Vec::new();
    for k in 0..ntrans {
        let m = mode_of(k);
        if m == MODE_ONE_FILE {
            let mut r = Rng::new(seed ^ ((idx as u64) << 8) ^ (k as u64) ^ 0x0F11E);
            plan.push((MODE_ONE_FILE | ONE_FILE_OPS[r.below(ONE_FILE_OPS.len())], Some(r.below(nfiles.max(1)))));
        } else {
            plan.push((m, None));
        }
    }
    if p.id.starts_with("M:") && nfiles > 1 {
        for f in 0..nfiles {
            for op in ONE_FILE_OPS {
                plan.push((MODE_ONE_FILE | *op, Some(f)));
            }
        }
    }
    for (k, (mode, only)) in plan.iter().enumerate() {
        let (mode, only) = (*mode, *only);
        let tseed = seed
            .wrapping_mul(0x9E3779B97F4A7C15)
            .wrapping_add((idx as u64) << 20)
            .wrapping_add(k as u64);
        let r = catch_unwind(AssertUnwindSafe(|| {
            let mut rng = Rng::new(tseed);
            let (trans, st) = transform_project(symbols, &mut rng, &p.libs, mode & !MODE_ONE_FILE, only);
            let (o, c) = compare_pair(symbols, dir, &p.libs, oc.as_ref(), &trans, only.is_some());
            (trans, st, o, c)
        }));
        match r {
            Ok((trans, st, o, c)) => {
                oc = Some(c);
                let mut rec = serde_json::json!({
                    "id": p.id, "k": k, "mode": mode, "only_file": only, "tseed": tseed, "verdict": o.verdict, "detail": o.detail,
                    "ndiag": o.ndiag, "codes": o.codes, "nfiles": nfiles, "ntokens": ntok,
                    "changed_case": st.changed_case, "changed_gaps": st.changed_gaps,
                    "comments_added": st.comments_added, "comments_removed": st.comments_removed,
                    "files_kept": st.files_kept,
                });
                if o.verdict != "OK" {
                    rec["orig"] = files_to_json(&p.libs);
                    rec["trans"] = files_to_json(&trans);
                }
                out.push(rec);
            }
            Err(e) => {
                let msg = e
                    .downcast_ref::<String>()
                    .cloned()
                    .or_else(|| e.downcast_ref::<&str>().map(|s| s.to_string()))
                    .unwrap_or_default();
                let mut rng = Rng::new(tseed);
                let trans = catch_unwind(AssertUnwindSafe(|| transform_project(symbols, &mut rng, &p.libs, mode & !MODE_ONE_FILE, only).0)).ok();
                out.push(serde_json::json!({
                    "id": p.id, "k": k, "mode": mode, "tseed": tseed, "verdict": "PANIC",
                    "detail": format!("panic in the tokenizer or the harness while transforming/comparing: {}", msg),
                    "ndiag": 0, "codes": {}, "nfiles": nfiles, "ntokens": ntok,
                    "changed_case": 0, "changed_gaps": 0, "comments_added": 0, "comments_removed": 0, "files_kept": 0,
                    "orig": files_to_json(&p.libs),
                    "trans": trans.map(|t| files_to_json(&t)).unwrap_or(serde_json::Value::Null),
                }));
            }
        }
    }
    out
}

// ------------------------------------------------------------------ generated projects
#[path = "c13/gen.rs"]
mod gen;

fn main() {
    let args: Vec<String> = std::env::args().collect();
    if args.len() < 2 {
        eprintln!("usage: c13 init | sym | symcase | proj | replay (see the source header)");
        std::process::exit(2);
    }
    std::panic::set_hook(Box::new(|_| {}));
    let kws: Vec<Kind> = VHDLStandard::default().keywords().to_vec();
    match args[1].as_str() {
        "init" => {
            println!("{}", kws.len());
            for n in init_names() {
                println!("{}", hex(&n));
            }
        }
        "sym" => {
            let seed: u64 = args[2].parse().unwrap();
            let n: usize = args[3].parse().unwrap();
            let mut cases = std::io::BufWriter::new(std::fs::File::create(&args[4]).unwrap());
            let mut out = std::io::BufWriter::new(std::fs::File::create(&args[5]).unwrap());
            let kwnames: Vec<Vec<u8>> = kws.iter().map(|k| kind_str(*k).as_bytes().to_vec()).collect();
            let mut rng = Rng::new(seed ^ 0xC13);
            let mut lines = vec!["L".to_string()];
            // every keyword in lower, upper and capitalised spelling
            for k in &kwnames {
                lines.push(format!("K {}", hex(k)));
                lines.push(format!("K {}", hex(&k.to_ascii_uppercase())));
                let mut c = k.clone();
                c[0] = c[0].to_ascii_uppercase();
                lines.push(format!("K {}", hex(&c)));
            }
            for _ in 0..n {
                lines.push(gen_sym_case(&mut rng, &kwnames));
            }
            for l in lines {
                writeln!(cases, "{}", l).unwrap();
                writeln!(out, "{}", run_sym_case(&l, &kws)).unwrap();
            }
        }
        "symcase" => {
            let f = std::io::BufReader::new(std::fs::File::open(&args[2]).unwrap());
            let mut out = std::io::BufWriter::new(std::fs::File::create(&args[3]).unwrap());
            for l in f.lines() {
                let l = l.unwrap();
                writeln!(out, "{}", run_sym_case(&l, &kws)).unwrap();
            }
        }
        "proj" => {
            let seed: u64 = args[2].parse().unwrap();
            let ngen: usize = args[3].parse().unwrap();
            let ntrans: usize = args[4].parse().unwrap();
            let mut projects: Vec<Proj> = Vec::new();
            if args[5] != "-" {
                let f = std::io::BufReader::new(std::fs::File::open(&args[5]).unwrap());
                for l in f.lines() {
                    let l = l.unwrap();
                    if l.trim().is_empty() || l.starts_with('#') {
                        continue;
                    }
                    let v: serde_json::Value = serde_json::from_str(&l).expect("project json");
                    projects.push(proj_from_json(&v).expect("project fields"));
                }
            }
            let mut rng = Rng::new(seed ^ 0x13_0000);
            for i in 0..ngen {
                let mut r = rng.fork();
                projects.push(Proj { id: format!("G:{}:{}", seed, i), libs: gen::gen_project(&mut r) });
            }
            let workdir = PathBuf::from(&args[7]);
            let threads: usize = args.get(8).map(|x| x.parse().unwrap()).unwrap_or(16).max(1);
            let projects = Arc::new(projects);
            let next = Arc::new(Mutex::new(0usize));
            let results: Arc<Mutex<Vec<(usize, Vec<serde_json::Value>)>>> = Arc::new(Mutex::new(Vec::new()));
            let mut hs = Vec::new();
            for w in 0..threads.min(projects.len().max(1)) {
                let projects = projects.clone();
                let next = next.clone();
                let results = results.clone();
                let dir = workdir.join(format!("w{}", w));
                hs.push(
                    std::thread::Builder::new()
                        .stack_size(256 << 20)
                        .spawn(move || {
                            let symbols = Symbols::default();
                            loop {
                                let i = {
                                    let mut n = next.lock().unwrap();
                                    let i = *n;
                                    *n += 1;
                                    i
                                };
                                if i >= projects.len() {
                                    break;
                                }
                                let r = run_project(&symbols, &dir, seed, i, &projects[i], ntrans);
                                results.lock().unwrap().push((i, r));
                            }
                        })
                        .unwrap(),
                );
            }
            for h in hs {
                h.join().expect("worker");
            }
            let mut res = results.lock().unwrap().clone();
            res.sort_by_key(|(i, _)| *i);
            let mut out = std::io::BufWriter::new(std::fs::File::create(&args[6]).unwrap());
            for (_, rs) in res {
                for r in rs {
                    writeln!(out, "{}", r).unwrap();
                }
            }
        }
        "replay" => {
            let v: serde_json::Value = serde_json::from_str(&std::fs::read_to_string(&args[2]).unwrap()).unwrap();
            let orig = files_from_json(&v["orig"]).expect("orig");
            let trans = files_from_json(&v["trans"]).expect("trans");
            let symbols = Symbols::default();
            let dir = PathBuf::from(&args[3]);
            let r = catch_unwind(AssertUnwindSafe(|| compare_pair(&symbols, &dir, &orig, None, &trans, true)));
            match r {
                Ok((o, oc)) => println!(
                    "{}",
                    serde_json::json!({"verdict": o.verdict, "detail": o.detail, "ndiag": o.ndiag,
                        "orig_diagnostics": oc.unwrap_or_else(|e| vec![format!("PANIC {}", e)])})
                ),
                Err(_) => println!("{}", serde_json::json!({"verdict": "PANIC", "detail": "panic", "ndiag": 0})),
            }
        }
        _ => {
            eprintln!("unknown mode");
            std::process::exit(2);
        }
    }
}
