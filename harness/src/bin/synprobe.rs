//! vhdl_syntax parse probe: synprobe <text>  — parses, prints re-emitted text equality and errors.
use vhdl_syntax::syntax::AstNode;
fn main() {
    let text = std::env::args().nth(1).unwrap();
    let (file, errs) = vhdl_syntax::parser::parse(text.as_bytes());
    let mut out = Vec::new();
    file.raw().write_to(&mut out).unwrap();
    println!("lossless={} errs={}", out == text.as_bytes(), errs.len());
}
