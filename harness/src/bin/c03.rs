//! C03 harness: analysis and every editor query are total on any project state.
//!
//! usage: c03 gen   <seed> <ncases> <nsteps> <out.jsonl> <workdir> <threads> <watchdog_s> [<lsp_cases_out.json> <n_lsp> [<budget_s> [<kinds_stride: 0 = no kind-confusion sweep, 1 = every name, k = every k-th>]]]
//!        c03 cases <cases.json>            <out.jsonl> <workdir> <threads> <watchdog_s>
//!        c03 min   <replay.json> <out.json> <workdir>       (delta-debugging of one violating case)
//!        c03 show  <seed> <idx> <nsteps>                    (print a generated case as JSON)
//!
//! A *case* = project files + library mapping + an edit history (LSP style changes of one file each).
//! The runner builds a fresh `Project`, then after the initial analysis and after every edit
//! (`Source::change` + `Project::update_source` + `Project::analyse`) it
//!   * checks every diagnostic position (and related positions) against the CURRENT text of the file it names,
//!   * runs every editor query of the property at sampled token boundaries and at out-of-range cursors,
//!     checking every returned location the same way,
//! everything under `catch_unwind`; a watchdog in the main thread turns a missing heartbeat into a `hang` record.
//! Output: JSON lines (`violation`, `case`, `summary`, `arena` records).
#[path = "c03/gen.rs"]
mod gen;

use gen::{Case, Edit};
use serde_json::{json, Value};
use std::cell::RefCell;
use std::collections::{BTreeMap, HashMap, HashSet};
use std::io::Write;
use std::panic::{catch_unwind, AssertUnwindSafe};
use std::path::{Path, PathBuf};
use std::sync::atomic::{AtomicU64, AtomicUsize, Ordering};
use std::sync::{Arc, Mutex};
use std::time::Instant;
use verif_harness::rng::Rng;
use vhdl_lang::ast::search::{FoundDeclaration, SearchState, Searcher};
use vhdl_lang::{
    CompletionItem, Config, Diagnostic, EntHierarchy, EntRef, HasEntityId, NullMessages, Position, Project, Range, Reference,
    Source, SrcPos, Token, TokenAccess,
};

thread_local! {
    static LAST_PANIC: RefCell<String> = RefCell::new(String::new());
}
/// panics inside the analysis happen on rayon worker threads: the hook also files the location under the message
static PANIC_LOCS: Mutex<Vec<(String, String)>> = Mutex::new(Vec::new());
static TIMES: Mutex<BTreeMap<String, (u64, u64)>> = Mutex::new(BTreeMap::new());
static AT_SINK: Mutex<Option<Arc<Out>>> = Mutex::new(None);

fn add_time(name: &str, t: Instant) {
    let us = t.elapsed().as_micros() as u64;
    let mut m = TIMES.lock().unwrap();
    let e = m.entry(name.to_string()).or_insert((0, 0));
    e.0 += 1;
    e.1 += us;
}

fn install_hook() {
    std::panic::set_hook(Box::new(|info| {
        let loc = info.location().map(|l| format!("{}:{}", l.file(), l.line())).unwrap_or_else(|| "?".into());
        let msg = if let Some(s) = info.payload().downcast_ref::<&str>() {
            s.to_string()
        } else if let Some(s) = info.payload().downcast_ref::<String>() {
            s.clone()
        } else {
            "<non-string panic payload>".to_string()
        };
        let mut msg: String = msg.chars().take(300).collect();
        if let Some(i) = msg.find('\n') {
            msg.truncate(i);
        }
        // strip the checkout prefix so that signatures are stable between /repo and scratch worktrees
        let loc = match loc.find("vhdl_lang/src/") {
            Some(i) => loc[i..].to_string(),
            None => loc,
        };
        LAST_PANIC.with(|p| *p.borrow_mut() = format!("{loc}: {msg}"));
        if let Ok(mut v) = PANIC_LOCS.lock() {
            if v.len() > 64 {
                v.remove(0);
            }
            v.push((msg, loc));
        }
    }));
}

fn payload_msg(e: &Box<dyn std::any::Any + Send>) -> String {
    let msg = if let Some(s) = e.downcast_ref::<&str>() {
        s.to_string()
    } else if let Some(s) = e.downcast_ref::<String>() {
        s.clone()
    } else {
        "<non-string panic payload>".to_string()
    };
    let mut msg: String = msg.chars().take(300).collect();
    if let Some(i) = msg.find('\n') {
        msg.truncate(i);
    }
    msg
}

/// `location: message` of the panic that `catch_unwind` returned
fn panic_text(e: &Box<dyn std::any::Any + Send>) -> String {
    let msg = payload_msg(e);
    let loc = PANIC_LOCS.lock().ok().and_then(|v| v.iter().rev().find(|(m, _)| *m == msg).map(|(_, l)| l.clone())).unwrap_or_else(|| "?".into());
    format!("{loc}: {msg}")
}

struct Heartbeat {
    /// the query being executed (for the hang report)
    current: Mutex<String>,
    t0: Instant,
    last_ms: AtomicU64,
    desc: Mutex<Option<Value>>,
    idle: AtomicUsize,
}

impl Heartbeat {
    fn new(t0: Instant) -> Heartbeat {
        Heartbeat { current: Mutex::new(String::new()), t0, last_ms: AtomicU64::new(0), desc: Mutex::new(None), idle: AtomicUsize::new(1) }
    }
    fn beat(&self) {
        self.last_ms.store(self.t0.elapsed().as_millis() as u64, Ordering::Relaxed);
    }
    fn set(&self, v: Value) {
        // breadcrumb for aborts that catch_unwind cannot see (stack overflow): which case/step/phase was running
        if let Some(out) = AT_SINK.lock().unwrap().as_ref() {
            let id = v.get("case").and_then(|c| c.get("id")).cloned().unwrap_or(Value::Null);
            out.write(&json!({"kind": "at", "id": id, "step": v.get("step").cloned().unwrap_or(Value::Null), "phase": v.get("phase").cloned().unwrap_or(Value::Null)}));
        }
        *self.desc.lock().unwrap() = Some(v);
        self.current.lock().unwrap().clear();
        self.idle.store(0, Ordering::Relaxed);
        self.beat();
    }
    fn done(&self) {
        self.idle.store(1, Ordering::Relaxed);
    }
}

#[derive(Default)]
struct Stats {
    states: usize,
    queries: usize,
    cursors: usize,
    diags: usize,
    locations: usize,
    error_states: usize,
    found_decl: usize,
    completions: usize,
}

struct Out {
    file: Mutex<std::fs::File>,
    sigs: Mutex<HashMap<String, usize>>,
}

impl Out {
    fn write(&self, v: &Value) {
        let mut f = self.file.lock().unwrap();
        let _ = writeln!(f, "{}", v);
        let _ = f.flush();
    }
    /// at most 2 full records per signature; the rest only counted
    fn violation(&self, sig: &str, v: Value) {
        let n = {
            let mut s = self.sigs.lock().unwrap();
            let e = s.entry(sig.to_string()).or_insert(0);
            *e += 1;
            *e
        };
        if n <= 2 {
            self.write(&v);
        }
    }
}

// ------------------------------------------------------------------------------------------------
// current text of project files and the in-text check
// ------------------------------------------------------------------------------------------------
struct TextInfo {
    /// UTF-16 length of every line without its terminator
    lens: Vec<u32>,
    last_has_newline: bool,
    end: Position,
}

fn text_info(src: &Source) -> TextInfo {
    let c = src.contents();
    let n = c.num_lines();
    let mut lens = Vec::with_capacity(n);
    let mut last_nl = false;
    for i in 0..n {
        let l = c.get_line(i).unwrap_or("");
        let body = l.strip_suffix('\n').unwrap_or(l);
        last_nl = l.ends_with('\n');
        lens.push(body.chars().map(|ch| ch.len_utf16() as u32).sum());
    }
    TextInfo { lens, last_has_newline: last_nl, end: c.end() }
}

fn source_text(src: &Source) -> String {
    let c = src.contents();
    let mut s = String::new();
    for i in 0..c.num_lines() {
        s.push_str(c.get_line(i).unwrap_or(""));
    }
    s
}

struct Texts<'a> {
    project: &'a Project,
    cache: RefCell<HashMap<PathBuf, Option<TextInfo>>>,
}

impl<'a> Texts<'a> {
    fn new(project: &'a Project) -> Texts<'a> {
        Texts { project, cache: RefCell::new(HashMap::new()) }
    }

    fn pos_ok(info: &TextInfo, p: Position) -> bool {
        let n = info.lens.len() as u32;
        if p.line < n {
            return p.character <= info.lens[p.line as usize];
        }
        // the end-of-file marker: line == number of lines, character 0, when the text is empty or ends with a newline
        p.line == n && p.character == 0 && (n == 0 || info.last_has_newline)
    }

    /// `None` = fine; `Some(problem)` = the location is not inside the current text of a project file
    fn check(&self, pos: &SrcPos) -> Option<String> {
        let name = pos.source.file_name().to_path_buf();
        let mut cache = self.cache.borrow_mut();
        let info = cache.entry(name.clone()).or_insert_with(|| self.project.get_source(&name).map(|s| text_info(&s)));
        let Some(info) = info else {
            return Some(format!("location names {} which is not a file of the project", name.display()));
        };
        let r = pos.range;
        // end-of-file marker excepted (both conventions of the code base: reader position and Contents::end)
        let eof_ok = |p: Position| p == info.end || (p.line == info.end.line && p.character == info.end.character + 1);
        let ok = |p: Position| Self::pos_ok(info, p) || eof_ok(p);
        if !ok(r.start) || !ok(r.end) {
            return Some(format!(
                "range {}:{}-{}:{} lies outside the current text of {} ({} lines{})",
                r.start.line,
                r.start.character,
                r.end.line,
                r.end.character,
                name.display(),
                info.lens.len(),
                info.lens.get(r.start.line as usize).map(|l| format!(", line {} has {} UTF-16 units", r.start.line, l)).unwrap_or_default()
            ));
        }
        if r.start > r.end {
            return Some(format!("inverted range {}:{}-{}:{} in {}", r.start.line, r.start.character, r.end.line, r.end.character, name.display()));
        }
        None
    }
}

// ------------------------------------------------------------------------------------------------
// project construction
// ------------------------------------------------------------------------------------------------
fn make_project(case: &Case, dir: &Path) -> Project {
    let _ = std::fs::remove_dir_all(dir);
    std::fs::create_dir_all(dir).unwrap();
    for (name, text) in &case.files {
        let p = dir.join(name);
        if let Some(parent) = p.parent() {
            std::fs::create_dir_all(parent).unwrap();
        }
        // base files are Latin-1 on disk (Project::from_config reads Latin-1)
        let bytes: Vec<u8> = text.chars().map(|c| if (c as u32) < 256 { c as u32 as u8 } else { b'?' }).collect();
        std::fs::write(&p, bytes).unwrap();
    }
    let mut msgs = NullMessages;
    let mut p = Project::from_config(build_config(case, dir, None), &mut msgs);
    p.enable_all_linters();
    p
}

/// the configuration of the case (after a reload directive): the standard libraries by `std_mode` + the case's toml
fn build_config(case: &Case, dir: &Path, directive: Option<&str>) -> Config {
    let mut msgs = NullMessages;
    let mut cfg = Config::default();
    match case.std_mode.as_str() {
        "full" => cfg.load_external_config(&mut msgs, Some("/repo/vhdl_libraries".to_string())),
        "std" => {
            let c = Config::from_str("[libraries]\nstd.files = ['/repo/vhdl_libraries/std/*.vhd']\nstd.is_third_party = true\n", Path::new("/")).unwrap();
            cfg.append(&c, &mut msgs);
        }
        _ => {}
    }
    let toml = gen::case_toml(case, directive);
    let c = Config::from_str(&toml, dir).unwrap();
    cfg.append(&c, &mut msgs);
    cfg
}

// ------------------------------------------------------------------------------------------------
// cursors
// ------------------------------------------------------------------------------------------------
fn boundaries(text: &str) -> Vec<(u32, u32)> {
    let mut out = vec![];
    for (s, e) in gen::rough_tokens(text) {
        out.push(gen::pos_of(text, s));
        out.push(gen::pos_of(text, e));
        if e - s >= 3 {
            out.push(gen::pos_of(text, gen::floor_boundary(text, s + (e - s) / 2)));
        }
        if !text.is_char_boundary(s + 1) {
            // inside a multi-byte character (for a supplementary-plane character: between its two UTF-16 units)
            let (l, c) = gen::pos_of(text, s);
            out.push((l, c + 1));
        }
    }
    out.sort();
    out.dedup();
    out
}

fn out_of_range_cursors(text: &str) -> Vec<(u32, u32)> {
    let nl = text.matches('\n').count() as u32 + 1;
    let last_len = text.rsplit('\n').next().map(|l| l.encode_utf16().count() as u32).unwrap_or(0);
    let first_len = text.split('\n').next().map(|l| l.encode_utf16().count() as u32).unwrap_or(0);
    vec![
        (0, first_len + 1),
        (0, u32::MAX),
        (nl - 1, last_len + 1),
        (nl - 1, last_len + 1000),
        (nl, 0),
        (nl + 5, 3),
        (u32::MAX, 0),
        (u32::MAX, u32::MAX),
        (u32::MAX - 1, u32::MAX - 1),
        (0, 0),
    ]
}

fn select_cursors(r: &mut Rng, text: &str, near_line: Option<u32>, max: usize, exhaustive: bool) -> Vec<(u32, u32)> {
    let all = boundaries(text);
    let mut out: Vec<(u32, u32)> = vec![];
    if exhaustive || all.len() <= max {
        out = all;
    } else {
        if let Some(nl) = near_line {
            let near: Vec<(u32, u32)> = all.iter().copied().filter(|(l, _)| l.saturating_add(2) >= nl && *l <= nl.saturating_add(2)).collect();
            let take = (max * 2 / 3).min(near.len());
            if near.len() <= take {
                out.extend(near);
            } else {
                for _ in 0..take {
                    out.push(near[r.below(near.len())]);
                }
            }
        }
        while out.len() < max {
            out.push(all[r.below(all.len())]);
        }
        out.sort();
        out.dedup();
    }
    out.extend(out_of_range_cursors(text));
    out
}

// ------------------------------------------------------------------------------------------------
// running the queries of one state
// ------------------------------------------------------------------------------------------------
struct StateCtx<'a> {
    /// e.g. ["std-bundled", "ieee-bundled"]: which language-defined units the state has edited (known findings)
    state: Vec<String>,
    case: &'a Case,
    step: usize,
    out: &'a Out,
    stats: &'a mut Stats,
    nviol: &'a mut usize,
}

fn case_upto(case: &Case, step: usize) -> Value {
    // step 0 = initial analysis, step k = after edit k
    let mut c = case.clone();
    c.edits.truncate(step);
    c.cursors.clear();
    c.to_json()
}

impl StateCtx<'_> {
    fn report(&mut self, class: &str, whr: &str, detail: String, cursor: Option<(&str, u32, u32)>) {
        *self.nviol += 1;
        // the file a location problem is about, relative to the project directory
        let loc_file = detail.split("current text of ").nth(1).and_then(|s| s.split(" (").next()).map(|s| {
            match s.find("/w/").or_else(|| s.rfind("/work/")) {
                _ => {
                    let mut best = s.to_string();
                    for (n, _) in &self.case.files {
                        if s.ends_with(&format!("/{}", n)) {
                            best = n.clone();
                        }
                    }
                    best
                }
            }
        });
        let sig = match class {
            "panic" => format!("panic|{}", detail),
            "location" => format!("location|{}|{}", whr, loc_file.clone().unwrap_or_default()),
            _ => format!("{}|{}", class, whr),
        };
        let mut cj = case_upto(self.case, self.step);
        if let Some((f, l, c)) = cursor {
            cj["cursors"] = json!([[f, l, c]]);
        }
        let last_kind = if self.step > 0 { self.case.edits[self.step - 1].kind.clone() } else { "initial".to_string() };
        self.out.violation(
            &sig,
            json!({"kind": "violation", "class": class, "where": whr, "detail": detail, "step": self.step, "last_edit_kind": last_kind,
                   "loc_file": loc_file, "state": self.state, "cursor": cursor.map(|(f, l, c)| json!([f, l, c])), "case": cj}),
        );
    }
}

fn state_tokens(project: &Project, case: &Case, dir: &Path) -> Vec<String> {
    let std = match case.std_mode.as_str() {
        "none" => "std-absent",
        "own" => {
            let mut pristine = true;
            for (lib, files) in &case.libs {
                if lib == "std" {
                    for f in files {
                        let base = f.rsplit('/').next().unwrap_or(f);
                        let orig = gen::read_latin1(&format!("/repo/vhdl_libraries/std/{base}"));
                        match project.get_source(&dir.join(f)) {
                            Some(src) => {
                                if source_text(&src) != orig {
                                    pristine = false;
                                }
                            }
                            None => pristine = false,
                        }
                    }
                }
            }
            if pristine {
                "std-own-pristine"
            } else {
                "std-edited"
            }
        }
        _ => "std-bundled",
    };
    let ieee = if case.libs.iter().any(|(l, _)| l == "ieee") { "ieee-own" } else { "ieee-bundled" };
    vec![std.to_string(), ieee.to_string()]
}

fn initial_tokens(case: &Case) -> Vec<String> {
    let std = match case.std_mode.as_str() {
        "none" => "std-absent",
        "own" => {
            let pristine = case.libs.iter().filter(|(l, _)| l == "std").all(|(_, fs)| {
                fs.iter().all(|f| {
                    let base = f.rsplit('/').next().unwrap_or(f);
                    let orig = gen::read_latin1(&format!("/repo/vhdl_libraries/std/{base}"));
                    case.files.iter().any(|(n, t)| n == f && *t == orig)
                })
            });
            if pristine {
                "std-own-pristine"
            } else {
                "std-edited"
            }
        }
        _ => "std-bundled",
    };
    let ieee = if case.libs.iter().any(|(l, _)| l == "ieee") { "ieee-own" } else { "ieee-bundled" };
    vec![std.to_string(), ieee.to_string()]
}

fn check_ent(texts: &Texts, ent: EntRef<'_>) -> Option<String> {
    let _ = ent.describe();
    if let Some(p) = ent.decl_pos() {
        if let Some(problem) = texts.check(p) {
            return Some(format!("declaration position of {}: {}", ent.describe(), problem));
        }
    }
    None
}

fn walk_hierarchy(texts: &Texts, h: &EntHierarchy<'_>, ctx: &Vec<Token>, problems: &mut Vec<String>, n: &mut usize) {
    // what vhdl_ls::document_symbol computes for every node
    let ent = h.ent;
    let _ = ent.describe();
    let selection_pos = ent.decl_pos().cloned().unwrap_or_else(|| ent.src_span.start_token.pos(ctx).clone());
    let src_pos = ent.src_span.pos(ctx);
    *n += 2;
    if let Some(p) = texts.check(&selection_pos) {
        problems.push(format!("document symbol selection range of {}: {}", ent.describe(), p));
    }
    if let Some(p) = texts.check(&src_pos) {
        problems.push(format!("document symbol range of {}: {}", ent.describe(), p));
    }
    for c in &h.children {
        walk_hierarchy(texts, c, ctx, problems, n);
    }
}

/// Queries that do not depend on a cursor: document symbols, workspace symbols, semantic tokens, unresolved, references of every declaration
fn file_queries(project: &Project, sc: &mut StateCtx, fname: &str, src: &Source) {
    let texts = Texts::new(project);
    let run = |name: &str, f: &mut dyn FnMut(&mut Vec<String>, &mut usize)| -> (Result<(), String>, Vec<String>, usize) {
        let mut problems = vec![];
        let mut n = 0usize;
        let t = Instant::now();
        let res = catch_unwind(AssertUnwindSafe(|| f(&mut problems, &mut n)));
        add_time(name, t);
        (res.map_err(|e| panic_text(&e)), problems, n)
    };
    let mut jobs: Vec<(&str, Box<dyn FnMut(&mut Vec<String>, &mut usize) + '_>)> = vec![];
    jobs.push(("document_symbols", Box::new(|problems, n| {
        for lib in project.library_mapping_of(src) {
            for (h, ctx) in project.document_symbols(&lib, src) {
                walk_hierarchy(&texts, &h, ctx, problems, n);
                let _ = h.into_flat();
            }
        }
    })));
    jobs.push(("semantic_tokens(find_all_entity_references)", Box::new(|problems, n| {
        for (pos, ent) in project.find_all_entity_references(src) {
            *n += 1;
            let _ = ent.kind();
            if let Some(p) = texts.check(&pos) {
                problems.push(format!("semantic token: {}", p));
            }
        }
    })));
    jobs.push(("workspace_symbols(public_symbols)", Box::new(|problems, n| {
        for ent in project.public_symbols() {
            *n += 1;
            let _ = ent.parent.map(|e| e.path_name());
            if let Some(p) = check_ent(&texts, ent) {
                problems.push(format!("workspace symbol: {}", p));
            }
        }
    })));
    jobs.push(("find_all_unresolved", Box::new(|problems, n| {
        let (_, v) = project.find_all_unresolved();
        for pos in v {
            *n += 1;
            if let Some(p) = texts.check(&pos) {
                problems.push(format!("unresolved: {}", p));
            }
        }
    })));
    for (name, mut f) in jobs {
        let (res, problems, n) = run(name, &mut *f);
        sc.stats.queries += 1;
        sc.stats.locations += n;
        if let Err(p) = res {
            sc.report("panic", name, p, Some((fname, 0, 0)));
        }
        for p in problems.into_iter().take(2) {
            sc.report("location", name, p, Some((fname, 0, 0)));
        }
    }
}

/// hover (format_declaration) of the declarations of a file: those nearest to `near` first, at most `limit`
fn format_decls(project: &Project, sc: &mut StateCtx, fname: &str, src: &Source, near: Option<u32>, limit: usize) {
    fn collect<'a>(h: &EntHierarchy<'a>, out: &mut Vec<EntRef<'a>>) {
        out.push(h.ent);
        for c in &h.children {
            collect(c, out);
        }
    }
    let t = Instant::now();
    let mut current = String::new();
    let res = catch_unwind(AssertUnwindSafe(|| {
        let mut ents: Vec<EntRef> = vec![];
        for lib in project.library_mapping_of(src) {
            for (h, _ctx) in project.document_symbols(&lib, src) {
                collect(&h, &mut ents);
            }
        }
        let line_of = |e: &EntRef| e.decl_pos().map(|p| p.range.start.line).unwrap_or(0);
        if let Some(n) = near {
            ents.sort_by_key(|e| (line_of(e) as i64 - n as i64).abs());
        }
        let mut k = 0usize;
        for e in ents.into_iter().take(limit) {
            current = format!("{} (line {})", e.describe(), line_of(&e) + 1);
            let _ = project.format_declaration(e);
            // completionItem/resolve takes the same route through the entity id
            if let Some(id) = project.entity_id_from_raw(e.id().to_raw()) {
                let _ = project.format_entity(id);
            }
            k += 1;
        }
        k
    }));
    add_time("format_declaration(hover of the file's declarations)", t);
    match res {
        Ok(k) => sc.stats.queries += k,
        Err(e) => {
            let line = current.rsplit("(line ").next().and_then(|x| x.trim_end_matches(')').parse::<u32>().ok()).unwrap_or(1);
            sc.report("panic", "format_declaration(hover)", format!("{} while formatting {}", panic_text(&e), current), Some((fname, line.saturating_sub(1), 0)));
        }
    }
}

fn cursor_queries(project: &Project, sc: &mut StateCtx, fname: &str, src: &Source, cursors: &[(u32, u32)], hb: &Heartbeat, seen_ents: &mut HashSet<usize>, near: Option<u32>, full: bool) {
    let texts = Texts::new(project);
    let nlines = src.contents().num_lines() as u32;
    let mut nrefs = 0usize;
    for (i, &(l, c)) in cursors.iter().enumerate() {
        // the expensive queries (completion: ~ms with ieee loaded; references: a search of the whole project) run at the
        // cursors next to the edit, at the out-of-range cursors and at every 4th of the others
        let close = near.map(|n| l.saturating_add(1) >= n && l <= n.saturating_add(1)).unwrap_or(false);
        let expensive = full || close || (l >= nlines && near.is_some()) || i % 4 == 0;
        if i % 16 == 0 {
            hb.beat();
        }
        let cur = Position::new(l, c);
        sc.stats.cursors += 1;
        // each query separately so that a panic is attributed to the query
        let mut decl: Option<EntRef> = None;
        macro_rules! q {
            ($name:expr, $body:expr) => {{
                sc.stats.queries += 1;
                *hb.current.lock().unwrap() = format!("{} at {}:{}:{}", $name, fname, l, c);
                let mut problems: Vec<String> = vec![];
                let t = Instant::now();
                let res = catch_unwind(AssertUnwindSafe(|| $body(&mut problems)));
                add_time($name, t);
                match res {
                    Err(e) => {
                        sc.report("panic", $name, panic_text(&e), Some((fname, l, c)));
                        None
                    }
                    Ok(v) => {
                        for p in problems.into_iter().take(1) {
                            sc.report("location", $name, p, Some((fname, l, c)));
                        }
                        Some(v)
                    }
                }
            }};
        }
        let ent_check = |e: Option<EntRef>, problems: &mut Vec<String>| {
            if let Some(e) = e {
                if let Some(p) = check_ent(&texts, e) {
                    problems.push(p);
                }
            }
        };
        q!("find_definition", |pr: &mut Vec<String>| ent_check(project.find_definition(src, cur), pr));
        if let Some(d) = q!("find_declaration", |pr: &mut Vec<String>| {
            let d = project.find_declaration(src, cur);
            ent_check(d, pr);
            d
        }) {
            decl = d;
        }
        q!("find_type_definition", |pr: &mut Vec<String>| ent_check(project.find_type_definition(src, cur), pr));
        q!("find_implementation", |pr: &mut Vec<String>| {
            for e in project.find_implementation(src, cur) {
                ent_check(Some(e), pr);
            }
        });
        q!("item_at_cursor(prepare_rename)", |pr: &mut Vec<String>| {
            if let Some((pos, ent)) = project.item_at_cursor(src, cur) {
                let _ = ent.designator();
                if let Some(p) = texts.check(&pos) {
                    pr.push(format!("item_at_cursor: {}", p));
                }
            }
        });
        let compl = if !expensive { None } else { q!("list_completion_options", |pr: &mut Vec<String>| {
            let items = project.list_completion_options(src, cur);
            let n = items.len();
            for (k, it) in items.into_iter().enumerate() {
                match it {
                    CompletionItem::Simple(e) | CompletionItem::Formal(e) => {
                        let _ = e.describe();
                        let _ = e.designator().to_string();
                        if k < 3 {
                            // completionItem/resolve
                            if let Some(id) = project.entity_id_from_raw(e.id().to_raw()) {
                                let _ = project.format_entity(id);
                            }
                        }
                        if let Some(p) = e.decl_pos() {
                            if let Some(p) = texts.check(p) {
                                pr.push(format!("completion item: {}", p));
                            }
                        }
                    }
                    CompletionItem::Instantiation(e, archs) => {
                        let _ = e.describe();
                        let _ = e.library_name();
                        match e.kind() {
                            vhdl_lang::AnyEntKind::Design(vhdl_lang::Design::Entity(_, region)) | vhdl_lang::AnyEntKind::Component(region) => {
                                let (ports, generics) = region.ports_and_generics();
                                for x in ports.iter().chain(generics.iter()) {
                                    let _ = x.designator.to_string();
                                }
                            }
                            _ => {}
                        }
                        for a in archs {
                            let _ = a.designator().to_string();
                        }
                    }
                    CompletionItem::Overloaded(d, _) => {
                        let _ = d.to_string();
                    }
                    CompletionItem::Keyword(k) => {
                        let _ = vhdl_lang::kind_str(k);
                    }
                    CompletionItem::Attribute(a) => {
                        let _ = a.to_string();
                    }
                    CompletionItem::Work => {}
                }
            }
            n
        }) };
        if let Some(n) = compl {
            sc.stats.completions += n;
        }
        if let Some(d) = decl {
            sc.stats.found_decl += 1;
            if (full || close || nrefs < 6) && seen_ents.insert(d.id().to_raw()) {
                nrefs += 1;
                q!("find_all_references(rename)", |pr: &mut Vec<String>| {
                    for pos in project.find_all_references(d) {
                        if let Some(p) = texts.check(&pos) {
                            pr.push(format!("reference: {}", p));
                        }
                    }
                });
                q!("find_all_references_in_source(highlight)", |pr: &mut Vec<String>| {
                    for pos in project.find_all_references_in_source(src, d) {
                        if let Some(p) = texts.check(&pos) {
                            pr.push(format!("highlight: {}", p));
                        }
                    }
                });
                q!("format_declaration(hover)", |_pr: &mut Vec<String>| {
                    let _ = project.format_declaration(d);
                });
            }
        }
        if *sc.nviol > 40 {
            return;
        }
    }
}

fn check_diags(project: &Project, sc: &mut StateCtx, diags: &[Diagnostic]) {
    let texts = Texts::new(project);
    let mut errors = false;
    for d in diags {
        sc.stats.diags += 1;
        sc.stats.locations += 1 + d.related.len();
        let code = format!("{:?}", d.code);
        if !code.contains("Unused") && !code.contains("Unnecessary") {
            errors = true;
        }
        if let Some(p) = texts.check(&d.pos) {
            sc.report("location", "diagnostic", format!("diagnostic {:?} '{}': {}", d.code, d.message.chars().take(80).collect::<String>(), p), None);
        }
        for (pos, msg) in &d.related {
            if let Some(p) = texts.check(pos) {
                sc.report("location", "diagnostic-related", format!("related information '{}' of {:?}: {}", msg.chars().take(60).collect::<String>(), d.code, p), None);
            }
        }
    }
    if errors {
        sc.stats.error_states += 1;
    }
}

// ------------------------------------------------------------------------------------------------
// arena observations (correspondence with coq/Kernel/Arena.v)
// ------------------------------------------------------------------------------------------------
/// Records, for every declaration event of the user files, (file, arena id of the entity, whether the root arena
/// resolves the id, whether the resolved entity's declaration position equals a declaration in the current text).
struct ArenaObs<'a> {
    project: &'a Project,
    /// per file: arena ids of declared entities
    decl_arenas: BTreeMap<String, Vec<u32>>,
    invalid: Vec<String>,
    nrefs: usize,
    ndecls: usize,
    dir: String,
}

impl Searcher for ArenaObs<'_> {
    fn search_pos_with_ref(&mut self, _ctx: &dyn TokenAccess, pos: &SrcPos, reference: &Reference) -> SearchState {
        if let Some(id) = reference.get() {
            self.nrefs += 1;
            if self.project.entity_id_from_raw(id.to_raw()).is_none() {
                self.invalid.push(format!("reference at {}:{}:{} holds entity id {:#x} unknown to the root arena", pos.source.file_name().display(), pos.range.start.line, pos.range.start.character, id.to_raw()));
            }
        }
        SearchState::NotFinished
    }
    fn search_decl(&mut self, _ctx: &dyn TokenAccess, decl: FoundDeclaration<'_>) -> SearchState {
        if let Some(id) = decl.ent_id() {
            self.ndecls += 1;
            match self.project.entity_id_from_raw(id.to_raw()) {
                None => self.invalid.push(format!("declaration holds entity id {:#x} unknown to the root arena", id.to_raw())),
                Some(_) => {}
            }
        }
        SearchState::NotFinished
    }
}

/// arena id of every design unit of the user files: (library, file, description, line, character, arena id),
/// in textual order within a file
fn unit_arenas(project: &Project, case: &Case, dir: &Path) -> Vec<Value> {
    let mut out = vec![];
    for (name, _) in &case.files {
        let path = dir.join(name);
        let Some(src) = project.get_source(&path) else { continue };
        for lib in project.library_mapping_of(&src) {
            for (h, _ctx) in project.document_symbols(&lib, &src) {
                let raw = h.ent.id().to_raw();
                let (l, c) = h.ent.decl_pos().map(|p| (p.range.start.line, p.range.start.character)).unwrap_or((0, 0));
                out.push(json!([lib.name_utf8(), name, h.ent.describe(), l, c, (raw >> 32) as u32]));
            }
        }
    }
    out
}

// ------------------------------------------------------------------------------------------------
// running one case
// ------------------------------------------------------------------------------------------------
struct Opts {
    /// run the expensive queries at every cursor (corpus / replay)
    full_queries: bool,
    max_cursors: usize,
    exhaustive_cursors: bool,
    arena_trace: bool,
}

fn run_case(case: &Case, dir: &Path, hb: &Heartbeat, out: &Out, opts: &Opts) -> (Stats, usize) {
    let mut stats = Stats::default();
    let mut nviol = 0usize;
    let mut r = Rng::new(case.id.bytes().fold(7u64, |a, b| a.wrapping_mul(131).wrapping_add(b as u64)));
    hb.set(json!({"case": case_upto(case, 0), "step": 0, "phase": "Project::from_config (parse)"}));
    let t = Instant::now();
    let made = catch_unwind(AssertUnwindSafe(|| make_project(case, dir)));
    add_time("Project::from_config", t);
    let mut project = match made {
        Ok(p) => p,
        Err(e) => {
            let mut sc = StateCtx { state: initial_tokens(case), case, step: 0, out, stats: &mut stats, nviol: &mut nviol };
            sc.report("panic", "Project::from_config", panic_text(&e), None);
            return (stats, nviol);
        }
    };
    let mut arena_trace: Vec<Value> = vec![];
    let mut seen_arenas: std::collections::BTreeSet<u32> = [0u32].into_iter().collect();
    let nsteps = case.edits.len();
    for step in 0..=nsteps {
        let mut edited: Option<(String, u32)> = None;
        if step > 0 {
            let e: &Edit = &case.edits[step - 1];
            hb.set(json!({"case": case_upto(case, step), "step": step, "phase": "Source::change + update_source (parse)"}));
            let path = dir.join(&e.file);
            let res = catch_unwind(AssertUnwindSafe(|| {
                if e.kind.starts_with("reload-config") {
                    // vhdl_ls.toml rewritten + reload notification: VHDLServer::reload_project -> Project::update_config
                    let cfg = build_config(case, dir, Some(&e.text));
                    let mut msgs = NullMessages;
                    project.update_config(cfg, &mut msgs);
                    return;
                }
                match project.get_source(&path) {
                    Some(src) => {
                        match e.range {
                            Some([l1, c1, l2, c2]) => src.change(Some(&Range::new(Position::new(l1, c1), Position::new(l2, c2))), &e.text),
                            None => src.change(None, &e.text),
                        }
                        project.update_source(&src);
                    }
                    None => {
                        // a file the project does not know yet (didOpen of a non-project file)
                        project.update_source(&Source::inline(&path, &e.text));
                    }
                }
            }));
            if let Err(e) = res {
                let mut sc = StateCtx { state: state_tokens(&project, case, dir), case, step, out, stats: &mut stats, nviol: &mut nviol };
                sc.report("panic", "update_source", panic_text(&e), None);
                return (stats, nviol);
            }
            if !e.kind.starts_with("reload-config") {
                edited = Some((e.file.clone(), e.range.map(|r| r[0]).unwrap_or(0)));
            }
        }
        hb.set(json!({"case": case_upto(case, step), "step": step, "phase": "Project::analyse"}));
        let tokens = state_tokens(&project, case, dir);
        let t = Instant::now();
        let res = catch_unwind(AssertUnwindSafe(|| project.analyse()));
        add_time("analyse", t);
        stats.states += 1;
        let diags = match res {
            Ok(d) => d,
            Err(e) => {
                let mut sc = StateCtx { state: tokens, case, step, out, stats: &mut stats, nviol: &mut nviol };
                sc.report("panic", "analyse", panic_text(&e), None);
                // the project may hold locks / half-analysed units now: stop this case
                return (stats, nviol);
            }
        };
        hb.set(json!({"case": case_upto(case, step), "step": step, "phase": "queries"}));
        let mut sc = StateCtx { state: tokens, case, step, out, stats: &mut stats, nviol: &mut nviol };
        check_diags(&project, &mut sc, &diags);
        // files to query: the edited one, plus one other; at step 0 and at the last step all of them
        let mut qfiles: Vec<String> = vec![];
        let lean = case.family == "kinds" || case.family == "lits" || case.family == "cycles" || case.family == "xunit";
        let batch = case.family.ends_with("-batch");
        if lean && step > 0 && step < nsteps {
            // per-site sweep of the kind-confusion family: thousands of states that differ in one line
            if let Some((f, _)) = &edited {
                qfiles.push(f.clone());
            }
        } else if batch && step > 0 && step < nsteps {
            if let Some((f, _)) = &edited {
                qfiles.push(f.clone());
            }
        } else if step == 0 || step == nsteps || case.edits[step - 1].kind.starts_with("reload-config") {
            qfiles = case.files.iter().map(|(n, _)| n.clone()).collect();
        } else {
            if let Some((f, _)) = &edited {
                qfiles.push(f.clone());
            }
            let other = &case.files[r.below(case.files.len())].0;
            if !qfiles.contains(other) {
                qfiles.push(other.clone());
            }
        }
        let mut seen_ents: HashSet<usize> = HashSet::new();
        for fname in &qfiles {
            let path = dir.join(fname);
            let Some(src) = project.get_source(&path) else { continue };
            let text = source_text(&src);
            let near = edited.as_ref().filter(|(f, _)| f == fname).map(|(_, l)| *l);
            let is_edited = near.is_some();
            let max = if batch && step < nsteps { opts.max_cursors.min(16) } else if is_edited || step == nsteps { opts.max_cursors } else { opts.max_cursors / 4 };
            let mut cursors = if lean && near.is_some() && step < nsteps {
                let nl = near.unwrap();
                let mut on_line: Vec<(u32, u32)> = boundaries(&text).into_iter().filter(|(l, _)| *l == nl).collect();
                if on_line.len() > 8 {
                    // the substituted name sits in the middle of the line: keep every other boundary
                    on_line = on_line.into_iter().enumerate().filter(|(i, _)| i % 2 == 0).map(|(_, c)| c).collect();
                }
                on_line.push((nl, u32::MAX));
                on_line
            } else {
                select_cursors(&mut r, &text, near, max.max(4), opts.exhaustive_cursors)
            };
            if step == nsteps {
                for (f, l, c) in &case.cursors {
                    if f == fname {
                        cursors.push((*l, *c));
                    }
                }
            }
            if !lean || step % 8 == 0 || step == nsteps {
                file_queries(&project, &mut sc, fname, &src);
            }
            let fmt_limit = if batch { usize::MAX } else if lean { 6 } else if is_edited || step == nsteps { 10 } else { 3 };
            format_decls(&project, &mut sc, fname, &src, near, fmt_limit);
            cursor_queries(&project, &mut sc, fname, &src, &cursors, hb, &mut seen_ents, if lean && step < nsteps { None } else { near }, opts.full_queries);
            hb.beat();
        }
        if opts.arena_trace && (!lean || step % 8 == 0 || step == nsteps) {
            *hb.current.lock().unwrap() = "arena observation (Project::search)".to_string();
            hb.beat();
            // ids at and around the arena sizes: whatever entity_id_from_raw accepts, get_ent (format_entity) must serve
            // (completionItem/resolve with a stale item). Every arena id ever seen in this case is probed.
            let probe = catch_unwind(AssertUnwindSafe(|| {
                let mut n = 0usize;
                for &a in seen_arenas.iter() {
                    let raw = |k: usize| ((a as usize) << 32) | k;
                    if project.entity_id_from_raw(raw(0)).is_none() {
                        continue;
                    }
                    // size by exponential + binary search on is_valid_id
                    let mut hi = 1usize;
                    while project.entity_id_from_raw(raw(hi)).is_some() && hi < (1 << 24) {
                        hi *= 2;
                    }
                    let mut lo = hi / 2;
                    while lo + 1 < hi {
                        let mid = (lo + hi) / 2;
                        if project.entity_id_from_raw(raw(mid)).is_some() { lo = mid } else { hi = mid }
                    }
                    for k in lo.saturating_sub(2)..=lo {
                        if let Some(id) = project.entity_id_from_raw(raw(k)) {
                            let _ = project.format_entity(id);
                            n += 1;
                        }
                    }
                }
                n
            }));
            match probe {
                Err(e) => sc.report("panic", "entity_id_from_raw + format_entity (completionItem/resolve of an id at the arena size)", panic_text(&e), None),
                Ok(n) => sc.stats.queries += n,
            }
            let res = catch_unwind(AssertUnwindSafe(|| {
                let mut obs = ArenaObs { project: &project, decl_arenas: BTreeMap::new(), invalid: vec![], nrefs: 0, ndecls: 0, dir: dir.display().to_string() };
                project.search(&mut obs);
                let units = unit_arenas(&project, case, dir);
                (obs.invalid, obs.nrefs, obs.ndecls, units)
            }));
            match res {
                Err(e) => sc.report("panic", "search(arena observation)", panic_text(&e), None),
                Ok((invalid, nrefs, ndecls, units)) => {
                    for p in invalid.into_iter().take(2) {
                        sc.report("arena", "entity id not resolvable", p, None);
                    }
                    for u in &units {
                        if let Some(a) = u.get(5).and_then(|x| x.as_u64()) {
                            seen_arenas.insert(a as u32);
                        }
                    }
                    arena_trace.push(json!({"step": step, "edited": edited.as_ref().map(|(f, _)| f.clone()), "nrefs": nrefs, "ndecls": ndecls,
                        "units": units}));
                }
            }
        }
        if *sc.nviol > 40 {
            break;
        }
    }
    if opts.arena_trace {
        out.write(&json!({"kind": "arena", "id": case.id, "trace": arena_trace}));
    }
    hb.done();
    (stats, nviol)
}

// ------------------------------------------------------------------------------------------------
// driver: worker threads + watchdog
// ------------------------------------------------------------------------------------------------
fn run_all(cases: Arc<Vec<Case>>, out_path: &str, workdir: &str, threads: usize, watchdog_s: u64, opts: Arc<Opts>, budget_s: u64) -> i32 {
    install_hook();
    let out = Arc::new(Out { file: Mutex::new(std::fs::File::create(out_path).unwrap()), sigs: Mutex::new(HashMap::new()) });
    *AT_SINK.lock().unwrap() = Some(out.clone());
    let next = Arc::new(AtomicUsize::new(0));
    let t0 = Instant::now();
    let hbs: Vec<Arc<Heartbeat>> = (0..threads).map(|_| Arc::new(Heartbeat::new(t0))).collect();
    let finished = Arc::new(AtomicUsize::new(0));
    let started = Arc::new(AtomicUsize::new(0));
    let totals = Arc::new(Mutex::new((Stats::default(), 0usize, BTreeMap::<String, usize>::new(), BTreeMap::<String, usize>::new())));
    let mut handles = vec![];
    for w in 0..threads {
        let (cases, out, next, hb, finished, totals, opts) = (cases.clone(), out.clone(), next.clone(), hbs[w].clone(), finished.clone(), totals.clone(), opts.clone());
        let started = started.clone();
        let dir = PathBuf::from(workdir).join(format!("w{w}"));
        handles.push(std::thread::Builder::new().stack_size(256 << 20).spawn(move || {
            loop {
                let i = next.fetch_add(1, Ordering::SeqCst);
                // time budget: no new case is started after `budget_s` seconds (the cases themselves stay deterministic)
                if i >= cases.len() || (budget_s > 0 && t0.elapsed().as_secs() > budget_s) {
                    break;
                }
                started.fetch_add(1, Ordering::SeqCst);
                let case = &cases[i];
                // a panic of the harness itself (outside the guarded implementation calls) must not look like a hang
                let (st, nv) = match catch_unwind(AssertUnwindSafe(|| run_case(case, &dir, &hb, &out, &opts))) {
                    Ok(x) => x,
                    Err(e) => {
                        out.write(&json!({"kind": "harness_panic", "id": case.id, "detail": panic_text(&e)}));
                        (Stats::default(), 0)
                    }
                };
                hb.done();
                let mut t = totals.lock().unwrap();
                t.0.states += st.states;
                t.0.queries += st.queries;
                t.0.cursors += st.cursors;
                t.0.diags += st.diags;
                t.0.locations += st.locations;
                t.0.error_states += st.error_states;
                t.0.found_decl += st.found_decl;
                t.0.completions += st.completions;
                t.1 += nv;
                *t.2.entry(case.family.clone()).or_insert(0) += st.states;
                for e in &case.edits {
                    *t.3.entry(e.kind.split('/').next().unwrap_or("").to_string()).or_insert(0) += 1;
                }
                out.write(&json!({"kind": "case", "id": case.id, "family": case.family, "states": st.states, "queries": st.queries,
                    "cursors": st.cursors, "diags": st.diags, "error_states": st.error_states, "violations": nv}));
            }
            finished.fetch_add(1, Ordering::SeqCst);
        }).unwrap());
    }
    // watchdog: (1) a worker without heartbeat for too long (parse phases: a third of the limit, they take milliseconds);
    // (2) runaway memory (an endless loop that allocates): blamed on the busy worker with the oldest heartbeat
    let mem_limit_kb: u64 = std::env::var("C03_MEM_GB").ok().and_then(|s| s.parse::<u64>().ok()).unwrap_or(10) * 1024 * 1024;
    let rss_kb = || -> u64 {
        std::fs::read_to_string("/proc/self/statm").ok().and_then(|s| s.split_whitespace().nth(1).and_then(|x| x.parse::<u64>().ok())).map(|pages| pages * 4).unwrap_or(0)
    };
    let mut hang = false;
    while finished.load(Ordering::SeqCst) < threads {
        std::thread::sleep(std::time::Duration::from_millis(200));
        let now = t0.elapsed().as_millis() as u64;
        let mut report = |hb: &Heartbeat, why: String| {
            let desc = hb.desc.lock().unwrap().clone().unwrap_or(Value::Null);
            out.write(&json!({"kind": "violation", "class": "hang", "where": desc.get("phase").cloned().unwrap_or(Value::Null),
                "detail": format!("{}; last query started: {}", why, hb.current.lock().unwrap()), "step": desc.get("step").cloned().unwrap_or(Value::Null),
                "state": Value::Null, "loc_file": Value::Null, "cursor": Value::Null, "case": desc.get("case").cloned().unwrap_or(Value::Null)}));
        };
        for hb in &hbs {
            if hb.idle.load(Ordering::Relaxed) != 0 {
                continue;
            }
            let parse_phase = hb.desc.lock().unwrap().as_ref().and_then(|d| d.get("phase").and_then(|p| p.as_str().map(|s| s.contains("parse")))).unwrap_or(false);
            let limit = if parse_phase { (watchdog_s / 3).max(10) } else { watchdog_s };
            if now.saturating_sub(hb.last_ms.load(Ordering::Relaxed)) > limit * 1000 {
                report(hb, format!("no progress for more than {} s (watchdog)", limit));
                hang = true;
            }
        }
        if !hang && rss_kb() > mem_limit_kb {
            let oldest = hbs.iter().filter(|hb| hb.idle.load(Ordering::Relaxed) == 0).min_by_key(|hb| hb.last_ms.load(Ordering::Relaxed));
            if let Some(hb) = oldest {
                report(hb, format!("resident memory of the harness exceeded {} GB: runaway allocation (endless loop)", mem_limit_kb / 1024 / 1024));
            }
            hang = true;
        }
        if hang {
            break;
        }
    }
    let t = totals.lock().unwrap();
    out.write(&json!({"kind": "summary", "cases": started.load(Ordering::SeqCst), "cases_generated": cases.len(), "states": t.0.states, "queries": t.0.queries, "cursors": t.0.cursors, "diagnostics": t.0.diags,
        "locations_checked": t.0.locations, "states_with_error_diagnostics": t.0.error_states, "cursors_resolving_to_a_declaration": t.0.found_decl,
        "completion_items": t.0.completions, "violations": t.1, "states_per_family": t.2, "edit_kinds": t.3, "hang": hang,
        "signatures": *out.sigs.lock().unwrap(),
        "time_us": TIMES.lock().unwrap().iter().map(|(k, v)| (k.clone(), json!([v.0, v.1]))).collect::<serde_json::Map<String, Value>>(), "wall_s": t0.elapsed().as_secs_f64()}));
    if hang {
        // worker threads stuck inside the implementation cannot be cancelled
        std::process::exit(3);
    }
    for h in handles {
        let _ = h.join();
    }
    0
}

// ------------------------------------------------------------------------------------------------
// delta debugging of one violating case
// ------------------------------------------------------------------------------------------------
fn signature_of(case: &Case, dir: &Path, want: &str, wd_s: u64) -> bool {
    // run in a thread so that a hang can be detected
    let tmp_out = dir.join("min.out");
    let out = Arc::new(Out { file: Mutex::new(std::fs::File::create(&tmp_out).unwrap()), sigs: Mutex::new(HashMap::new()) });
    let hb = Arc::new(Heartbeat::new(Instant::now()));
    let opts = Opts { full_queries: true, max_cursors: 400, exhaustive_cursors: case.files.iter().map(|(_, t)| t.len()).sum::<usize>() < 4000, arena_trace: false };
    let (c2, o2, h2, d2) = (case.clone(), out.clone(), hb.clone(), dir.join("w"));
    let done = Arc::new(AtomicUsize::new(0));
    let dn = done.clone();
    std::thread::Builder::new().stack_size(256 << 20).spawn(move || {
        let _ = run_case(&c2, &d2, &h2, &o2, &opts);
        dn.store(1, Ordering::SeqCst);
    }).unwrap();
    let t0 = Instant::now();
    while done.load(Ordering::SeqCst) == 0 {
        std::thread::sleep(std::time::Duration::from_millis(50));
        if t0.elapsed().as_secs() > wd_s {
            return want.starts_with("hang");
        }
    }
    let sigs = out.sigs.lock().unwrap();
    sigs.keys().any(|k| k.starts_with(want))
}

fn minimize(mut case: Case, want: &str, dir: &Path) -> Case {
    let wd = 20;
    if want.starts_with("hang") {
        // hangs leave a stuck thread behind; only a few attempts
        return case;
    }
    // 1. drop edits from the front/back
    let mut changed = true;
    while changed {
        changed = false;
        let mut i = 0;
        while i < case.edits.len() {
            let mut c = case.clone();
            c.edits.remove(i);
            if signature_of(&c, dir, want, wd) {
                case = c;
                changed = true;
            } else {
                i += 1;
            }
        }
    }
    // 2. try to fold the history into the initial files (state reachable directly)
    {
        let mut c = case.clone();
        let mut texts: HashMap<String, String> = c.files.iter().cloned().collect();
        let mut ok = true;
        for e in &c.edits {
            let t = texts.entry(e.file.clone()).or_default();
            match e.range {
                None => *t = gen::normalize(&e.text),
                Some([l1, c1, l2, c2]) => {
                    // apply on the plain string
                    let off = |l: u32, ch: u32| -> Option<usize> {
                        let mut line = 0u32;
                        let mut col = 0u32;
                        for (i, cc) in t.char_indices() {
                            if line == l && col >= ch {
                                return Some(i);
                            }
                            if cc == '\n' {
                                if line == l {
                                    return Some(i);
                                }
                                line += 1;
                                col = 0;
                            } else {
                                col += cc.len_utf16() as u32;
                            }
                        }
                        Some(t.len())
                    };
                    match (off(l1, c1), off(l2, c2)) {
                        (Some(a), Some(b)) if a <= b => {
                            let n = format!("{}{}{}", &t[..a], e.text, &t[b..]);
                            *t = gen::normalize(&n);
                        }
                        _ => ok = false,
                    }
                }
            }
        }
        if ok && texts.values().all(|t| t.chars().all(|ch| (ch as u32) < 256)) {
            for (n, t) in c.files.iter_mut() {
                if let Some(x) = texts.get(n) {
                    *t = x.clone();
                }
            }
            c.edits.clear();
            if signature_of(&c, dir, want, wd) {
                case = c;
            }
        }
    }
    // 3. drop whole files, then lines of files
    let mut fi = 0;
    while fi < case.files.len() {
        let mut c = case.clone();
        let name = c.files[fi].0.clone();
        if c.edits.iter().any(|e| e.file == name) {
            fi += 1;
            continue;
        }
        c.files.remove(fi);
        for (_, fs) in c.libs.iter_mut() {
            fs.retain(|f| *f != name);
        }
        if signature_of(&c, dir, want, wd) {
            case = c;
        } else {
            fi += 1;
        }
    }
    if case.edits.is_empty() {
        for fi in 0..case.files.len() {
            let mut chunk = case.files[fi].1.split_inclusive('\n').count().max(1) / 2;
            while chunk >= 1 {
                let mut start = 0;
                loop {
                    let lines: Vec<String> = case.files[fi].1.split_inclusive('\n').map(|s| s.to_string()).collect();
                    if start >= lines.len() {
                        break;
                    }
                    let end = (start + chunk).min(lines.len());
                    let mut c = case.clone();
                    c.files[fi].1 = lines[..start].concat() + &lines[end..].concat();
                    c.cursors.clear();
                    if signature_of(&c, dir, want, wd) {
                        case = c;
                    } else {
                        start = end;
                    }
                }
                chunk /= 2;
            }
        }
    }
    case
}

fn main() {
    let args: Vec<String> = std::env::args().collect();
    let mode = args.get(1).map(|s| s.as_str()).unwrap_or("");
    match mode {
        "gen" => {
            let seed: u64 = args[2].parse().unwrap();
            let ncases: usize = args[3].parse().unwrap();
            let nsteps: usize = args[4].parse().unwrap();
            let out = &args[5];
            let workdir = &args[6];
            let threads: usize = args[7].parse().unwrap();
            let wd: u64 = args[8].parse().unwrap();
            // the systematic kind-confusion sweep first (never cut by the time budget), then the random histories
            let stride: usize = args.get(12).and_then(|s| s.parse().ok()).unwrap_or(2);
            let mut cases: Vec<Case> = if stride == 0 { vec![] } else { gen::zoo_cases(seed, stride) };
            if stride != 0 {
                // literal family: all literals in the region batches; per site every 2nd (thorough) / 48th (quick) literal
                cases.extend(gen::lit_cases(seed, if stride == 1 { 2 } else { 48 }));
            }
            // duplicate-file scenarios: one for every 8 random histories
            cases.extend((0..(ncases + 7) / 8).map(|i| gen::dup_case(seed, i, nsteps / 2)));
            let nkinds = cases.len();
            cases.extend((0..ncases).map(|i| gen::gen_case(seed, i, nsteps)));
            if let (Some(p), Some(n)) = (args.get(9), args.get(10)) {
                let n: usize = n.parse().unwrap();
                let v: Vec<Value> = cases.iter().take(nkinds + n).map(|c| c.to_json()).collect();
                std::fs::write(p, serde_json::to_string(&v).unwrap()).unwrap();
            }
            let budget: u64 = args.get(11).and_then(|s| s.parse().ok()).unwrap_or(0);
            let opts = Opts { full_queries: false, max_cursors: 48, exhaustive_cursors: false, arena_trace: true };
            std::process::exit(run_all(Arc::new(cases), out, workdir, threads, wd, Arc::new(opts), budget));
        }
        "cases" => {
            let v: Value = serde_json::from_str(&std::fs::read_to_string(&args[2]).unwrap()).unwrap();
            let list = match &v {
                Value::Array(a) => a.clone(),
                Value::Object(o) if o.contains_key("case") => vec![o["case"].clone()],
                other => vec![other.clone()],
            };
            let cases: Vec<Case> = list.iter().filter_map(Case::from_json).collect();
            let threads: usize = args[5].parse().unwrap();
            let wd: u64 = args[6].parse().unwrap();
            let opts = Opts { full_queries: true, max_cursors: 400, exhaustive_cursors: false, arena_trace: true };
            std::process::exit(run_all(Arc::new(cases), &args[3], &args[4], threads, wd, Arc::new(opts), 0));
        }
        "min" => {
            install_hook();
            let v: Value = serde_json::from_str(&std::fs::read_to_string(&args[2]).unwrap()).unwrap();
            let case = Case::from_json(v.get("case").unwrap_or(&v)).unwrap();
            let want = args[5].clone();
            let dir = PathBuf::from(&args[4]);
            std::fs::create_dir_all(&dir).unwrap();
            let m = minimize(case, &want, &dir);
            std::fs::write(&args[3], serde_json::to_string_pretty(&m.to_json()).unwrap()).unwrap();
        }
        "diag" => {
            // c03 diag <cases.json> <workdir>: diagnostics of the initial state of every case (generator self-test)
            install_hook();
            let v: Value = serde_json::from_str(&std::fs::read_to_string(&args[2]).unwrap()).unwrap();
            for c in v.as_array().unwrap().iter().filter_map(Case::from_json) {
                let mut p = make_project(&c, Path::new(&args[3]));
                for d in p.analyse() {
                    println!("{} {} {}:{} {:?} {}", c.id, d.pos.source.file_name().display(), d.pos.range.start.line + 1, d.pos.range.start.character, d.code, d.message);
                }
            }
        }
        "famcases" => {
            // c03 famcases cycles <seed> <out.json>: the cases of a family that runs in its own process
            let seed: u64 = args[3].parse().unwrap();
            let cases = match args[2].as_str() {
                "cycles" => gen::cycle_cases(seed),
                "xunit" => gen::xunit_cases(seed, false),
                "xunit-all" => gen::xunit_cases(seed, true),
                _ => vec![],
            };
            let v: Vec<Value> = cases.iter().map(|c| c.to_json()).collect();
            std::fs::write(&args[4], serde_json::to_string(&v).unwrap()).unwrap();
        }
        "dump" => {
            // c03 dump <seed> <ncases> <nsteps> <kinds> <id>: the generated case with that id (as `gen` would build it)
            let seed: u64 = args[2].parse().unwrap();
            let ncases: usize = args[3].parse().unwrap();
            let nsteps: usize = args[4].parse().unwrap();
            let stride: usize = args[5].parse().unwrap();
            let mut cases: Vec<Case> = if stride == 0 { vec![] } else { gen::zoo_cases(seed, stride) };
            if stride != 0 {
                cases.extend(gen::lit_cases(seed, if stride == 1 { 2 } else { 48 }));
            }
            cases.extend((0..(ncases + 7) / 8).map(|i| gen::dup_case(seed, i, nsteps / 2)));
            cases.extend((0..ncases).map(|i| gen::gen_case(seed, i, nsteps)));
            match cases.iter().find(|c| c.id == args[6]) {
                Some(c) => println!("{}", c.to_json()),
                None => std::process::exit(4),
            }
        }
        "show" => {
            let c = gen::gen_case(args[2].parse().unwrap(), args[3].parse().unwrap(), args[4].parse().unwrap());
            println!("{}", serde_json::to_string_pretty(&c.to_json()).unwrap());
        }
        "base" => {
            // print the diagnostics of the full-featured generated projects (generator self-test)
            install_hook();
            let dir = PathBuf::from(&args[2]);
            for ieee in [true, false] {
                let mut r = Rng::new(1);
                let (libs, files) = gen::gen_project(&mut r, ieee, true);
                let case = Case { id: "base".into(), family: "base".into(), std_mode: if ieee { "full" } else { "std" }.into(), libs, files, edits: vec![], cursors: vec![] };
                let mut p = make_project(&case, &dir);
                for d in p.analyse() {
                    println!("{} {}:{} {:?} {}", d.pos.source.file_name().display(), d.pos.range.start.line + 1, d.pos.range.start.character, d.code, d.message);
                }
                println!("-- ieee={ieee} done");
            }
            let mut case = gen::zoo_case("zoo".into(), 0, false, 0);
            case.edits.clear();
            let mut p = make_project(&case, &dir);
            for d in p.analyse() {
                let line = case.files[1].1.lines().nth(d.pos.range.start.line as usize).unwrap_or("");
                println!("{} {}:{} {:?} {} | {}", d.pos.source.file_name().display(), d.pos.range.start.line + 1, d.pos.range.start.character, d.code, d.message, if d.pos.source.file_name().ends_with("uses.vhd") { line } else { "" });
            }
            println!("-- zoo done");
            let mut case = gen::lit_case("lits".into(), 0, 1, 0);
            case.edits.clear();
            let mut p = make_project(&case, &dir);
            for d in p.analyse() {
                let line = case.files[0].1.lines().nth(d.pos.range.start.line as usize).unwrap_or("");
                println!("{} {}:{} {:?} {} | {}", d.pos.source.file_name().display(), d.pos.range.start.line + 1, d.pos.range.start.character, d.code, d.message, line);
            }
            println!("-- lits done: {} literals x {} sites", gen::literals().len(), gen::LIT_SITES.len());
        }
        _ => {
            eprintln!("usage: c03 gen|cases|min|show|base ...");
            std::process::exit(2);
        }
    }
}
