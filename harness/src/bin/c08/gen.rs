//! Generator of small multi-unit VHDL projects with many kinds of references, and text-level mutations
//! (token deletion, truncation, wrong identifiers ...) that turn them into erroneous projects.
use std::collections::HashMap;
use verif_harness::rng::Rng;

#[derive(Clone, Debug)]
pub struct PFile {
    pub lib: String,
    pub name: String,
    pub text: String,
}

#[derive(Clone, Debug)]
pub struct Proj {
    pub name: String,
    pub kind: String,
    /// needs the ieee library (else only library std is loaded: every find_all_references walks all libraries)
    pub ieee: bool,
    pub files: Vec<PFile>,
    /// edit history: every step replaces the text of some files (update_source + analyse)
    pub history: Vec<Vec<(String, String)>>,
}

impl Proj {
    pub fn to_json(&self) -> serde_json::Value {
        serde_json::json!({
            "name": self.name, "kind": self.kind, "ieee": self.ieee,
            "history": self.history.iter().map(|s| s.iter().map(|(n, t)| serde_json::json!({"name": n, "text": t})).collect::<Vec<_>>()).collect::<Vec<_>>(),
            "files": self.files.iter().map(|f| serde_json::json!({"lib": f.lib, "name": f.name, "text": f.text})).collect::<Vec<_>>()
        })
    }
    pub fn from_json(v: &serde_json::Value) -> Option<Proj> {
        let files = v.get("files")?.as_array()?;
        let mut fs = vec![];
        for f in files {
            fs.push(PFile { lib: f.get("lib")?.as_str()?.to_string(), name: f.get("name")?.as_str()?.to_string(), text: f.get("text")?.as_str()?.to_string() });
        }
        Some(Proj { name: v.get("name").and_then(|x| x.as_str()).unwrap_or("replay").to_string(), kind: v.get("kind").and_then(|x| x.as_str()).unwrap_or("replay").to_string(), ieee: v.get("ieee").and_then(|x| x.as_bool()).unwrap_or(true), files: fs,
            history: v.get("history").and_then(|h| h.as_array()).map(|steps| steps.iter().map(|s| s.as_array().map(|es| es.iter().filter_map(|e| Some((e.get("name")?.as_str()?.to_string(), e.get("text")?.as_str()?.to_string()))).collect()).unwrap_or_default()).collect()).unwrap_or_default() })
    }
}

const FLAGS: &[&str] = &["rec", "enum", "phys", "inc", "prot", "attr", "subp", "op", "proc", "alias", "comp", "gpk", "lib2", "cfg", "ctx", "gen", "blk", "inst", "misc", "ieee", "more", "uattr", "entdecl", "nest"];

/// `{key}`: identifier of the project's name table in a random letter case.  `@flag: line`: only when the
/// feature is enabled (`@a&b:` needs both).
const T_PKG: &str = r#"@lib2:library {lib2};
@lib2:use {lib2}.{pk2}.all;

package {pk} is
  constant {c_width} : natural := 8;
@subp:  constant {c_def} : integer;
@enum:  type {state_t} is ({idle}, {run}, {done}, 'x');
@rec:  type {rec_t} is record
@rec:    {fa} : bit;
@rec:    {fb} : integer range 0 to 255;
@rec:  end record {rec_t};
@rec:  type {arr_t} is array (natural range <>) of {rec_t};
  subtype {byte_t} is bit_vector(7 downto 0);
@phys:  type {dist_t} is range 0 to 100000 units
@phys:    {um};
@phys:    {mm} = 1000 {um};
@phys:  end units {dist_t};
@inc:  type {node_t};
@inc:  type {node_ptr} is access {node_t};
@inc:  type {node_t} is record
@inc:    {nxt} : {node_ptr};
@inc:    {val} : integer;
@inc:  end record {node_t};
@prot:  type {cnt_t} is protected
@prot:    procedure {inc}({n} : natural);
@prot:    impure function {get} return natural;
@prot:  end protected {cnt_t};
@attr:  attribute {mark} : boolean;
@attr:  attribute {mark3} : boolean;
@attr:  attribute {mark} of {c_width} : constant is true;
@subp:  function {f_add}({a}, {b} : integer) return integer;
@op&rec:  function "+"({l}, {r} : {rec_t}) return {rec_t};
@proc:  procedure {p_set}(signal {s} : out bit; {v} : in bit);
@alias&enum:  alias {al_state} is {state_t};
@alias&subp:  alias {al_add} is {f_add}[integer, integer return integer];
@comp:  component {comp_c} is
@comp:    generic ({g_n} : natural := 1);
@comp:    port ({ci} : in bit; {co} : out bit);
@comp:  end component {comp_c};
@lib2:  constant {c_sum} : integer := {c2} + 1;
end package {pk};

package body {pk} is
@subp:  constant {c_def} : integer := 5 + {c_width};
@prot:  type {cnt_t} is protected body
@prot:    variable {pv} : natural := 0;
@prot:    procedure {inc}({n} : natural) is
@prot:    begin
@prot:      {pv} := {pv} + {n};
@prot:    end procedure {inc};
@prot:    impure function {get} return natural is
@prot:    begin
@prot:      return {pv};
@prot:    end function {get};
@prot:  end protected body {cnt_t};
@subp:  function {f_add}({a}, {b} : integer) return integer is
@subp:    variable {tmp} : integer;
@subp&phys:    constant {d} : {dist_t} := 3 {mm};
@subp:  begin
@subp:    {tmp} := {a} + {b} + {c_def};
@subp:    {lp}: for {i} in 0 to 3 loop
@subp:      {tmp} := {tmp} + {i};
@subp:      exit {lp} when {tmp} > 10;
@subp:      next {lp} when {tmp} < 0;
@subp:    end loop {lp};
@subp:    {wl}: while {tmp} > 100 loop
@subp:      {tmp} := {tmp} - 1;
@subp:    end loop {wl};
@subp:    return {tmp};
@subp:  end function {f_add};
@op&rec:  function "+"({l}, {r} : {rec_t}) return {rec_t} is
@op&rec:    variable {res} : {rec_t};
@op&rec:  begin
@op&rec:    {res}.{fa} := {l}.{fa} xor {r}.{fa};
@op&rec:    {res}.{fb} := ({l}.{fb} + {r}.{fb}) mod 256;
@op&rec:    return {res};
@op&rec:  end function "+";
@proc:  procedure {p_set}(signal {s} : out bit; {v} : in bit) is
@proc:  begin
@proc:    {s} <= {v};
@proc:  end procedure {p_set};
end package body {pk};
"#;

const T_GPK: &str = r#"package {gp} is
  generic ({g_w} : natural := 4; type {elem_t});
  constant {depth} : natural := {g_w} * 2;
  function {wrap}({x} : {elem_t}) return {elem_t};
end package {gp};

package body {gp} is
  function {wrap}({x} : {elem_t}) return {elem_t} is
  begin
    return {x};
  end function {wrap};
end package body {gp};

package {gpi} is new work.{gp} generic map ({g_w} => 8, {elem_t} => bit);
"#;

const T_ENT: &str = r#"entity {sub} is
  generic ({g_n} : natural := 1);
  port ({ci} : in bit; {co} : out bit);
end entity {sub};

architecture {rtl} of {sub} is
begin
  {co} <= not {ci};
end architecture {rtl};

@lib2:library {lib2};
@lib2:use {lib2}.{pk2}.all;
@ieee:library ieee;
@ieee:use ieee.std_logic_1164.all;
@ieee:use ieee.numeric_std.all;
use work.{pk}.all;
@gpk:use work.{gpi};
entity {top} is
  port ({clk} : in bit; {din} : in bit; {dout} : out bit);
end entity {top};

architecture {str} of {top} is
  signal {s1}, {s2}, {s3} : bit;
@enum:  signal {st} : {state_t} := {idle};
@rec:  signal {rs} : {rec_t};
@prot:  shared variable {cnt} : {cnt_t};
@subp:  constant {k} : integer := {f_add}(1, {c_width});
@alias&subp:  constant {k3} : integer := {al_add}(2, 3);
@lib2:  constant {k4} : integer := {c2} + {lib2}.{pk2}.{c2};
@gpk:  package {lgpi} is new work.{gp} generic map ({g_w} => 2, {elem_t} => integer);
@gpk:  constant {k2} : integer := {lgpi}.{wrap}(3) + {lgpi}.{depth} + work.{gpi}.{depth};
@inst:  component {sub} is
@inst:    generic ({g_n} : natural := 1);
@inst:    port ({ci} : in bit; {co} : out bit);
@inst:  end component {sub};
@alias:  alias {s1_al} is {s1};
@alias:  alias {s3_al} : bit is {s3};
@alias&attr:  attribute {mark} of {s1_al} : signal is true;
@alias:  subtype {lbyte_t} is bit_vector(7 downto 0);
@alias:  alias {byte_al} is {lbyte_t};
@alias&attr:  attribute {mark} of {byte_al} : subtype is true;
@alias:  type {lstate_t} is ({lidle}, {lrun});
@alias:  alias {st_al} is {lstate_t};
@alias&attr:  attribute {mark} of {st_al} : type is true;
@alias:  signal {lst} : {st_al} := {lidle};
@alias:  signal {lvec} : {byte_al};
@alias:  function {lfn}({x} : bit) return bit is
@alias:  begin
@alias:    return not {x};
@alias:  end function {lfn};
@alias:  alias {lfn_al} is {lfn}[bit return bit];
@alias&attr:  attribute {mark} of {lfn_al}[bit return bit] : function is true;
@alias&attr:  attribute {mark3} of {lfn_al} : function is false;
  signal {vec} : {byte_t};
@ieee:  signal {sl} : std_logic := 'U';
@ieee:  signal {slv} : std_logic_vector(3 downto 0);
@ieee:  signal {un} : unsigned(3 downto 0);
@misc:  type {mem_t} is array (0 to 3) of {byte_t};
@misc:  signal {mem} : {mem_t};
@misc:  function {loc}({x} : bit) return bit is
@misc:  begin
@misc:    return not {x};
@misc:  end function {loc};
begin
@inst:  {u0} : entity work.{sub}({rtl}) generic map ({g_n} => 2) port map ({ci} => {din}, {co} => {s1});
@comp:  {u1} : component {comp_c} port map ({ci} => {s1}, {co} => {s2});
@inst:  {u2} : {sub} port map ({ci} => {s2}, {co} => {s3});
@blk:  {blk} : block is
@blk:    signal {bs} : bit;
@blk:  begin
@blk:    {bs} <= {s1};
@blk:  end block {blk};
@gen:  {gen} : for {gi} in 0 to 1 generate
@gen:    signal {gs} : bit;
@gen:  begin
@gen:    {gs} <= {vec}({gi});
@gen:  end generate {gen};
@gen:  {ifg} : if {ga} : {c_width} > 4 generate
@gen:    {vec}(7) <= {s3};
@gen:  else {gb} : generate
@gen:    {vec}(6) <= {s3};
@gen:  end generate {ifg};
@misc:  {mem}(0)(1) <= {loc}({s1}) when {s2} = '1' else {s3};
@misc:  with {s1} select {mem}(1) <= "00000000" when '0', {vec} when others;
@alias:  {proc2} : process ({clk}, {s1_al}) is
@alias:    variable {pvar} : bit;
@alias:    alias {pvar_al} is {pvar};
@alias:  begin
@alias:    {pvar_al} := {s1_al};
@alias:    {lvec}(0) <= {pvar_al};
@alias:  end process {proc2};
  {proc} : process ({clk}) is
@rec:    variable {v} : {rec_t};
  begin
    if {clk}'event and {clk} = '1' then
@enum:      case {st} is
@enum:        when {idle} => {st} <= {run};
@enum:        when {run} => {st} <= {done};
@enum:        when others => {st} <= {idle};
@enum:      end case;
@rec:      {v}.{fa} := {s1};
@op&rec:      {rs} <= {v} + {rs};
@prot:      {cnt}.{inc}(1);
@proc:      {p_set}({dout}, {s2});
      {vec}(3 downto 0) <= {vec}(7 downto 4);
@attr:      assert {c_width}'{mark} report "x" severity note;
      assert {vec}'length = 8;
@ieee:      {un} <= {un} + 1;
@ieee:      {slv} <= std_logic_vector({un}) when rising_edge({sl}) else (others => '0');
@ieee:      {sl} <= to_x01({slv}(0)) or ieee.std_logic_1164."not"({sl});
@alias:      {s2} <= {s1_al};
@alias:      {s3_al} <= {lfn_al}({s1_al}) xor {lfn}({s3_al});
@alias:      {lst} <= {st_al}'succ({lst});
@alias:      assert {byte_al}'length = {lvec}'length;
@alias&attr:      assert {s1_al}'{mark};
@alias&proc:      {p_set}({s3_al}, {s1_al});
    end if;
  end process {proc};
end architecture {str};

@cfg:configuration {cfg} of {top} is
@cfg:  for {str}
@cfg:  end for;
@cfg:end configuration {cfg};

@ctx&lib2:context {ctx} is
@ctx&lib2:  library {lib2};
@ctx&lib2:  use {lib2}.{pk2}.all;
@ctx&lib2:end context {ctx};
"#;

const T_TB: &str = r#"@ctx&lib2:context work.{ctx};
use work.{pk}.all;
entity {tb} is
end entity {tb};

architecture {sim} of {tb} is
  signal {a}, {b}, {c} : bit;
begin
@cfg:  {dut} : configuration work.{cfg} port map ({clk} => {a}, {din} => {b}, {dout} => {c});
  {dut2} : entity work.{top} port map ({clk} => {a}, {din} => {b}, {dout} => open);
@ctx&lib2:  assert {c2} = 7;
end architecture {sim};
"#;


const T_MORE: &str = r#"use std.textio.all;
package {pkx} is
  function {gf} generic (type {t}) parameter ({x} : {t}) return {t};
  function {gfi} is new {gf} generic map ({t} => integer);
  file {fh} : text;
  procedure {rd}(file {f} : text; variable {v} : out integer);
  type {sel_t} is ({a0}, {a1});
end package {pkx};

package body {pkx} is
  function {gf} generic (type {t}) parameter ({x} : {t}) return {t} is
  begin
    return {x};
  end function {gf};
  procedure {rd}(file {f} : text; variable {v} : out integer) is
    variable {ln} : line;
  begin
    readline({f}, {ln});
    read({ln}, {v});
  end procedure {rd};
end package body {pkx};

package {gpx} is
  generic ({g_w} : natural := 4);
  constant {depth} : natural := {g_w} * 2;
end package {gpx};

package {gp2} is
  generic (package {ip} is new work.{gpx} generic map (<>));
  constant {c9} : natural := {ip}.{depth};
end package {gp2};

package {gpxi} is new work.{gpx} generic map ({g_w} => 3);
package {gp2i} is new work.{gp2} generic map ({ip} => work.{gpxi});

use work.{pkx}.all;
entity {ex} is
  port ({sel} : in {sel_t}; {o} : out bit);
end entity {ex};

architecture {ax} of {ex} is
  constant {kx} : integer := {gfi}(3) + work.{gp2i}.{c9};
  signal {vx} : bit_vector(3 downto 0);
begin
  {cg} : case {sel} generate
    when {b0} : {a0} =>
      {o} <= '0';
    when {b1} : {a1} =>
      {o} <= {vx}(1);
  end generate {cg};
  {px} : process
    variable {nx} : integer;
  begin
    {rd}({fh}, {nx});
    {l1} : for {ix} in {vx}'range loop
      {l2} : if {vx}({ix}) = '1' then
        {nx} := {nx} + 1;
      end if {l2};
    end loop {l1};
    {cs} : case {sel} is
      when {a0} => null;
      when others => null;
    end case {cs};
@uattr:    assert {vx}'{nosuch}({nx}) = 1;
@uattr:    assert {nosuch2}'length({nx}) = {vx}'{nosuch}({ix});
    wait;
  end process {px};
end architecture {ax};
"#;

const T_ED_ENT: &str = r#"entity {ed} is
  generic ({ed_g} : natural := 2);
  port ({ed_a} : in integer; {ed_q} : out integer; {ed_r} : out integer);
  constant {ed_gain} : integer := 3;
  type {ed_t} is ({ed_lo}, {ed_hi});
  attribute {ed_at} : integer;
  attribute {ed_at} of {ed_gain} : constant is 1;
  function {scale}({value} : integer; {factor} : integer) return integer is
    variable {ed_tmp} : integer;
  begin
    {ed_tmp} := {value} * {factor};
    return {ed_tmp};
  end function {scale};
  procedure {clampp}(signal {target} : out integer; {plimit} : in integer) is
  begin
    {target} <= {plimit};
  end procedure {clampp};
end entity {ed};
"#;

const T_ED_ARCH: &str = r#"architecture {ed_rtl} of {ed} is
  signal {ed_s} : {ed_t} := {ed_lo};
begin
  {ed_q} <= {scale}({value} => {ed_a}, {factor} => {ed_gain}) + {ed_gain}'{ed_at} + {ed_g};
  {clampp}({target} => {ed_r}, {plimit} => {scale}({ed_a}, 2));
  {ed_s} <= {ed_hi} when {ed_a} > 0 else {ed_lo};
end architecture {ed_rtl};
"#;

const T_ED_TB: &str = r#"entity {ed_tb} is
end entity {ed_tb};
architecture {tsim} of {ed_tb} is
  signal {tx}, {ty}, {tz} : integer;
  component {ed} is
    generic ({ed_g} : natural := 2);
    port ({ed_a} : in integer; {ed_q} : out integer; {ed_r} : out integer);
  end component {ed};
begin
  {d1} : entity work.{ed}({ed_rtl}) generic map ({ed_g} => 1) port map ({ed_a} => {tx}, {ed_q} => {ty}, {ed_r} => {tz});
  {d2} : component {ed} generic map ({ed_g} => 3) port map ({ed_a} => {tx}, {ed_q} => open, {ed_r} => open);
end architecture {tsim};
"#;

const T_NEST_PKG: &str = r#"package {counter_pkg} is
  generic ({cmax} : natural := 7);
  constant {nlimit} : natural := {cmax};
  function {cwrap}({cvalue} : natural) return natural;
end package {counter_pkg};
package body {counter_pkg} is
  function {cwrap}({cvalue} : natural) return natural is
  begin
    return {cvalue} mod ({nlimit} + 1);
  end function {cwrap};
end package body {counter_pkg};

package {channel_pkg} is
  generic ({cwidth} : natural := 8);
  package {ncnt} is new work.{counter_pkg} generic map ({cmax} => {cwidth});
  constant {ctop} : natural := {ncnt}.{nlimit};
end package {channel_pkg};

package {channel8} is new work.{channel_pkg} generic map ({cwidth} => 8);

package {bank_pkg} is
  generic ({nb} : natural := 2);
  package {nch} is new work.{channel_pkg} generic map ({cwidth} => {nb});
end package {bank_pkg};

package {bank2} is new work.{bank_pkg} generic map ({nb} => 2);

package {user_pkg} is
  function {peak} return natural;
end package {user_pkg};
package body {user_pkg} is
  package {bch} is new work.{channel_pkg} generic map ({cwidth} => 5);
  function {peak} return natural is
    package {sch} is new work.{counter_pkg} generic map ({cmax} => 3);
  begin
    return {sch}.{nlimit} + {bch}.{ncnt}.{nlimit} + {sch}.{cwrap}({cvalue} => 9);
  end function {peak};
end package body {user_pkg};
"#;

const T_NEST_USE: &str = r#"entity {nest_e} is
  package {ech} is new work.{channel_pkg} generic map ({cwidth} => 6);
end entity {nest_e};
architecture {na} of {nest_e} is
  package {lch} is new work.{channel_pkg} generic map ({cwidth} => 4);
  constant {k1} : natural := work.{channel8}.{ncnt}.{nlimit} + work.{channel8}.{ctop};
  constant {k2} : natural := work.{channel8}.{ncnt}.{cwrap}({cvalue} => 3);
  constant {k3} : natural := work.{bank2}.{nch}.{ncnt}.{nlimit} + work.{bank2}.{nch}.{ncnt}.{cwrap}({cvalue} => 1) + work.{bank2}.{nch}.{ctop};
  constant {k4} : natural := {lch}.{ncnt}.{nlimit} + {lch}.{ncnt}.{cwrap}({cvalue} => 2) + {ech}.{ncnt}.{nlimit};
  constant {k5} : natural := work.{user_pkg}.{peak};
begin
end architecture {na};
"#;

const T_LIB2: &str = r#"package {pk2} is
  constant {c2} : integer := 7;
end package {pk2};
"#;

const KEYS: &[&str] = &[
    "lib2", "pk2", "pk", "c_width", "c_def", "state_t", "idle", "run", "done", "rec_t", "fa", "fb", "arr_t", "byte_t", "dist_t", "um", "mm",
    "node_t", "node_ptr", "nxt", "val", "cnt_t", "inc", "n", "get", "mark", "f_add", "a", "b", "l", "r", "p_set", "s", "v", "al_state",
    "al_add", "comp_c", "g_n", "ci", "co", "c_sum", "c2", "pv", "tmp", "d", "lp", "i", "wl", "res", "gp", "g_w", "elem_t", "depth", "wrap",
    "x", "gpi", "sub", "rtl", "top", "clk", "din", "dout", "str", "s1", "s2", "s3", "st", "rs", "cnt", "k", "k3", "k4", "lgpi", "k2", "s1_al",
    "vec", "mem_t", "mem", "loc", "u0", "u1", "u2", "blk", "bs", "gen", "gi", "gs", "ifg", "ga", "gb", "proc", "cfg", "ctx", "tb", "sim", "c", "sl", "slv", "un",
    "pkx", "gf", "t", "gfi", "fh", "rd", "f", "sel_t", "a0", "a1", "ln", "gpx", "gp2", "ip", "c9", "gpxi", "gp2i", "ex", "sel", "o", "ax", "kx", "vx",
    "cg", "b0", "b1", "px", "nx", "l1", "ix", "l2", "cs", "nosuch", "nosuch2",
    "bank2", "bank_pkg", "bch", "channel8", "channel_pkg", "clampp", "cmax", "counter_pkg", "ctop", "cvalue", "cwidth", "cwrap", "d1", "d2", "ech", "ed", "ed_a", "ed_at", "ed_g", "ed_gain", "ed_hi", "ed_lo", "ed_q", "ed_r", "ed_rtl", "ed_s", "ed_t", "ed_tb", "ed_tmp", "factor", "k1", "k2", "k3", "k4", "k5", "lch", "na", "nb", "nch", "ncnt", "nest_e", "nlimit", "peak", "plimit", "scale", "sch", "target", "tsim", "tx", "ty", "tz", "user_pkg", "value",
    "cn", "cn_w", "cn_clk", "cn_d", "cn_q", "cn_rtl", "cn_r", "cn_p", "dp", "dp_c", "dp_f", "dp_x", "dtop", "dstr", "da", "db", "dk", "du",
    "s3_al", "lbyte_t", "byte_al", "lstate_t", "lidle", "lrun", "st_al", "lst", "lvec", "lfn", "lfn_al", "mark3", "proc2", "pvar", "pvar_al",
];
const KEYS2: &[&str] = &["dut", "dut2"];

const WORDS: &[&str] = &[
    "alpha", "bravo", "carol", "delta", "echo1", "fox", "golf", "hotel", "india", "julia", "kilo", "lima", "mike", "nova", "oscar", "papa",
    "quebec", "romeo", "sierra", "tango", "ultra", "victor", "whisky", "xray", "yankee", "zulu", "amber", "birch", "cedar", "dune", "ember",
    "fjord", "glade", "heron", "iris", "jade", "kelp", "lotus", "moss", "nadir",
];

pub struct Names {
    map: HashMap<String, String>,
    casing: usize,
}

impl Names {
    fn new(rng: &mut Rng) -> Names {
        let mut map = HashMap::new();
        let style = rng.below(4);
        let mut n = 0usize;
        for k in KEYS.iter().chain(KEYS2.iter()) {
            let name = match style {
                // the template's own names
                0 => k.to_string(),
                // word + running number: all distinct
                1 => format!("{}{}", WORDS[rng.below(WORDS.len())], n),
                // short names
                2 => {
                    let w = WORDS[rng.below(WORDS.len())];
                    format!("{}_{}", &w[..3], n)
                }
                // some extended identifiers (case-sensitive, so never re-cased), with blanks and Latin-1 letters
                _ => {
                    if rng.chance(1, 8) {
                        if rng.chance(1, 2) { format!("\\{} {}\\", WORDS[rng.below(WORDS.len())], n) } else { format!("\\caf\u{e9}{}\\", n) }
                    } else {
                        format!("{}_{}", k, n)
                    }
                }
            };
            n += 1;
            map.insert(k.to_string(), name);
        }
        // library names must be plain
        map.insert("lib2".into(), if style == 0 { "lib2".into() } else { format!("lib{}", 2 + rng.below(7)) });
        Names { map, casing: rng.below(3) }
    }
    fn u(&self, key: &str, rng: &mut Rng) -> String {
        let base = self.map.get(key).cloned().unwrap_or_else(|| key.to_string());
        if base.starts_with('\\') {
            return base;
        }
        let how = match self.casing {
            0 => 0,                 // as written everywhere
            1 => rng.below(3),      // random per occurrence
            _ => if rng.chance(1, 5) { 1 + rng.below(2) } else { 0 },
        };
        match how {
            0 => base,
            1 => base.to_uppercase(),
            _ => {
                let mut c = base.chars();
                match c.next() {
                    Some(f) => f.to_uppercase().collect::<String>() + c.as_str(),
                    None => base,
                }
            }
        }
    }
}

fn fill(t: &str, flags: &HashMap<&str, bool>, names: &Names, rng: &mut Rng, comments: bool) -> String {
    let mut out = String::new();
    for line in t.lines() {
        let mut body = line;
        if let Some(rest) = line.strip_prefix('@') {
            let (cond, b) = rest.split_once(':').unwrap();
            if !cond.split('&').all(|f| *flags.get(f).unwrap_or(&false)) {
                continue;
            }
            body = b;
        }
        let mut s = String::new();
        let mut it = body.chars().peekable();
        while let Some(ch) = it.next() {
            if ch == '{' {
                let mut key = String::new();
                for c2 in it.by_ref() {
                    if c2 == '}' {
                        break;
                    }
                    key.push(c2);
                }
                s.push_str(&names.u(&key, rng));
            } else {
                s.push(ch);
            }
        }
        if comments && rng.chance(1, 12) {
            // comments before and after code, Latin-1 and (rarely) supplementary-plane characters
            match rng.below(4) {
                0 => s.push_str(" -- caf\u{e9} \u{fc}ber"),
                1 => s = format!("/* {} */ {}", if rng.chance(1, 3) { "\u{1F600}" } else { "c" }, s),
                2 => s.push_str(" -- \u{1F600} note"),
                _ => s = format!("\t{}", s),
            }
        }
        out.push_str(&s);
        out.push('\n');
    }
    out
}

pub fn gen_base(rng: &mut Rng, idx: usize) -> Proj {
    let names = Names::new(rng);
    let mut flags: HashMap<&str, bool> = HashMap::new();
    let all_on = rng.chance(1, 4);
    for f in FLAGS.iter() {
        flags.insert(f, all_on || rng.chance(2, 3));
    }
    if !all_on {
        flags.insert("entdecl", rng.chance(1, 2));
        flags.insert("nest", rng.chance(1, 2));
    }
    let ieee = rng.chance(1, 8);
    flags.insert("ieee", ieee);
    // an unresolved user attribute with an argument: the one `return_if_finished!(search_pos_with_ref(..))` site
    let uattr = rng.chance(1, 6);
    flags.insert("uattr", uattr);
    if uattr {
        flags.insert("more", true);
    }
    let more = flags["more"];
    let comments = rng.chance(1, 3);
    let gpk = flags["gpk"];
    let lib2 = flags["lib2"];
    let split = rng.below(3); // how the units are spread over files
    let pkg = fill(T_PKG, &flags, &names, rng, comments);
    let g = if gpk { fill(T_GPK, &flags, &names, rng, comments) } else { String::new() };
    let e = fill(T_ENT, &flags, &names, rng, comments);
    let tb = fill(T_TB, &flags, &names, rng, comments);
    let mut files = vec![];
    match split {
        0 => {
            // one file per template
            files.push(PFile { lib: "lib".into(), name: "p.vhd".into(), text: pkg });
            if gpk {
                files.push(PFile { lib: "lib".into(), name: "g.vhd".into(), text: g });
            }
            files.push(PFile { lib: "lib".into(), name: "e.vhd".into(), text: e });
            files.push(PFile { lib: "lib".into(), name: "t.vhd".into(), text: tb });
        }
        1 => {
            // everything of the library in one file
            files.push(PFile { lib: "lib".into(), name: "all.vhd".into(), text: format!("{}\n{}\n{}\n{}", pkg, g, e, tb) });
        }
        _ => {
            // package body in its own file (declaration and definition in different files)
            let marker = "package body";
            let at = pkg.to_lowercase().find(marker).unwrap_or(pkg.len());
            let (decl, body) = pkg.split_at(at);
            files.push(PFile { lib: "lib".into(), name: "p_decl.vhd".into(), text: decl.to_string() });
            files.push(PFile { lib: "lib".into(), name: "p_body.vhd".into(), text: body.to_string() });
            files.push(PFile { lib: "lib".into(), name: "rest.vhd".into(), text: format!("{}\n{}\n{}", g, e, tb) });
        }
    }
    if more {
        let t = fill(T_MORE, &flags, &names, rng, comments);
        files.push(PFile { lib: "lib".into(), name: "x.vhd".into(), text: t });
    }
    if flags["entdecl"] {
        // declarations in an entity's declarative part used (named association) from an architecture in another file
        files.push(PFile { lib: "lib".into(), name: "ent.vhd".into(), text: fill(T_ED_ENT, &flags, &names, rng, comments) });
        files.push(PFile { lib: "lib".into(), name: "arch.vhd".into(), text: fill(T_ED_ARCH, &flags, &names, rng, comments) });
        files.push(PFile { lib: "lib".into(), name: "edtb.vhd".into(), text: fill(T_ED_TB, &flags, &names, rng, comments) });
    }
    if flags["nest"] {
        // nested package instantiations: two and three levels, in packages, entity, architecture, package body, subprogram
        files.push(PFile { lib: "lib".into(), name: "n_pkg.vhd".into(), text: fill(T_NEST_PKG, &flags, &names, rng, comments) });
        files.push(PFile { lib: "lib".into(), name: "n_use.vhd".into(), text: fill(T_NEST_USE, &flags, &names, rng, comments) });
    }
    if lib2 {
        let l2 = names.u("lib2", &mut Rng::new(0)).to_lowercase();
        files.push(PFile { lib: l2, name: "q.vhd".into(), text: fill(T_LIB2, &flags, &names, rng, comments) });
    }
    Proj { name: format!("gen{idx}"), kind: if uattr { "generated-erroneous".into() } else { "generated".into() }, ieee, files, history: vec![] }
}

/// crude token scanner for the mutations: (start, end, is_word)
fn scan(text: &str) -> Vec<(usize, usize, bool)> {
    let b: Vec<(usize, char)> = text.char_indices().collect();
    let mut toks = vec![];
    let mut i = 0;
    while i < b.len() {
        let (o, c) = b[i];
        if c.is_whitespace() {
            i += 1;
        } else if c == '-' && i + 1 < b.len() && b[i + 1].1 == '-' {
            while i < b.len() && b[i].1 != '\n' {
                i += 1;
            }
        } else if c.is_alphanumeric() || c == '_' {
            let mut j = i;
            while j < b.len() && (b[j].1.is_alphanumeric() || b[j].1 == '_') {
                j += 1;
            }
            let end = if j < b.len() { b[j].0 } else { text.len() };
            toks.push((o, end, c.is_alphabetic()));
            i = j;
        } else if c == '"' || c == '\\' {
            let mut j = i + 1;
            while j < b.len() && b[j].1 != c && b[j].1 != '\n' {
                j += 1;
            }
            j = (j + 1).min(b.len());
            let end = if j < b.len() { b[j].0 } else { text.len() };
            toks.push((o, end, c == '\\'));
            i = j;
        } else {
            let end = if i + 1 < b.len() { b[i + 1].0 } else { text.len() };
            toks.push((o, end, false));
            i += 1;
        }
    }
    toks
}

const KEYWORDS: &[&str] = &[
    "is", "end", "begin", "entity", "architecture", "of", "package", "body", "signal", "constant", "variable", "type", "subtype", "record",
    "array", "range", "to", "downto", "function", "procedure", "return", "if", "then", "else", "elsif", "case", "when", "others", "loop", "for",
    "while", "exit", "next", "process", "port", "generic", "map", "in", "out", "use", "library", "work", "all", "not", "and", "xor", "mod",
    "component", "configuration", "context", "generate", "block", "alias", "attribute", "protected", "impure", "units", "access", "new", "shared",
];

pub fn mutate(rng: &mut Rng, base: &Proj, idx: usize) -> Proj {
    let mut p = base.clone();
    let nmut = 1 + rng.below(3);
    let mut what = vec![];
    for _ in 0..nmut {
        let fi = rng.below(p.files.len());
        let text = p.files[fi].text.clone();
        let toks = scan(&text);
        if toks.is_empty() {
            continue;
        }
        let words: Vec<(usize, usize)> = toks.iter().filter(|t| t.2 && !KEYWORDS.contains(&text[t.0..t.1].to_lowercase().as_str())).map(|t| (t.0, t.1)).collect();
        let k = rng.below(9);
        let t = toks[rng.below(toks.len())];
        let new = match k {
            0 => {
                what.push("delete-token");
                format!("{}{}", &text[..t.0], &text[t.1..])
            }
            1 => {
                what.push("truncate");
                text[..t.0].to_string()
            }
            2 if !words.is_empty() => {
                what.push("unknown-identifier");
                let w = words[rng.below(words.len())];
                format!("{}{}{}", &text[..w.0], "undefined_name", &text[w.1..])
            }
            3 if words.len() > 1 => {
                what.push("other-identifier");
                let w = words[rng.below(words.len())];
                let o = words[rng.below(words.len())];
                format!("{}{}{}", &text[..w.0], &text[o.0..o.1], &text[w.1..])
            }
            4 => {
                what.push("duplicate-line");
                let ls = text[..t.0].rfind('\n').map(|x| x + 1).unwrap_or(0);
                let le = text[t.0..].find('\n').map(|x| t.0 + x + 1).unwrap_or(text.len());
                format!("{}{}{}", &text[..le], &text[ls..le], &text[le..])
            }
            5 => {
                what.push("delete-line");
                let ls = text[..t.0].rfind('\n').map(|x| x + 1).unwrap_or(0);
                let le = text[t.0..].find('\n').map(|x| t.0 + x + 1).unwrap_or(text.len());
                format!("{}{}", &text[..ls], &text[le..])
            }
            6 => {
                what.push("insert-token");
                let ins = *rng.pick(&[";", "end", "(", ")", "is", ":=", "begin", "'", "\""]);
                format!("{} {} {}", &text[..t.0], ins, &text[t.0..])
            }
            7 if !words.is_empty() => {
                what.push("rename-declaration-site");
                // change one spelling so that its other occurrences stop matching (or start matching another name)
                let w = words[rng.below(words.len())];
                format!("{}{}_x{}", &text[..w.0], &text[w.0..w.1], &text[w.1..])
            }
            _ => {
                what.push("swap-tokens");
                let i = rng.below(toks.len());
                if i + 1 < toks.len() {
                    let (a, b) = (toks[i], toks[i + 1]);
                    format!("{}{}{}{}{}", &text[..a.0], &text[b.0..b.1], &text[a.1..b.0], &text[a.0..a.1], &text[b.1..])
                } else {
                    text.clone()
                }
            }
        };
        p.files[fi].text = new;
    }
    p.name = format!("mut{idx}");
    p.kind = format!("mutated:{}", what.join("+"));
    p
}


const T_DUP: &str = r#"entity {cn} is
  generic ({cn_w} : natural := 8);
  port ({cn_clk} : in bit; {cn_d} : in bit_vector({cn_w} - 1 downto 0); {cn_q} : out bit_vector({cn_w} - 1 downto 0));
end entity {cn};

architecture {cn_rtl} of {cn} is
  signal {cn_r} : bit_vector({cn_w} - 1 downto 0);
begin
  {cn_p} : process ({cn_clk}) is
  begin
    if {cn_clk} = '1' then
      {cn_r} <= {cn_d};
    end if;
  end process {cn_p};
  {cn_q} <= {cn_r};
end architecture {cn_rtl};

package {dp} is
  constant {dp_c} : natural := 3;
  function {dp_f}({dp_x} : natural) return natural;
end package {dp};

package body {dp} is
  function {dp_f}({dp_x} : natural) return natural is
  begin
    return {dp_x} + {dp_c};
  end function {dp_f};
end package body {dp};
"#;

const T_DUP_TOP: &str = r#"use work.{dp}.all;
entity {dtop} is
  port ({cn_clk} : in bit);
end entity {dtop};

architecture {dstr} of {dtop} is
  signal {da}, {db} : bit_vector({dp_c} downto 0);
  constant {dk} : natural := {dp_f}({dp_x} => 1) + work.{dp}.{dp_c};
begin
  {du} : entity work.{cn}({cn_rtl}) generic map ({cn_w} => 4) port map ({cn_clk} => {cn_clk}, {cn_d} => {da}, {cn_q} => {db});
end architecture {dstr};
"#;

/// Projects in which design units are declared twice across files (an old and a new copy both matched by the
/// file pattern of a library), with an edit history: edit the one, edit the other, empty one, restore it.
pub fn gen_dup(rng: &mut Rng, idx: usize) -> Proj {
    let names = Names::new(rng);
    let flags: HashMap<&str, bool> = HashMap::new();
    let orig = fill(T_DUP, &flags, &names, rng, false);
    let top = fill(T_DUP_TOP, &flags, &names, rng, false);
    // the copy: the whole file or some of its units, with another layout (shifted lines / columns)
    let units: Vec<&str> = orig.split("\n\n").collect();
    let which = rng.below(5);
    let picked: Vec<&str> = match which {
        0 => units.clone(),              // whole file
        1 => vec![units[0]],             // the entity only (primary unit)
        2 => vec![units[1]],             // the architecture only (secondary unit)
        3 => vec![units[2], units[3]],   // package + body
        _ => vec![units[0], units[1]],   // entity + architecture
    };
    let mut copy = String::new();
    match rng.below(3) {
        0 => {}
        1 => copy.push_str("-- older version\n\n"),
        _ => copy.push_str("-- backup\n-- of the file\n"),
    }
    let indent = rng.below(3);
    for u in &picked {
        for l in u.lines() {
            copy.push_str(&" ".repeat(indent));
            copy.push_str(l);
            copy.push('\n');
        }
        copy.push('\n');
    }
    let same_lib = rng.chance(4, 5);
    let copy_first = rng.chance(1, 2);
    let mut files = vec![
        PFile { lib: "lib".into(), name: "counter.vhd".into(), text: orig.clone() },
        PFile { lib: if same_lib { "lib".into() } else { "libcopy".into() }, name: "backup_counter.vhd".into(), text: copy.clone() },
    ];
    if copy_first {
        files.swap(0, 1);
    }
    files.push(PFile { lib: "lib".into(), name: "top.vhd".into(), text: top });
    // history
    let mut history = vec![];
    let mut cur: HashMap<&str, String> = HashMap::new();
    cur.insert("counter.vhd", orig.clone());
    cur.insert("backup_counter.vhd", copy.clone());
    let nsteps = 2 + rng.below(4);
    let mut n = 0;
    for _ in 0..nsteps {
        let f = if rng.chance(1, 2) { "counter.vhd" } else { "backup_counter.vhd" };
        let base = if f == "counter.vhd" { &orig } else { &copy };
        let now = cur[f].clone();
        n += 1;
        let new = match rng.below(6) {
            0 => String::new(),                                            // empty the file (all units removed)
            1 => base.clone(),                                             // restore
            2 => format!("-- edit {n}\n{now}"),                           // shift all lines
            3 => now.replacen("  ", "      ", 1),                          // shift columns of one line
            4 => now.replacen(" is\n", " is -- c\n\n", 1),               // blank line after the first `is`
            _ => format!("\n\n{base}"),
        };
        cur.insert(f, new.clone());
        history.push(vec![(f.to_string(), new)]);
    }
    Proj { name: format!("dup{idx}"), kind: format!("duplicate-units:{}", ["whole-file", "entity", "architecture", "package+body", "entity+architecture"][which]), ieee: false, files, history }
}
