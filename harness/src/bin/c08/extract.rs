//! Event-forest extraction through the public `Project::search(&mut impl Searcher)` API.
//!
//! Run 0 records every callback (`search_with_pos`, `search_pos_with_ref`, `search_decl`) of the
//! traversal of all units of the recorded files, in traversal order.  The later runs *follow* that
//! sequence and answer `Finished(NotFound)` at callbacks whose guard range is not yet known: the
//! events that `return_if_finished!` skips disappear from the run, and the index at which the run
//! re-joins the recorded sequence is the end of the guard range.  Every callback (not only
//! `search_with_pos`) is probed, so a `return_if_finished!(search_pos_with_ref(..))` site shows up as a
//! guarded reference.  All observed events of the following runs are compared with the recorded ones; any
//! mismatch makes the extraction fall back to one-callback-per-run probing with event counting.
use std::collections::{HashMap, HashSet};
use std::path::PathBuf;
use vhdl_lang::ast::search::{DeclarationItem, FoundDeclaration, SearchResult, SearchState, Searcher};
use vhdl_lang::{HasEntityId, Project, Reference, SrcPos, TokenAccess, TokenId};

pub type Span = (u32, u32, u32, u32);

#[derive(Clone, Copy, PartialEq, Eq, Debug, Hash)]
pub enum K {
    With,
    Ref,
    Decl,
}

#[derive(Clone, PartialEq, Eq, Debug, Hash)]
pub struct Ev {
    pub k: K,
    /// address of the token vector of the design unit being searched (identity of the unit)
    pub unit: usize,
    /// file of `pos` (With/Ref); Decl: file of the identifier token of a design unit, else u32::MAX
    pub file: u32,
    pub span: Span,
    /// raw entity id of the reference (Ref: target, Decl: declared entity)
    pub ent: Option<usize>,
    /// address of the `Reference` cell inside the AST (0 for With)
    pub addr: usize,
    /// Decl: index of the DeclarationItem variant
    pub dkind: u8,
    /// Decl: position of the end identifier according to the harness' own table
    pub end: Option<(u32, Span)>,
}

pub fn span_of(p: &SrcPos) -> Span {
    (p.range.start.line, p.range.start.character, p.range.end.line, p.range.end.character)
}

#[derive(Default)]
pub struct Files {
    pub names: Vec<PathBuf>,
    pub ids: HashMap<PathBuf, u32>,
}
impl Files {
    pub fn id(&mut self, p: &std::path::Path) -> u32 {
        if let Some(i) = self.ids.get(p) {
            return *i;
        }
        let i = self.names.len() as u32;
        self.names.push(p.to_path_buf());
        self.ids.insert(p.to_path_buf(), i);
        i
    }
}

pub const DKINDS: [&str; 31] = [
    "Object", "ElementDeclaration", "EnumerationLiteral", "InterfaceObject", "InterfaceFile", "File", "Type",
    "InterfaceType", "InterfacePackage", "PhysicalTypePrimary", "PhysicalTypeSecondary", "Component", "Attribute",
    "Alias", "SubprogramDecl", "ReturnIdentifier", "Subprogram", "SubprogramInstantiation", "Package", "PackageBody",
    "PackageInstance", "Configuration", "Entity", "Architecture", "Context", "ForIndex", "ForGenerateIndex",
    "GenerateBody", "ConcurrentStatement", "SequentialStatement", "View",
];

/// The harness' own statement of "which declarations carry an end identifier": every AST node that has an
/// `end_ident_pos` field reports it (`end entity name;`, `end package body name;`, `end function name;` ...).
/// Returns (variant index, end identifier token).
pub fn decl_info(d: &DeclarationItem<'_>) -> (u8, Option<TokenId>) {
    use DeclarationItem::*;
    match d {
        Object(_) => (0, None),
        ElementDeclaration(_) => (1, None),
        EnumerationLiteral(..) => (2, None),
        InterfaceObject(_) => (3, None),
        InterfaceFile(_) => (4, None),
        File(_) => (5, None),
        Type(v) => (6, v.end_ident_pos),
        InterfaceType(_) => (7, None),
        InterfacePackage(_) => (8, None),
        PhysicalTypePrimary(_) => (9, None),
        PhysicalTypeSecondary(..) => (10, None),
        Component(v) => (11, v.end_ident_pos),
        Attribute(_) => (12, None),
        Alias(_) => (13, None),
        SubprogramDecl(_) => (14, None),
        ReturnIdentifier(_) => (15, None),
        Subprogram(v) => (16, v.end_ident_pos),
        SubprogramInstantiation(_) => (17, None),
        Package(v) => (18, v.end_ident_pos),
        PackageBody(v) => (19, v.end_ident_pos),
        PackageInstance(_) => (20, None),
        Configuration(v) => (21, v.end_ident_pos),
        Entity(v) => (22, v.end_ident_pos),
        Architecture(v) => (23, v.end_ident_pos),
        Context(v) => (24, v.end_ident_pos),
        ForIndex(..) => (25, None),
        ForGenerateIndex(..) => (26, None),
        GenerateBody(_) => (27, None),
        ConcurrentStatement(_) => (28, None),
        SequentialStatement(_) => (29, None),
        View(v) => (30, v.end_ident_pos),
    }
}

fn unit_of(ctx: &dyn TokenAccess) -> usize {
    ctx as *const dyn TokenAccess as *const () as usize
}

/// What the searcher does with the events it sees.
enum Mode {
    /// record everything
    Record,
    /// follow `plan`, probing unknown guard ranges (see module doc)
    Follow,
    /// answer Finished(NotFound) at plan index `at` only, count the events (fallback)
    Single { at: usize },
}

pub struct Rec<'a> {
    mode: Mode,
    pub files: &'a mut Files,
    pub evs: Vec<Ev>,
    /// units to ignore (files that are not recorded); decided after run 0
    skip: &'a HashSet<usize>,
    plan: &'a [Ev],
    ends: &'a mut Vec<Option<usize>>,
    fpos: usize,
    pending: Option<usize>,
    pub mismatch: Option<String>,
    pub probed: usize,
    seen: usize,
    last_unit: usize,
    last_skip: bool,
}

impl<'a> Rec<'a> {
    fn mk_with(&mut self, ctx: &dyn TokenAccess, pos: &SrcPos) -> Ev {
        Ev { k: K::With, unit: unit_of(ctx), file: self.files.id(pos.source.file_name()), span: span_of(pos), ent: None, addr: 0, dkind: 0, end: None }
    }
    fn mk_ref(&mut self, ctx: &dyn TokenAccess, pos: &SrcPos, r: &Reference) -> Ev {
        Ev {
            k: K::Ref,
            unit: unit_of(ctx),
            file: self.files.id(pos.source.file_name()),
            span: span_of(pos),
            ent: r.get().map(|i| i.to_raw()),
            addr: r as *const Reference as usize,
            dkind: 0,
            end: None,
        }
    }
    fn mk_decl(&mut self, ctx: &dyn TokenAccess, d: &FoundDeclaration<'_>) -> Ev {
        let (dk, endtok) = decl_info(&d.ast);
        // design units: the file of the unit's own identifier token (a unit may consist of this event only)
        let ident_tok = match &d.ast {
            DeclarationItem::Entity(v) => Some(v.ident.tree.token),
            DeclarationItem::Architecture(v) => Some(v.ident.tree.token),
            DeclarationItem::Package(v) => Some(v.ident.tree.token),
            DeclarationItem::PackageBody(v) => Some(v.ident.tree.token),
            DeclarationItem::PackageInstance(v) => Some(v.ident.tree.token),
            DeclarationItem::Configuration(v) => Some(v.ident.tree.token),
            DeclarationItem::Context(v) => Some(v.ident.tree.token),
            _ => None,
        };
        let unit_file = ident_tok.map(|t| self.files.id(ctx.get_pos(t).source.file_name())).unwrap_or(u32::MAX);
        let end = endtok.map(|t| {
            let p = ctx.get_pos(t);
            (self.files.id(p.source.file_name()), span_of(p))
        });
        Ev {
            k: K::Decl,
            unit: unit_of(ctx),
            file: unit_file,
            span: (0, 0, 0, 0),
            ent: d.ent_id().map(|i| i.to_raw()),
            addr: d.reference as *const Reference as usize,
            dkind: dk,
            end,
        }
    }
    fn skipped(&mut self, unit: usize) -> bool {
        if unit != self.last_unit {
            self.last_unit = unit;
            self.last_skip = self.skip.contains(&unit);
        }
        self.last_skip
    }
    fn abort(&mut self, why: String) -> SearchState {
        if self.mismatch.is_none() {
            self.mismatch = Some(why);
        }
        SearchState::Finished(SearchResult::Found)
    }
    fn step(&mut self, e: Ev) -> SearchState {
        match self.mode {
            Mode::Record => {
                self.evs.push(e);
                SearchState::NotFinished
            }
            Mode::Single { at } => {
                let i = self.seen;
                self.seen += 1;
                self.evs.push(e);
                if i == at {
                    SearchState::Finished(SearchResult::NotFound)
                } else {
                    SearchState::NotFinished
                }
            }
            Mode::Follow => {
                if self.mismatch.is_some() {
                    return SearchState::Finished(SearchResult::Found);
                }
                if let Some(i) = self.pending {
                    let mut j = i + 1;
                    while j < self.plan.len() && self.plan[j] != e {
                        j += 1;
                    }
                    if j >= self.plan.len() {
                        return self.abort(format!("event after probe {i} not found in the recorded sequence"));
                    }
                    self.ends[i] = Some(j);
                    self.fpos = j;
                    self.pending = None;
                } else if self.fpos >= self.plan.len() || self.plan[self.fpos] != e {
                    return self.abort(format!("event {} differs from the recorded sequence", self.fpos));
                }
                let i = self.fpos;
                if self.ends[i].is_none() {
                    self.pending = Some(i);
                    self.probed += 1;
                    SearchState::Finished(SearchResult::NotFound)
                } else {
                    self.fpos += 1;
                    SearchState::NotFinished
                }
            }
        }
    }
}

impl Searcher for Rec<'_> {
    fn search_pos_with_ref(&mut self, ctx: &dyn TokenAccess, pos: &SrcPos, r: &Reference) -> SearchState {
        if self.skipped(unit_of(ctx)) {
            return SearchState::NotFinished;
        }
        let e = self.mk_ref(ctx, pos, r);
        self.step(e)
    }
    fn search_decl(&mut self, ctx: &dyn TokenAccess, d: FoundDeclaration<'_>) -> SearchState {
        if self.skipped(unit_of(ctx)) {
            return SearchState::NotFinished;
        }
        let e = self.mk_decl(ctx, &d);
        self.step(e)
    }
    fn search_with_pos(&mut self, ctx: &dyn TokenAccess, pos: &SrcPos) -> SearchState {
        if self.skipped(unit_of(ctx)) {
            return SearchState::NotFinished;
        }
        let e = self.mk_with(ctx, pos);
        self.step(e)
    }
}

pub struct Forest {
    /// events of the recorded units in traversal order
    pub evs: Vec<Ev>,
    /// guard range of event i is evs[i+1 .. ends[i]]
    pub ends: Vec<usize>,
    /// unit address -> file id (file of the unit's tokens)
    pub unit_file: HashMap<usize, u32>,
    pub runs: usize,
    pub fallback: bool,
    pub total_events_all_units: usize,
}

/// `want(file name)` selects the files whose units are recorded.
pub fn extract(p: &Project, files: &mut Files, want: &dyn Fn(&std::path::Path) -> bool) -> Result<Forest, String> {
    let empty = HashSet::new();
    let mut noends = Vec::new();
    let mut rec = Rec { mode: Mode::Record, files, evs: vec![], skip: &empty, plan: &[], ends: &mut noends, fpos: 0, pending: None, mismatch: None, probed: 0, seen: 0, last_unit: 0, last_skip: false };
    p.search(&mut rec);
    let all = std::mem::take(&mut rec.evs);
    let files = rec.files;
    // file of a unit: the file of its positioned events (all of them must agree), else of an end identifier
    let mut unit_file: HashMap<usize, u32> = HashMap::new();
    for e in &all {
        let f = match e.k {
            K::With | K::Ref => Some(e.file),
            K::Decl => if e.file != u32::MAX { Some(e.file) } else { e.end.map(|x| x.0) },
        };
        if let Some(f) = f {
            match unit_file.get(&e.unit) {
                None => {
                    unit_file.insert(e.unit, f);
                }
                Some(g) if *g != f => {
                    // tokens of one unit in two files: cannot happen with this parser; keep the first, the
                    // model's wf_forest reports it
                }
                _ => {}
            }
        }
    }
    let mut skip: HashSet<usize> = HashSet::new();
    for e in &all {
        let keep = match unit_file.get(&e.unit) {
            Some(f) => want(&files.names[*f as usize]),
            None => false, // a unit without any token position: nothing to query
        };
        if !keep {
            skip.insert(e.unit);
        }
    }
    let plan: Vec<Ev> = all.iter().filter(|e| !skip.contains(&e.unit)).cloned().collect();
    let n = plan.len();
    let mut ends: Vec<Option<usize>> = vec![None; n];
    let mut runs = 1;
    let mut fallback = false;
    loop {
        if ends.iter().all(|e| e.is_some()) {
            break;
        }
        let mut rec = Rec { mode: Mode::Follow, files, evs: vec![], skip: &skip, plan: &plan, ends: &mut ends, fpos: 0, pending: None, mismatch: None, probed: 0, seen: 0, last_unit: 0, last_skip: false };
        p.search(&mut rec);
        runs += 1;
        let (pending, fpos, mism, probed) = (rec.pending, rec.fpos, rec.mismatch.take(), rec.probed);
        if let Some(m) = mism {
            let _ = m;
            fallback = true;
            break;
        }
        if let Some(i) = pending {
            ends[i] = Some(n);
        } else if fpos != n {
            fallback = true;
            break;
        }
        if probed == 0 {
            fallback = true;
            break;
        }
        if runs > 200 {
            fallback = true;
            break;
        }
    }
    if fallback {
        // exact but slow: one probe per run; the skipped events are counted
        for i in 0..n {
            let mut none = Vec::new();
            let mut rec = Rec { mode: Mode::Single { at: i }, files, evs: vec![], skip: &skip, plan: &plan, ends: &mut none, fpos: 0, pending: None, mismatch: None, probed: 0, seen: 0, last_unit: 0, last_skip: false };
            p.search(&mut rec);
            runs += 1;
            let seen = rec.evs;
            if seen.len() > n || seen.len() < i + 1 {
                return Err(format!("probe {i}: {} events seen, {} recorded", seen.len(), n));
            }
            let dropped = n - seen.len();
            let e = i + 1 + dropped;
            if seen[..=i] != plan[..=i] || seen[i + 1..] != plan[e..] {
                return Err(format!("probe {i}: the run is not the recorded sequence minus one contiguous range"));
            }
            ends[i] = Some(e);
        }
    }
    let ends: Vec<usize> = ends.into_iter().map(|e| e.unwrap()).collect();
    // guard ranges must nest
    let mut stack: Vec<usize> = vec![];
    for i in 0..n {
        while let Some(&t) = stack.last() {
            if t <= i {
                stack.pop();
            } else {
                break;
            }
        }
        if let Some(&t) = stack.last() {
            if ends[i] > t {
                return Err(format!("guard ranges do not nest at event {i}"));
            }
        }
        if ends[i] < i + 1 {
            return Err(format!("guard range of event {i} ends before it"));
        }
        stack.push(ends[i]);
    }
    Ok(Forest { evs: plan, ends, unit_file, runs, fallback, total_events_all_units: all.len() })
}
