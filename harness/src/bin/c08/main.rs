//! C08 harness: definition / reference consistency.
//!
//! usage: c08 run <seed> <n_generated> <outdir> <quick|thorough> [corpus.jsonl] [--replay file.json]
//!        c08 show <project.json>            (prints the extracted event forest; debugging aid)
//!
//! For every project (the bundled standard libraries, the corpus, generated valid projects and
//! mutated/erroneous variants):
//!   1. event-forest extraction through `Project::search(&mut impl Searcher)` (extract.rs);
//!   2. ORACLE on the implementation: `Project::item_at_cursor` at every cursor of every recorded file
//!      (sampled for large files), `find_all_references` of the found entities' declarations and of the
//!      declared entities; the three clauses of the property are checked directly;
//!   3. the forest, the entity table and the queries are written for the extracted Coq model
//!      (`cases.txt`), the implementation's answers to `impl.txt`, oracle verdicts to `oracle.jsonl`,
//!      the projects to `projects.jsonl` (for replay files).
mod extract;
mod gen;
use extract::*;
use gen::*;
use std::collections::{BTreeMap, BTreeSet, HashMap, HashSet};
use std::fmt::Write as _;
use std::path::{Path, PathBuf};
use std::sync::atomic::{AtomicUsize, Ordering};
use std::sync::Mutex;
use verif_harness::rng::Rng;
use vhdl_lang::ast::Designator;
use vhdl_lang::{AnyEntKind, Config, EntRef, NullMessages, Position, Project, Related, Source, SrcPos};

struct Opts {
    thorough: bool,
    replay: bool,
}

struct Out {
    idx: usize,
    project: serde_json::Value,
    cases: String,
    imp: String,
    oracle: serde_json::Value,
}

fn latin1_bytes(s: &str) -> (Vec<u8>, bool) {
    let mut exact = true;
    let v = s
        .chars()
        .map(|c| {
            if (c as u32) < 256 {
                c as u32 as u8
            } else {
                exact = false;
                b'?'
            }
        })
        .collect();
    (v, exact)
}

fn load_project(pr: &Proj, dir: &str) -> Project {
    let _ = std::fs::remove_dir_all(dir);
    std::fs::create_dir_all(dir).unwrap();
    let mut libs: BTreeMap<String, Vec<String>> = BTreeMap::new();
    let mut inline = vec![];
    for f in &pr.files {
        let (bytes, exact) = latin1_bytes(&f.text);
        std::fs::write(format!("{dir}/{}", f.name), bytes).unwrap();
        // `lib` may name several libraries (`liba+libb`): the same file mapped to each of them
        for l in f.lib.split('+') {
            libs.entry(l.to_string()).or_default().push(f.name.clone());
        }
        if !exact {
            inline.push(f);
        }
    }
    let mut toml = String::from("[libraries]\n");
    for (l, fs) in &libs {
        let _ = writeln!(toml, "{}.files = [{}]", l, fs.iter().map(|x| format!("'{x}'")).collect::<Vec<_>>().join(","));
    }
    std::fs::write(format!("{dir}/vhdl_ls.toml"), &toml).unwrap();
    let mut msgs = NullMessages;
    let mut cfg = Config::default();
    if pr.ieee {
        cfg.load_external_config(&mut msgs, Some("/repo/vhdl_libraries".to_string()));
    } else if let Ok(c1) = Config::from_str("[libraries]\nstd.files = ['std/*.vhd']\nstd.is_third_party = true\n", Path::new("/repo/vhdl_libraries")) {
        cfg.append(&c1, &mut msgs);
    }
    if let Ok(c2) = Config::from_str(&toml, Path::new(dir)) {
        cfg.append(&c2, &mut msgs);
    }
    let mut p = Project::from_config(cfg, &mut msgs);
    for f in inline {
        // text with characters outside Latin-1: replace the in-memory contents (UTF-8)
        let path = PathBuf::from(format!("{dir}/{}", f.name));
        p.update_source(&Source::inline(&path, &f.text));
    }
    p
}

fn add_ent<'a>(ents: &mut HashMap<usize, EntRef<'a>>, e: EntRef<'a>) {
    let mut todo = vec![e];
    while let Some(e) = todo.pop() {
        if ents.insert(e.id().to_raw(), e).is_some() {
            continue;
        }
        match e.related {
            Related::ImplicitOf(o) | Related::InstanceOf(o) | Related::DeclaredBy(o) | Related::DerivedFrom(o) => todo.push(o),
            Related::None => {}
        }
        if let Some(p) = e.parent {
            todo.push(p);
        }
        for i in &e.implicits {
            todo.push(i);
        }
    }
}

fn rel_code(e: EntRef<'_>) -> (u8, usize) {
    match e.related {
        Related::None => (0, 0),
        Related::ImplicitOf(o) => (1, o.id().to_raw()),
        Related::InstanceOf(o) => (2, o.id().to_raw()),
        Related::DeclaredBy(o) => (3, o.id().to_raw()),
        Related::DerivedFrom(o) => (4, o.id().to_raw()),
    }
}

/// The property's acceptance relation, written against the public `related` field (not with the
/// implementation's `is_reference`): cursor entity and searched entity are counterparts iff they have the
/// same declaration() (same entity, declaration <-> definition), or one is an instance of the other's
/// declaration() (generic <-> instance, also from the body side).
fn counterpart(d: EntRef<'_>, e: EntRef<'_>) -> bool {
    if d.id() == e.id() {
        return true;
    }
    let (dd, de) = (decl_of(d), decl_of(e));
    if dd.id() == de.id() {
        return true;
    }
    let inst = |a: EntRef<'_>, b: EntRef<'_>| matches!(a.related, Related::InstanceOf(o) if o.id() == b.id());
    inst(d, de) || inst(e, dd)
}

fn decl_of(e: EntRef<'_>) -> EntRef<'_> {
    if let Related::DeclaredBy(o) = e.related {
        o
    } else {
        e
    }
}

fn fmt_span(f: u32, s: Span) -> String {
    format!("{} {} {} {} {}", f, s.0, s.1, s.2, s.3)
}

fn utf16_slice(line: &str, a: u32, b: u32) -> Option<String> {
    let u: Vec<u16> = line.encode_utf16().collect();
    if a as usize > u.len() || b as usize > u.len() || a > b {
        return None;
    }
    Some(String::from_utf16_lossy(&u[a as usize..b as usize]))
}

/// One project, and after every step of its edit history (update_source + analyse, what the language server does on
/// didChange) the same evaluation again, compared with freshly loaded projects holding the same texts.
fn process(pr: &Proj, idx: usize, outdir: &str, opts: &Opts, rng: &mut Rng) -> Vec<Out> {
    let dir = format!("{outdir}/proj/{idx}");
    let mut p = load_project(pr, &dir);
    let diags = p.analyse();
    let mut st0 = pr.clone();
    st0.history.clear();
    let mut outs = vec![evaluate(&p, &diags, &st0, pr, idx * 64, &dir, opts, rng)];
    let mut cur = st0.clone();
    for (k, step) in pr.history.iter().enumerate().take(60) {
        for (name, text) in step {
            let path = PathBuf::from(format!("{dir}/{name}"));
            match cur.files.iter_mut().find(|f| &f.name == name) {
                Some(f) => f.text = text.clone(),
                None => continue,
            }
            match p.get_source(&path) {
                Some(src) => {
                    src.change(None, text);
                    p.update_source(&src);
                }
                None => p.update_source(&Source::inline(&path, text)),
            }
        }
        let diags = p.analyse();
        let mut replay = pr.clone();
        replay.history.truncate(k + 1);
        let mut state = cur.clone();
        state.name = format!("{}@step{}", pr.name, k + 1);
        state.kind = format!("{}+history", pr.kind);
        let mut o = evaluate(&p, &diags, &state, &replay, idx * 64 + k + 1, &dir, opts, rng);
        // The same texts in a fresh project must give the same answers.  Only for states without duplicate design
        // units: which of two duplicates is analysed legitimately depends on the order in which files were added
        // (per unit), so there the incremental and the fresh project may differ.
        let is_dup = |ds: &[vhdl_lang::Diagnostic]| ds.iter().any(|d| format!("{:?}", d.code) == "Duplicate");
        let mut fresh_state = "skipped: duplicate design units";
        if !is_dup(&diags) {
            let fdir = format!("{dir}_fresh");
            let mut fresh = load_project(&cur, &fdir);
            let fdiags = fresh.analyse();
            if !is_dup(&fdiags) {
                fresh_state = "equal";
                let sig = signature(&p, &dir, &cur);
                let fsig = signature(&fresh, &fdir, &cur);
                if let (Some(d), Some(obj)) = (first_difference(&sig, &fsig), o.oracle.as_object_mut()) {
                    fresh_state = "different";
                    obj.insert("fresh_difference".into(), serde_json::json!(d));
                }
            }
        }
        if let Some(obj) = o.oracle.as_object_mut() {
            obj.insert("fresh_comparison".into(), serde_json::json!(fresh_state));
        }
        outs.push(o);
    }
    outs
}

/// Canonical answers of a project, independent of entity ids and directory: every cursor of every own file ->
/// position + entity, and the reference list of the declaration of every entity a cursor resolved to.
fn signature(p: &Project, dir: &str, pr: &Proj) -> BTreeMap<String, String> {
    let mut sig = BTreeMap::new();
    let show = |pos: &SrcPos| format!("{}:{:?}", pos.source.file_name().file_name().unwrap().to_string_lossy(), span_of(pos));
    let ent_key = |e: EntRef<'_>| format!("{}@{}", e.describe(), e.decl_pos().map(|d| show(d)).unwrap_or_default());
    let mut decls: BTreeMap<String, EntRef<'_>> = BTreeMap::new();
    for f in &pr.files {
        let path = PathBuf::from(format!("{dir}/{}", f.name));
        let Some(src) = p.get_source(&path) else { continue };
        let lines: Vec<String> = {
            let c = src.contents();
            (0..c.num_lines()).map(|i| c.get_line(i).unwrap().to_string()).collect()
        };
        for (li, l) in lines.iter().enumerate() {
            let n = l.trim_end_matches(['\n', '\r']).encode_utf16().count() as u32;
            for c in 0..=n + 1 {
                if let Some((pos, ent)) = p.item_at_cursor(&src, Position::new(li as u32, c)) {
                    sig.insert(format!("C {} {} {}", f.name, li, c), format!("{} {}", show(&pos), ent_key(ent)));
                    let d = ent.declaration();
                    decls.insert(ent_key(d), d);
                }
            }
        }
    }
    let own: HashSet<String> = pr.files.iter().map(|f| f.name.clone()).collect();
    for (k, d) in decls {
        let mut refs: Vec<String> = p.find_all_references(d).iter().filter(|r| own.contains(&r.source.file_name().file_name().unwrap().to_string_lossy().to_string())).map(|r| show(r)).collect();
        refs.sort();
        sig.insert(format!("A {k}"), refs.join(" "));
    }
    sig
}

fn first_difference(a: &BTreeMap<String, String>, b: &BTreeMap<String, String>) -> Option<String> {
    for (k, v) in a {
        match b.get(k) {
            Some(w) if w == v => {}
            Some(w) => return Some(format!("{k}: after the edit history `{v}`, fresh project `{w}`")),
            None => return Some(format!("{k}: after the edit history `{v}`, fresh project: nothing")),
        }
    }
    for (k, w) in b {
        if !a.contains_key(k) {
            return Some(format!("{k}: after the edit history: nothing, fresh project `{w}`"));
        }
    }
    None
}

fn evaluate(p: &Project, diags: &[vhdl_lang::Diagnostic], pr: &Proj, replay: &Proj, idx: usize, dir: &str, opts: &Opts, rng: &mut Rng) -> Out {
    let is_libs = pr.kind == "libs";
    let mut files = Files::default();
    // recorded files: the project's own files; for the library project every file of the bundled libraries
    let own: HashSet<PathBuf> = pr.files.iter().map(|f| PathBuf::from(format!("{dir}/{}", f.name))).collect();
    let want = |f: &Path| if is_libs { true } else { own.contains(f) };
    let fo = match extract(p, &mut files, &want) {
        Ok(fo) => fo,
        Err(e) => {
            return Out { idx, cases: String::new(), imp: String::new(), project: replay.to_json(), oracle: serde_json::json!({"idx": idx, "name": pr.name, "kind": pr.kind, "extract_error": e}) };
        }
    };
    if std::env::var("C08_DEBUG").is_ok() {
        eprintln!("all events {} ; unit files {:?} ; own {:?} ; diags {:?}", fo.total_events_all_units, fo.unit_file.values().map(|f| files.names[*f as usize].clone()).collect::<HashSet<_>>(), own, diags.iter().map(|d| format!("{}:{}:{}", d.pos.source.file_name().display(), d.pos.range.start.line, d.message)).collect::<Vec<_>>());
    }
    let recorded: HashSet<u32> = fo.unit_file.values().copied().filter(|f| want(&files.names[*f as usize])).collect();
    let mut rec_sorted: Vec<u32> = recorded.iter().copied().collect();
    rec_sorted.sort();
    // ---- entity table ----
    let mut ents: HashMap<usize, EntRef<'_>> = HashMap::new();
    let srcs: HashMap<u32, Source> = files.names.iter().enumerate().filter_map(|(i, f)| p.get_source(f).map(|s| (i as u32, s))).collect();
    for (_, src) in srcs.iter() {
        for (_, e) in p.find_all_entity_references(src) {
            add_ent(&mut ents, e);
        }
        for lib in p.library_mapping_of(src) {
            for (h, _) in p.document_symbols(&lib, src) {
                for e in h.into_flat() {
                    add_ent(&mut ents, e);
                }
            }
        }
    }
    // ---- cursors ----
    let budget = if is_libs { if opts.thorough { 60000 } else { 5000 } } else if opts.replay { 1_000_000 } else { 14000 };
    let mut cursors: Vec<(u32, u32, u32)> = vec![];
    let mut line_text: HashMap<u32, Vec<String>> = HashMap::new();
    let mut total = 0usize;
    for f in &rec_sorted {
        if let Some(src) = srcs.get(f) {
            let c = src.contents();
            let lines: Vec<String> = (0..c.num_lines()).map(|i| c.get_line(i).unwrap().to_string()).collect();
            total += lines.iter().map(|l| l.encode_utf16().count() + 2).sum::<usize>() + 2;
            line_text.insert(*f, lines);
        }
    }
    let all_cursors = total <= budget;
    if all_cursors {
        for f in &rec_sorted {
            if let Some(lines) = line_text.get(f) {
                for (li, l) in lines.iter().enumerate() {
                    let n = l.trim_end_matches(['\n', '\r']).encode_utf16().count() as u32;
                    for c in 0..=n + 1 {
                        cursors.push((*f, li as u32, c));
                    }
                }
                // one line past the end
                cursors.push((*f, lines.len() as u32, 0));
                cursors.push((*f, lines.len() as u32 + 1, 3));
            }
        }
    } else {
        // sample: the boundaries of a random subset of the recorded events, their neighbours, and random points
        let mut seen = HashSet::new();
        let n = fo.evs.len();
        let mut tries = 0;
        while cursors.len() < budget && tries < budget * 4 && n > 0 {
            tries += 1;
            let e = &fo.evs[rng.below(n)];
            let (f, s) = match (e.k, e.end) {
                (K::Decl, Some((f, s))) => (f, s),
                (K::Decl, None) => match e.ent.and_then(|i| ents.get(&i)).and_then(|x| x.decl_pos()) {
                    Some(dp) => (files.id(dp.source.file_name()), span_of(dp)),
                    None => continue,
                },
                _ => (e.file, e.span),
            };
            if !recorded.contains(&f) || !srcs.contains_key(&f) {
                continue;
            }
            let cands = [(s.0, s.1), (s.0, s.1 + 1), (s.2, s.3), (s.2, s.3.saturating_sub(1)), (s.0, s.1.saturating_sub(1)), (s.2, s.3 + 1), (s.0, (s.1 + s.3) / 2), (s.0, rng.below(120) as u32)];
            for (l, c) in cands {
                if seen.insert((f, l, c)) {
                    cursors.push((f, l, c));
                }
            }
        }
    }
    // ---- implementation: item_at_cursor ----
    let mut cases = String::new();
    let mut imp = String::new();
    let mut iac_cache: HashMap<(u32, u32, u32), Option<(SrcPos, EntRef<'_>)>> = HashMap::new();
    let mut hits: BTreeMap<(u32, Span, usize), (SrcPos, EntRef<'_>)> = BTreeMap::new();
    let mut n_hit_cursors = 0usize;
    let mut nv0 = 0usize;
    let mut viol0: Vec<serde_json::Value> = vec![];
    for &(f, l, c) in &cursors {
        let src = &srcs[&f];
        let r = p.item_at_cursor(src, Position::new(l, c));
        if let Some((pos, ent)) = &r {
            n_hit_cursors += 1;
            add_ent(&mut ents, ent);
            let pf = files.id(pos.source.file_name());
            // clause 0: the position a cursor query answers with lies in the queried file and contains the cursor
            let sp = span_of(pos);
            if pf != f || !((sp.0, sp.1) <= (l, c) && (l, c) <= (sp.2, sp.3)) {
                nv0 += 1;
                if viol0.len() < 3 {
                    viol0.push(serde_json::json!({"clause": 0, "file": files.names[f as usize].file_name().unwrap().to_string_lossy(), "cursor": [l, c],
                        "pos": [sp.0, sp.1, sp.2, sp.3], "position_file": pos.source.file_name().file_name().unwrap().to_string_lossy(), "cursor_resolves_to": ent.describe(),
                        "text": "the position returned for a cursor query is not in the queried file or does not contain the cursor"}));
                }
            }
            hits.entry((pf, span_of(pos), ent.id().to_raw())).or_insert((pos.clone(), *ent));
        }
        iac_cache.insert((f, l, c), r);
    }
    // ---- entities to query ----
    let mut qents: BTreeMap<usize, EntRef<'_>> = BTreeMap::new();
    let cap = if is_libs { if opts.thorough { 1200 } else { 120 } } else if opts.replay { usize::MAX } else { 400 };
    {
        // the declarations of everything a cursor resolved to (clause 1 needs them all; sampled for the libraries)
        let mut hs: Vec<&(SrcPos, EntRef<'_>)> = hits.values().collect();
        if is_libs && hs.len() > cap {
            for i in 0..cap {
                let j = i + rng.below(hs.len() - i);
                hs.swap(i, j);
            }
            hs.truncate(cap);
            let keep: HashSet<(u32, Span, usize)> = hs.iter().map(|(pos, e)| (files.id(pos.source.file_name()), span_of(pos), e.id().to_raw())).collect();
            hits.retain(|k, _| keep.contains(k));
        }
        for (_, (_, e)) in hits.iter() {
            let d = decl_of(e);
            qents.insert(d.id().to_raw(), d);
            // what the language server searches: AnyEnt::declaration() of the entity under the cursor
            let d2 = e.declaration();
            add_ent(&mut ents, d2);
            qents.insert(d2.id().to_raw(), d2);
        }
    }
    {
        // every entity the recorded events mention (declared or referenced), and its declaration
        let mut cand: Vec<usize> = fo.evs.iter().filter_map(|e| e.ent).collect::<BTreeSet<_>>().into_iter().collect();
        if cand.len() > cap {
            // deterministic sample
            for i in 0..cap {
                let j = i + rng.below(cand.len() - i);
                cand.swap(i, j);
            }
            cand.truncate(cap);
        }
        for id in cand {
            if let Some(e) = ents.get(&id) {
                qents.insert(id, e);
                let d = decl_of(e);
                qents.insert(d.id().to_raw(), d);
            }
        }
    }
    // ---- oracle ----
    let mut viol: Vec<serde_json::Value> = vec![];
    let mut nv = [0usize; 3];
    let fname = |f: u32, files: &Files| files.names.get(f as usize).map(|p| p.file_name().unwrap().to_string_lossy().to_string()).unwrap_or_default();
    let mut refs_cache: HashMap<usize, Vec<SrcPos>> = HashMap::new();
    for (id, e) in qents.iter() {
        refs_cache.insert(*id, p.find_all_references(e));
    }
    let multi_lib = rec_sorted.iter().any(|f| srcs.get(f).map(|s| p.library_mapping_of(s).len() >= 2).unwrap_or(false));
    let mut ndup = 0usize;
    if !multi_lib {
        for (id, refs) in refs_cache.iter() {
            let mut seen = HashSet::new();
            for r in refs {
                if !seen.insert((r.source.file_name().to_path_buf(), span_of(r))) {
                    ndup += 1;
                    if viol0.len() < 5 {
                        let sp = span_of(r);
                        viol0.push(serde_json::json!({"clause": 4, "file": r.source.file_name().file_name().unwrap().to_string_lossy(), "pos": [sp.0, sp.1, sp.2, sp.3],
                            "entity": qents[id].describe(), "text": "find_all_references returns the same position twice"}));
                    }
                    break;
                }
            }
        }
    }
    // clause 1
    for ((pf, sp, _), (pos, ent)) in hits.iter() {
        // the implementation's own declaration() (find_declaration), as the property says
        let d = ent.declaration();
        let refs = &refs_cache[&d.id().to_raw()];
        if !refs.iter().any(|r| r == pos) {
            nv[0] += 1;
            if viol.len() < 6 {
                viol.push(serde_json::json!({"clause": 1, "file": fname(*pf, &files), "pos": [sp.0, sp.1, sp.2, sp.3],
                    "cursor_resolves_to": ent.describe(), "declaration": d.describe(), "n_refs_of_declaration": refs.len(),
                    "text": "a cursor inside this position resolves to the entity, but find_all_references(declaration) does not contain the position"}));
            }
        }
    }
    // clauses 2 and 3
    let mut n_ref_positions = 0usize;
    let mut n_inside_cursors = 0usize;
    let mut n_homonym = 0usize;
    let mut extra_cursors: Vec<(u32, u32, u32)> = vec![];
    for (id, d) in qents.iter() {
        let refs = &refs_cache[id];
        let ident = match d.designator() {
            Designator::Identifier(sym) => Some(sym.name_utf8()),
            _ => None,
        };
        let is_lib = matches!(d.kind(), AnyEntKind::Library);
        for r in refs.iter() {
            let rf = files.id(r.source.file_name());
            if !recorded.contains(&rf) || !srcs.contains_key(&rf) {
                continue;
            }
            n_ref_positions += 1;
            let sp = span_of(r);
            // clause 3: text under the position
            if let (Some(name), Some(lines)) = (&ident, line_text.get(&rf)) {
                let txt = if sp.0 == sp.2 { lines.get(sp.0 as usize).and_then(|l| utf16_slice(l, sp.1, sp.3)) } else { None };
                let ok = match &txt {
                    Some(t) => t.to_lowercase() == name.to_lowercase() || (is_lib && t.to_lowercase() == "work"),
                    None => false,
                };
                if !ok {
                    nv[2] += 1;
                    if viol.len() < 6 {
                        viol.push(serde_json::json!({"clause": 3, "file": fname(rf, &files), "pos": [sp.0, sp.1, sp.2, sp.3], "entity": d.describe(),
                            "identifier": name, "text_under_position": txt,
                            "text": "a position returned by find_all_references does not contain the entity's identifier"}));
                    }
                }
            }
            // clause 2: every cursor strictly inside (single-line positions; at most 12 per position)
            if sp.0 != sp.2 || sp.3 < sp.1 + 2 {
                continue;
            }
            if is_libs && !rng.chance(if opts.thorough { 4 } else { 1 }, 8) {
                continue;
            }
            let mut cs: Vec<u32> = (sp.1 + 1..sp.3).collect();
            if cs.len() > 12 {
                cs = vec![sp.1 + 1, sp.1 + 2, (sp.1 + sp.3) / 2, sp.3 - 2, sp.3 - 1];
            }
            for c in cs {
                n_inside_cursors += 1;
                let key = (rf, sp.0, c);
                if !iac_cache.contains_key(&key) {
                    let r2 = p.item_at_cursor(&srcs[&rf], Position::new(sp.0, c));
                    if let Some((_, e2)) = &r2 {
                        add_ent(&mut ents, e2);
                    }
                    iac_cache.insert(key, r2);
                    extra_cursors.push(key);
                }
                let mut homonym = false;
                let bad = match &iac_cache[&key] {
                    None => Some("no entity".to_string()),
                    Some((_, e2)) => {
                        if counterpart(d, e2) {
                            None
                        } else {
                            // the copy of the same declaration in another library (file mapped to several libraries)?
                            for a in [*d, decl_of(d)] {
                                for b in [*e2, decl_of(e2)] {
                                    if a.id() != b.id() && a.decl_pos().is_some() && a.decl_pos() == b.decl_pos() {
                                        homonym = true;
                                    }
                                }
                            }
                            Some(e2.describe())
                        }
                    }
                };
                if let Some(b) = bad {
                    nv[1] += 1;
                    let nlibs = p.library_mapping_of(&srcs[&rf]).len();
                    if homonym && nlibs >= 2 {
                        n_homonym += 1;
                    }
                    if viol.len() < 6 || (viol.len() < 12 && !(homonym && nlibs >= 2)) {
                        viol.push(serde_json::json!({"clause": 2, "file": fname(rf, &files), "pos": [sp.0, sp.1, sp.2, sp.3], "cursor": [sp.0, c],
                            "entity": d.describe(), "cursor_resolves_to": b, "file_libraries": nlibs, "homonym_copy": homonym,
                            "text": "a cursor strictly inside a position returned by find_all_references(entity) does not resolve to the entity or its definition/instance counterpart"}));
                    }
                }
            }
        }
    }
    cursors.extend(extra_cursors);
    // ---- emit the case: entity table, forest, queries ----
    let _ = writeln!(cases, "P {} {}", idx, pr.name);
    let mut unknown_ents = 0usize;
    {
        // entities needed by the model: those of the events and of the queries, closed under `related`
        let mut need: BTreeSet<usize> = fo.evs.iter().filter_map(|e| e.ent).collect();
        need.extend(qents.keys().copied());
        for (_, r) in iac_cache.iter() {
            if let Some((_, e)) = r {
                need.insert(e.id().to_raw());
            }
        }
        let mut todo: Vec<usize> = need.iter().copied().collect();
        while let Some(id) = todo.pop() {
            if let Some(e) = ents.get(&id) {
                let (k, t) = rel_code(e);
                if k != 0 && need.insert(t) {
                    todo.push(t);
                }
            }
        }
        for id in need {
            match ents.get(&id) {
                Some(e) => {
                    let (k, t) = rel_code(e);
                    let _ = writeln!(cases, "T {} {} {}", id, k, t);
                }
                None => {
                    unknown_ents += 1;
                }
            }
        }
    }
    let mut gap = false;
    {
        let mut stack: Vec<usize> = vec![];
        let mut cur_unit = usize::MAX;
        for (i, e) in fo.evs.iter().enumerate() {
            while let Some(&t) = stack.last() {
                if t <= i {
                    stack.pop();
                    cases.push_str(")\n");
                } else {
                    break;
                }
            }
            if e.unit != cur_unit {
                cur_unit = e.unit;
                let _ = writeln!(cases, "U {}", fo.unit_file[&e.unit]);
            }
            let guard = fo.ends[i] > i + 1;
            match e.k {
                K::With => {
                    let _ = writeln!(cases, "{} {}", if guard { "W" } else { "w" }, fmt_span(e.file, e.span));
                }
                K::Ref => {
                    let _ = writeln!(cases, "{} {} {}", if guard { "R" } else { "r" }, fmt_span(e.file, e.span), e.ent.map(|x| x.to_string()).unwrap_or("-".into()));
                }
                K::Decl => {
                    if guard {
                        gap = true; // no `return_if_finished!(search_decl(..))` site exists; the model has no such event
                    }
                    let (ent_s, dp_s) = match e.ent {
                        None => ("-".to_string(), "-".to_string()),
                        Some(id) => match ents.get(&id) {
                            Some(en) => (id.to_string(), en.decl_pos().map(|dp| fmt_span(files.id(dp.source.file_name()), span_of(dp))).unwrap_or("-".into())),
                            None => {
                                gap = true;
                                ("-".to_string(), "-".to_string())
                            }
                        },
                    };
                    let ep_s = e.end.map(|(f, s)| fmt_span(f, s)).unwrap_or("-".into());
                    let _ = writeln!(cases, "D {} {} {} ; {}", ent_s, e.dkind, dp_s, ep_s);
                }
            }
            if guard && e.k != K::Decl {
                stack.push(fo.ends[i]);
            }
        }
        for _ in stack {
            cases.push_str(")\n");
        }
    }
    // queries + implementation answers
    for &(f, l, c) in &cursors {
        let _ = writeln!(cases, "Q C {} {} {}", f, l, c);
        match &iac_cache[&(f, l, c)] {
            None => imp.push_str("N\n"),
            Some((pos, ent)) => {
                let _ = writeln!(imp, "S {} {}", fmt_span(files.id(pos.source.file_name()), span_of(pos)), ent.id().to_raw());
            }
        }
    }
    {
        // AnyEnt::declaration() of every entity a cursor resolved to and of every queried entity
        let mut dq: BTreeMap<usize, usize> = BTreeMap::new();
        for (_, (_, e)) in hits.iter() {
            dq.insert(e.id().to_raw(), e.declaration().id().to_raw());
        }
        for (id, e) in qents.iter() {
            dq.insert(*id, e.declaration().id().to_raw());
        }
        for (id, d) in dq {
            let _ = writeln!(cases, "Q D {}", id);
            let _ = writeln!(imp, "D {}", d);
        }
    }
    for (id, _) in qents.iter() {
        let _ = writeln!(cases, "Q A {}", id);
        let mut s = String::from("L");
        for r in &refs_cache[id] {
            let rf = files.id(r.source.file_name());
            if recorded.contains(&rf) {
                let _ = write!(s, " {}", fmt_span(rf, span_of(r)).replace(' ', ":"));
            }
        }
        imp.push_str(&s);
        imp.push('\n');
    }
    // well-formedness of the forest, evaluated independently of the model (sort-based)
    let wf = rust_wf(&fo, &ents, &mut files);
    let _ = writeln!(cases, "K");
    let _ = writeln!(imp, "K {}", if wf.is_none() { 1 } else { 0 });
    let _ = writeln!(cases, "E");
    let _ = writeln!(imp, "E");
    let nerr = diags.len();
    let with_guards = fo.evs.iter().enumerate().filter(|(i, e)| e.k == K::With && fo.ends[*i] > i + 1).count();
    let ref_guards = fo.evs.iter().enumerate().filter(|(i, e)| e.k == K::Ref && fo.ends[*i] > i + 1).count();
    let unresolved = fo.evs.iter().filter(|e| e.k == K::Ref && e.ent.is_none()).count();
    let mut dkinds: BTreeMap<&str, usize> = BTreeMap::new();
    for e in fo.evs.iter().filter(|e| e.k == K::Decl) {
        *dkinds.entry(DKINDS[e.dkind as usize]).or_default() += 1;
    }
    let end_idents = fo.evs.iter().filter(|e| e.end.is_some()).count();
    let oracle = serde_json::json!({
        "idx": idx, "name": pr.name, "kind": pr.kind, "diagnostics": nerr,
        "files": rec_sorted.iter().map(|f| (f.to_string(), serde_json::json!(fname(*f, &files)))).collect::<serde_json::Map<_, _>>(),
        "events": fo.evs.len(), "with_guards": with_guards, "ref_guards": ref_guards, "unresolved_refs": unresolved, "extraction_runs": fo.runs, "extraction_fallback": fo.fallback,
        "cursors": cursors.len(), "all_cursors": all_cursors, "cursor_hits": n_hit_cursors, "distinct_hits": hits.len(),
        "entities_queried": qents.len(), "reference_positions": n_ref_positions, "inside_cursors": n_inside_cursors,
        "violations": {"clause0": nv0, "clause1": nv[0], "clause2": nv[1], "clause3": nv[2], "clause4": ndup}, "clause2_homonym_copies": n_homonym,
        "multi_library_files": rec_sorted.iter().filter(|f| srcs.get(f).map(|s| p.library_mapping_of(s).len() >= 2).unwrap_or(false)).count(), "violation_samples": viol0.into_iter().chain(viol.into_iter()).collect::<Vec<_>>(),
        "unknown_entities": unknown_ents, "extraction_gap": gap, "rust_wf": wf, "decl_kinds": dkinds, "end_identifiers": end_idents,
    });
    Out { idx, cases, imp, oracle, project: replay.to_json() }
}

/// Independent (sort-based) evaluation of the forest's well-formedness; None = well formed.
fn rust_wf(fo: &Forest, ents: &HashMap<usize, EntRef<'_>>, files: &mut Files) -> Option<String> {
    let mut leaves: Vec<(u32, Span, usize, (u8, usize))> = vec![];
    let mut stack: Vec<(usize, usize)> = vec![];
    for (i, e) in fo.evs.iter().enumerate() {
        while let Some(&(t, _)) = stack.last() {
            if t <= i {
                stack.pop();
            } else {
                break;
            }
        }
        let uf = fo.unit_file[&e.unit];
        let mut ls: Vec<(u32, Span, usize)> = vec![];
        match (e.k, e.ent) {
            (K::Ref, Some(id)) => ls.push((e.file, e.span, id)),
            (K::Decl, Some(id)) => {
                if let Some(en) = ents.get(&id) {
                    if let Some(dp) = en.decl_pos() {
                        ls.push((files.id(dp.source.file_name()), span_of(dp), id));
                    }
                    if let Some((f, s)) = e.end {
                        ls.push((f, s, id));
                    }
                }
            }
            _ => {}
        }
        for (f, s, id) in ls {
            if f != uf {
                return Some(format!("event {i}: position {:?} of file {} reported by a unit of file {}", s, f, uf));
            }
            for &(_, j) in &stack {
                let w = &fo.evs[j];
                match w.k {
                    K::With => {
                        if !((w.span.0, w.span.1) <= (s.0, s.1) && (s.2, s.3) <= (w.span.2, w.span.3)) {
                            return Some(format!("event {i}: position {:?} (file {}) is not inside the enclosing search_with_pos span {:?}", s, f, w.span));
                        }
                    }
                    K::Ref => {
                        if w.ent.is_none() && !((w.span.2, w.span.3) <= (s.0, s.1) || (s.2, s.3) <= (w.span.0, w.span.1)) {
                            return Some(format!("event {i}: position {:?} overlaps the unresolved guarding reference {:?}", s, w.span));
                        }
                    }
                    K::Decl => {}
                }
            }
            let rel = ents.get(&id).map(|e| rel_code(e)).unwrap_or((9, 0));
            leaves.push((f, s, id, rel));
        }
        if fo.ends[i] > i + 1 {
            stack.push((fo.ends[i], i));
        }
    }
    leaves.sort();
    for w in leaves.windows(2) {
        let (a, b) = (&w[0], &w[1]);
        if a.0 != b.0 {
            continue;
        }
        if (a.1 .2, a.1 .3) <= (b.1 .0, b.1 .1) {
            continue;
        }
        if a.1 == b.1 && a.2 == b.2 && a.3 == b.3 {
            continue;
        }
        return Some(format!("file {}: positions {:?} (entity {}) and {:?} (entity {}) overlap", a.0, a.1, a.2, b.1, b.2));
    }
    None
}

fn libs_project() -> Proj {
    // no own files: the project consists of the bundled libraries (std, ieee)
    Proj { name: "vhdl_libraries".into(), kind: "libs".into(), ieee: true, files: vec![], history: vec![] }
}

fn main() {
    std::panic::set_hook(Box::new(|_| {}));
    let args: Vec<String> = std::env::args().collect();
    if args.len() >= 3 && args[1] == "show" {
        let v: serde_json::Value = serde_json::from_str(&std::fs::read_to_string(&args[2]).unwrap()).unwrap();
        let pr = Proj::from_json(v.get("project").unwrap_or(&v)).unwrap();
        for out in process(&pr, 0, "/verif/.cache/run/C08/show", &Opts { thorough: false, replay: true }, &mut Rng::new(1)) {
            print!("{}", out.cases.lines().filter(|l| !l.starts_with("Q ")).collect::<Vec<_>>().join("\n"));
            println!("\n{}", serde_json::to_string_pretty(&out.oracle).unwrap());
        }
        return;
    }
    if args.len() >= 4 && args[1] == "gen" {
        // c08 gen <seed> <n>: print generated projects as JSON lines (for inspection)
        let mut rng = Rng::new(args[2].parse().unwrap());
        for k in 0..args[3].parse::<usize>().unwrap() {
            let mut r = rng.fork();
            let base = gen_base(&mut r, k);
            println!("{}", serde_json::to_string(&base.to_json()).unwrap());
        }
        return;
    }
    if args.len() < 6 || args[1] != "run" {
        eprintln!("usage: c08 run <seed> <n_generated> <outdir> <quick|thorough> [corpus.jsonl] [--replay file.json]");
        std::process::exit(2);
    }
    let seed: u64 = args[2].parse().unwrap();
    let n: usize = args[3].parse().unwrap();
    let outdir = args[4].clone();
    let thorough = args[5] == "thorough";
    let mut projects: Vec<Proj> = vec![];
    let mut replay = false;
    let mut i = 6;
    let mut corpus: Option<String> = None;
    while i < args.len() {
        if args[i] == "--replay" {
            replay = true;
            let v: serde_json::Value = serde_json::from_str(&std::fs::read_to_string(&args[i + 1]).unwrap()).unwrap();
            let pj = v.get("project").unwrap_or(&v);
            projects.push(if pj.get("kind").and_then(|k| k.as_str()) == Some("libs") { libs_project() } else { Proj::from_json(pj).expect("replay file without project") });
            i += 2;
        } else {
            corpus = Some(args[i].clone());
            i += 1;
        }
    }
    if !replay {
        projects.push(libs_project());
        if let Some(c) = corpus {
            if let Ok(t) = std::fs::read_to_string(&c) {
                for (k, line) in t.lines().enumerate() {
                    if line.trim().is_empty() || line.starts_with('#') {
                        continue;
                    }
                    if let Ok(v) = serde_json::from_str::<serde_json::Value>(line) {
                        if let Some(mut p) = Proj::from_json(&v) {
                            p.kind = format!("corpus:{}", p.kind);
                            if p.name.is_empty() {
                                p.name = format!("corpus{k}");
                            }
                            projects.push(p);
                        }
                    }
                }
            }
        }
        let mut rng = Rng::new(seed);
        let mut k = 0;
        while k < n {
            let mut r = rng.fork();
            let base = gen_base(&mut r, k);
            let nm = 1 + r.below(2);
            projects.push(base.clone());
            k += 1;
            for _ in 0..nm {
                if k < n {
                    projects.push(mutate(&mut r, &base, k));
                    k += 1;
                }
            }
        }
    }
    if !replay {
        // duplicate design units across files + edit histories
        let mut rng = Rng::new(seed ^ 0x5eed_d0b1);
        let nd = if thorough { 40 } else { 7 };
        for k in 0..nd {
            let mut r = rng.fork();
            projects.push(gen_dup(&mut r, k));
        }
    }
    std::fs::create_dir_all(&outdir).unwrap();
    let next = AtomicUsize::new(0);
    let outs: Mutex<Vec<Out>> = Mutex::new(vec![]);
    let opts = Opts { thorough, replay };
    let nthreads = std::thread::available_parallelism().map(|x| x.get()).unwrap_or(4).min(16);
    std::thread::scope(|s| {
        for _ in 0..nthreads {
            s.spawn(|| loop {
                let i = next.fetch_add(1, Ordering::SeqCst);
                if i >= projects.len() {
                    break;
                }
                let pr = &projects[i];
                let mut rng = Rng::new(seed.wrapping_mul(1000003).wrapping_add(i as u64));
                let r = std::panic::catch_unwind(std::panic::AssertUnwindSafe(|| process(pr, i, &outdir, &opts, &mut rng)));
                let out = match r {
                    Ok(o) => o,
                    Err(e) => {
                        let msg = e.downcast_ref::<String>().cloned().or_else(|| e.downcast_ref::<&str>().map(|s| s.to_string())).unwrap_or_default();
                        vec![Out { idx: i * 64, cases: String::new(), imp: String::new(), project: pr.to_json(), oracle: serde_json::json!({"idx": i * 64, "name": pr.name, "kind": pr.kind, "panic": msg}) }]
                    }
                };
                outs.lock().unwrap().extend(out);
            });
        }
    });
    let mut outs = outs.into_inner().unwrap();
    outs.sort_by_key(|o| o.idx);
    let mut cases = String::new();
    let mut imp = String::new();
    let mut oracle = String::new();
    let mut pj = String::new();
    for o in &outs {
        cases.push_str(&o.cases);
        imp.push_str(&o.imp);
        oracle.push_str(&serde_json::to_string(&o.oracle).unwrap());
        oracle.push('\n');
        pj.push_str(&serde_json::to_string(&o.project).unwrap());
        pj.push('\n');
    }
    std::fs::write(format!("{outdir}/cases.txt"), cases).unwrap();
    std::fs::write(format!("{outdir}/impl.txt"), imp).unwrap();
    std::fs::write(format!("{outdir}/oracle.jsonl"), oracle).unwrap();
    std::fs::write(format!("{outdir}/projects.jsonl"), pj).unwrap();
    println!("projects {}", outs.len());
}
