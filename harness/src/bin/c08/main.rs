mod extract;
use extract::*;
use std::path::Path;
use std::time::Instant;
use vhdl_lang::{Config, MessagePrinter, NullMessages, Project, Source};

fn mk(dir: &str, toml: &str) -> Project {
    let mut msgs = NullMessages;
    let mut cfg = Config::default();
    cfg.load_external_config(&mut msgs, Some("/repo/vhdl_libraries".to_string()));
    let c2 = Config::from_str(toml, Path::new(dir)).unwrap();
    cfg.append(&c2, &mut msgs);
    Project::from_config(cfg, &mut msgs)
}

fn main() {
    let args: Vec<String> = std::env::args().collect();
    let t0 = Instant::now();
    let mut p = if args.len() > 2 { mk(&args[2], &std::fs::read_to_string(format!("{}/vhdl_ls.toml", args[2])).unwrap()) } else { mk("/verif/.cache/scratch/C08", "[libraries]\n") };
    let d = p.analyse();
    for x in &d { println!("{}:{:?} {:?} {}", x.pos.source.file_name().display(), x.pos.range.start, x.code, x.message); }
    println!("load+analyse {:?} diags {}", t0.elapsed(), d.len());
    let mut files = Files::default();
    let t1 = Instant::now();
    let all = args[1] == "all";
    let pat = args[1].clone();
    let fo = extract(&p, &mut files, &|f| all || f.to_string_lossy().contains(&pat)).unwrap();
    println!("extract {:?}: {} events ({} in all units), runs {}, fallback {}", t1.elapsed(), fo.evs.len(), fo.total_events_all_units, fo.runs, fo.fallback);
    let mut nw = 0;
    let mut nguard = 0;
    let mut refguard = 0;
    for (i, e) in fo.evs.iter().enumerate() {
        if e.k == K::With {
            nw += 1;
        }
        if fo.ends[i] > i + 1 {
            nguard += 1;
            if e.k != K::With {
                refguard += 1;
                println!("non-with guard: {:?} guards {}", e, fo.ends[i] - i - 1);
            }
        }
    }
    println!("with {} guarding {} refguards {}", nw, nguard, refguard);
    explore(&p, &fo, &files);
    if args[1] != "all" {
        let mut depth: Vec<usize> = vec![];
        for (i, e) in fo.evs.iter().enumerate() {
            while let Some(&t) = depth.last() {
                if t <= i {
                    depth.pop();
                } else {
                    break;
                }
            }
            println!("{}{:?} {:?} ent={:?} dk={} end={:?}", "  ".repeat(depth.len()), e.k, e.span, e.ent, if e.k == K::Decl { DKINDS[e.dkind as usize] } else { "" }, e.end);
            depth.push(fo.ends[i]);
        }
    }
}

use std::collections::HashMap;
use vhdl_lang::{EntRef, Related};
fn explore(p: &Project, fo: &Forest, files: &Files) {
    let mut ents: HashMap<usize, EntRef<'_>> = HashMap::new();
    fn add<'a>(ents: &mut HashMap<usize, EntRef<'a>>, e: EntRef<'a>) {
        let mut todo = vec![e];
        while let Some(e) = todo.pop() {
            if ents.insert(e.id().to_raw(), e).is_some() { continue; }
            match e.related {
                Related::ImplicitOf(o) | Related::InstanceOf(o) | Related::DeclaredBy(o) | Related::DerivedFrom(o) => todo.push(o),
                Related::None => {}
            }
            if let Some(p) = e.parent { todo.push(p); }
            for i in &e.implicits { todo.push(i); }
        }
    }
    for f in files.names.iter() {
        if let Some(src) = p.get_source(f) {
            for (_, e) in p.find_all_entity_references(&src) {
                add(&mut ents, e);
            }
            for lib in p.library_mapping_of(&src) {
                for (h, _) in p.document_symbols(&lib, &src) {
                    for e in h.into_flat() { add(&mut ents, e); }
                }
            }
        }
    }
    let mut missing = 0;
    let mut leaves: HashMap<u32, Vec<(Span, Option<usize>, usize)>> = HashMap::new();
    let mut otherfile = 0;
    let mut stack: Vec<(usize, usize)> = vec![];
    let mut notinside = 0;
    for (i, e) in fo.evs.iter().enumerate() {
        while let Some(&(t, _)) = stack.last() { if t <= i { stack.pop(); } else { break; } }
        let uf = fo.unit_file[&e.unit];
        let mut ls: Vec<(u32, Span, Option<usize>)> = vec![];
        match e.k {
            K::With => {}
            K::Ref => ls.push((e.file, e.span, e.ent)),
            K::Decl => {
                if let Some(id) = e.ent {
                    match ents.get(&id) {
                        None => { missing += 1; if missing < 10 { println!("missing ent {:?}", e); } }
                        Some(en) => { if let Some(dp) = en.decl_pos() { let fid = files.ids.get(dp.source.file_name()).copied().unwrap_or(9999); ls.push((fid, span_of(dp), Some(id))); } else { println!("decl without decl_pos {:?} {}", e, en.describe()); } }
                    }
                    if let Some((f, s)) = e.end { ls.push((f, s, Some(id))); }
                }
            }
        }
        for (f, s, t) in ls {
            if f != uf { otherfile += 1; if otherfile < 10 { println!("leaf in other file: {:?} {:?} unitfile {:?} leaf file {:?}", e, s, files.names[uf as usize], files.names.get(f as usize)); } continue; }
            for &(_, j) in &stack {
                let w = &fo.evs[j];
                if w.k == K::With {
                    let ok = (w.span.0, w.span.1) <= (s.0, s.1) && (s.2, s.3) <= (w.span.2, w.span.3);
                    if !ok { notinside += 1; if notinside < 20 { println!("leaf {:?} {:?} not inside with {:?} file {:?}", e.k, s, w.span, files.names[uf as usize]); } }
                } else {
                    println!("under refguard {:?}: {:?}", w.span, s);
                }
            }
            leaves.entry(f).or_default().push((s, t, i));
        }
        stack.push((fo.ends[i], i));
    }
    println!("missing ents {} otherfile {} notinside {}", missing, otherfile, notinside);
    let mut overl = 0; let mut eqdiff = 0;
    for (f, v) in leaves.iter_mut() {
        v.sort();
        for a in 0..v.len() {
            let mut b = a + 1;
            while b < v.len() && (v[b].0.0, v[b].0.1) < (v[a].0.2, v[a].0.3) {
                if v[a].0 == v[b].0 {
                    if v[a].1 != v[b].1 { eqdiff += 1; if eqdiff < 40 { println!("equal pos different target {:?}: {:?} {:?} / {:?} {:?}", files.names[*f as usize], v[a], v[a].1.and_then(|i| ents.get(&i)).map(|e| e.describe()), v[b], v[b].1.and_then(|i| ents.get(&i)).map(|e| e.describe())); } }
                } else { overl += 1; if overl < 20 { println!("overlap {:?}: {:?} {:?}", files.names[*f as usize], v[a], v[b]); } }
                b += 1;
            }
        }
    }
    println!("overlaps {} equal-diff {}", overl, eqdiff);
}
