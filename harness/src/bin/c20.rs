use std::path::Path;
use vhdl_lang::{Config, NullMessages, Project, Source};
fn main() {
    let args: Vec<String> = std::env::args().collect();
    let dir = Path::new(&args[1]).parent().unwrap().to_str().unwrap().to_string();
    let fname = Path::new(&args[1]).file_name().unwrap().to_str().unwrap().to_string();
    let mut msgs = NullMessages;
    let mut cfg = Config::default();
    cfg.load_external_config(&mut msgs, Some("/repo/vhdl_libraries".to_string()));
    let toml = format!("[libraries]\nlib.files=['{}']\n", fname);
    cfg.append(&Config::from_str(&toml, Path::new(&dir)).unwrap(), &mut msgs);
    let t0 = std::time::Instant::now();
    let mut p = Project::from_config(cfg, &mut msgs);
    p.enable_sensitivity_list_linting();
    for x in p.analyse() {
        println!("{}:{}-{}:{} {:?} {}", x.pos.range.start.line + 1, x.pos.range.start.character, x.pos.range.end.line + 1, x.pos.range.end.character, x.code, x.message);
        for (pos, m) in x.related.iter() {
            println!("      related {}:{}-{}:{} {}", pos.range.start.line + 1, pos.range.start.character, pos.range.end.line+1, pos.range.end.character, m);
        }
    }
    eprintln!("{:?}", t0.elapsed());
}
