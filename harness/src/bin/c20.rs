//! C20 harness: sensitivity-list lint on generated processes.
//!
//! usage: c20 <mode> <seed> <n> <workdir> <cases_out> <impl_out>
//!   mode = random[:depth] | file:<path> | corpus | hist | histcorpus | histfile:<path>   (hist*: see c20/hist.rs)
//!     random : n generated processes (written to <cases_out>, every 97th also as a Gallina term to <cases_out>.coq)
//!     file   : the case lines of <path> are re-run (replay / committed corpus)
//!     corpus : writes the built-in hand-made corpus (F14, F15, F20, observations) to <cases_out> and runs it
//! case line (TAB separated): id, flags, text (lines joined by '~'), oracle, root, ast  — see ocaml/c20_run.ml
//!   flags: F in-family (generator's claim) | X outside the family | O has a signal actual of an out-mode formal |
//!          H oracle not applicable (heuristic boundary: one-argument boolean function in an inspected condition,
//!          clock edge in an uninspected branch, duplicate list entries) | c explicit list, k clocked, a `all`, n no list
//!   oracle: `M<kw>:<id>@<a>-<b>,..;S<a>-<b>;..;?S<a>-<b>;?M<id>` expected diagnostics from the generator's own read
//!          log (textual order, first read per signal), `?` = don't care (record signal only read through an element)
//! impl line: the diagnostics of `Project::analyse()` mapped back to the process: `M<a>-<b>:<id>@<a>-<b>,..;S<a>-<b>;..`
//!   (superfluous sorted), `E:<..>` for anything unexpected.
use std::collections::{HashMap, HashSet};
use std::fmt::Write as _;
use std::io::Write as _;
use std::path::Path;
use verif_harness::rng::Rng;
use vhdl_lang::{Config, Diagnostic, NullMessages, Project};

type Sp = (u32, u32);

#[derive(Clone, Debug)]
enum E {
    Lit(Sp),
    Desig(Sp, Option<u32>),
    Selected(Sp, Box<E>, Option<u32>),
    Slice(Sp, Box<E>, Vec<E>),
    Attr(Sp, Box<E>, u8, Option<Box<E>>),
    Call(Sp, Box<E>, Vec<E>),
    Unary(Sp, Box<E>),
    Binary(Sp, Box<E>, Box<E>),
    Aggregate(Sp, Vec<E>),
    Qualified(Sp, Box<E>),
    Paren(Sp, Box<E>),
}
impl E {
    fn sp(&self) -> Sp {
        match self {
            E::Lit(s) | E::Desig(s, _) | E::Selected(s, _, _) | E::Slice(s, _, _) | E::Attr(s, _, _, _)
            | E::Call(s, _, _) | E::Unary(s, _) | E::Binary(s, _, _) | E::Aggregate(s, _) | E::Qualified(s, _)
            | E::Paren(s, _) => *s,
        }
    }
    fn primary(&self) -> bool {
        !matches!(self, E::Unary(..) | E::Binary(..))
    }
}
#[derive(Clone, Debug)]
enum Rg {
    Range(E, E),
    Attr(E),
}
#[derive(Clone, Debug)]
enum Dr {
    Subtype(E, Option<Rg>),
    Range(Rg),
}
#[derive(Clone, Debug)]
enum Rhs<A> {
    Simple(A),
    Conditional(Vec<(A, E)>, Option<A>),
    Selected(E, Vec<A>),
}
type Wave = Option<Vec<(E, Option<E>)>>;
#[derive(Clone, Debug)]
enum It {
    For(Dr),
    While(E),
    None,
}
#[derive(Clone, Debug)]
enum S {
    SigAssign(E, Rhs<Wave>),
    VarAssign(E, Rhs<E>),
    Force(E, Rhs<E>),
    Release(E),
    If(Vec<(E, Vec<S>)>, Vec<S>),
    Case(E, Vec<Vec<S>>),
    Loop(It, Vec<S>),
    /// callee, association elements: (mode of the formal, formal part of a named association, actual)
    Call(Sp, E, Vec<(char, Option<E>, E)>),
    Assert(E, Option<E>, Option<E>),
    Report(E, Option<E>),
    Next(Option<E>),
    Exit(Option<E>),
    Null,
    Wait(Vec<E>, Option<E>, Option<E>),
}
#[derive(Clone, Debug)]
enum Sens {
    None,
    All,
    Names(Vec<E>),
}
#[derive(Clone, Debug)]
struct Proc {
    kw: Sp,
    sens: Sens,
    body: Vec<S>,
}

// ---------------------------------------------------------------- token format for ocaml/c20_run.ml
fn ser_e(e: &E, o: &mut String) {
    match e {
        E::Lit(s) => write!(o, "L {} {} ", s.0, s.1).unwrap(),
        E::Desig(s, Some(i)) => write!(o, "D {} {} {} ", s.0, s.1, i).unwrap(),
        E::Desig(s, None) => write!(o, "U {} {} ", s.0, s.1).unwrap(),
        E::Selected(s, p, d) => {
            write!(o, "S {} {} ", s.0, s.1).unwrap();
            ser_e(p, o);
            match d {
                Some(i) => write!(o, "d {} ", i).unwrap(),
                None => o.push_str("u "),
            }
        }
        E::Slice(s, p, b) => {
            write!(o, "I {} {} ", s.0, s.1).unwrap();
            ser_e(p, o);
            write!(o, "{} ", b.len()).unwrap();
            b.iter().for_each(|x| ser_e(x, o));
        }
        E::Attr(s, p, k, a) => {
            write!(o, "A {} {} ", s.0, s.1).unwrap();
            ser_e(p, o);
            write!(o, "{} ", k).unwrap();
            ser_oe(a.as_deref(), o);
        }
        E::Call(s, p, a) => {
            write!(o, "C {} {} ", s.0, s.1).unwrap();
            ser_e(p, o);
            write!(o, "{} ", a.len()).unwrap();
            a.iter().for_each(|x| ser_e(x, o));
        }
        E::Unary(s, x) => {
            write!(o, "N {} {} ", s.0, s.1).unwrap();
            ser_e(x, o)
        }
        E::Binary(s, l, r) => {
            write!(o, "B {} {} ", s.0, s.1).unwrap();
            ser_e(l, o);
            ser_e(r, o)
        }
        E::Aggregate(s, es) => {
            write!(o, "G {} {} {} ", s.0, s.1, es.len()).unwrap();
            es.iter().for_each(|x| ser_e(x, o));
        }
        E::Qualified(s, x) => {
            write!(o, "Q {} {} ", s.0, s.1).unwrap();
            ser_e(x, o)
        }
        E::Paren(s, x) => {
            write!(o, "P {} {} ", s.0, s.1).unwrap();
            ser_e(x, o)
        }
    }
}
fn ser_oe(e: Option<&E>, o: &mut String) {
    match e {
        Some(x) => {
            o.push_str("1 ");
            ser_e(x, o)
        }
        None => o.push_str("0 "),
    }
}
fn ser_rg(r: &Rg, o: &mut String) {
    match r {
        Rg::Range(l, h) => {
            o.push_str("r ");
            ser_e(l, o);
            ser_e(h, o)
        }
        Rg::Attr(a) => {
            o.push_str("a ");
            ser_e(a, o)
        }
    }
}
fn ser_dr(d: &Dr, o: &mut String) {
    match d {
        Dr::Subtype(tm, r) => {
            o.push_str("s ");
            ser_e(tm, o);
            match r {
                Some(r) => {
                    o.push_str("1 ");
                    ser_rg(r, o)
                }
                None => o.push_str("0 "),
            }
        }
        Dr::Range(r) => {
            o.push_str("g ");
            ser_rg(r, o)
        }
    }
}
fn ser_wave(w: &Wave, o: &mut String) {
    match w {
        None => o.push_str("u "),
        Some(els) => {
            write!(o, "w {} ", els.len()).unwrap();
            for (v, a) in els {
                ser_e(v, o);
                ser_oe(a.as_ref(), o);
            }
        }
    }
}
fn ser_rhs<A>(r: &Rhs<A>, f: &dyn Fn(&A, &mut String), o: &mut String) {
    match r {
        Rhs::Simple(a) => {
            o.push_str("x ");
            f(a, o)
        }
        Rhs::Conditional(cs, els) => {
            write!(o, "c {} ", cs.len()).unwrap();
            for (a, c) in cs {
                f(a, o);
                ser_e(c, o);
            }
            match els {
                Some(a) => {
                    o.push_str("1 ");
                    f(a, o)
                }
                None => o.push_str("0 "),
            }
        }
        Rhs::Selected(sel, alts) => {
            o.push_str("l ");
            ser_e(sel, o);
            write!(o, "{} ", alts.len()).unwrap();
            alts.iter().for_each(|a| f(a, o));
        }
    }
}
fn ser_ss(ss: &[S], o: &mut String) {
    write!(o, "{} ", ss.len()).unwrap();
    ss.iter().for_each(|s| ser_s(s, o));
}
fn ser_s(s: &S, o: &mut String) {
    match s {
        S::SigAssign(t, r) => {
            o.push_str("sa ");
            ser_e(t, o);
            ser_rhs(r, &|w, o| ser_wave(w, o), o)
        }
        S::VarAssign(t, r) => {
            o.push_str("va ");
            ser_e(t, o);
            ser_rhs(r, &|e, o| ser_e(e, o), o)
        }
        S::Force(t, r) => {
            o.push_str("fo ");
            ser_e(t, o);
            ser_rhs(r, &|e, o| ser_e(e, o), o)
        }
        S::Release(t) => {
            o.push_str("re ");
            ser_e(t, o)
        }
        S::If(bs, els) => {
            write!(o, "if {} ", bs.len()).unwrap();
            for (c, b) in bs {
                ser_e(c, o);
                ser_ss(b, o);
            }
            ser_ss(els, o)
        }
        S::Case(sel, alts) => {
            o.push_str("ca ");
            ser_e(sel, o);
            write!(o, "{} ", alts.len()).unwrap();
            alts.iter().for_each(|a| ser_ss(a, o));
        }
        S::Loop(it, b) => {
            o.push_str("lo ");
            match it {
                It::For(d) => {
                    o.push_str("f ");
                    ser_dr(d, o)
                }
                It::While(c) => {
                    o.push_str("w ");
                    ser_e(c, o)
                }
                It::None => o.push_str("n "),
            }
            ser_ss(b, o)
        }
        S::Call(sp, p, args) => {
            write!(o, "pc {} {} ", sp.0, sp.1).unwrap();
            ser_e(p, o);
            write!(o, "{} ", args.len()).unwrap();
            for (m, f, a) in args {
                write!(o, "{} ", m).unwrap();
                ser_oe(f.as_ref(), o);
                ser_e(a, o);
            }
        }
        S::Assert(c, r, v) => {
            o.push_str("as ");
            ser_e(c, o);
            ser_oe(r.as_ref(), o);
            ser_oe(v.as_ref(), o)
        }
        S::Report(m, v) => {
            o.push_str("rp ");
            ser_e(m, o);
            ser_oe(v.as_ref(), o)
        }
        S::Next(c) => {
            o.push_str("nx ");
            ser_oe(c.as_ref(), o)
        }
        S::Exit(c) => {
            o.push_str("ex ");
            ser_oe(c.as_ref(), o)
        }
        S::Null => o.push_str("nu "),
        S::Wait(ons, u, f) => {
            write!(o, "wt {} ", ons.len()).unwrap();
            ons.iter().for_each(|e| ser_e(e, o));
            ser_oe(u.as_ref(), o);
            ser_oe(f.as_ref(), o)
        }
    }
}
fn ser_proc(p: &Proc) -> String {
    let mut o = String::new();
    write!(o, "{} {} ", p.kw.0, p.kw.1).unwrap();
    match &p.sens {
        Sens::None => o.push_str("n "),
        Sens::All => o.push_str("a "),
        Sens::Names(ns) => {
            write!(o, "l {} ", ns.len()).unwrap();
            ns.iter().for_each(|e| ser_e(e, &mut o));
        }
    }
    ser_ss(&p.body, &mut o);
    o.trim_end().to_string()
}

// ---------------------------------------------------------------- Gallina terms (in-Coq sample)
fn csp(s: &Sp) -> String {
    format!("({},{})", s.0, s.1)
}
fn clist(v: Vec<String>) -> String {
    format!("[{}]", v.join("; "))
}
fn coe(e: Option<&E>) -> String {
    match e {
        Some(x) => format!("(Some {})", ce(x)),
        None => "None".into(),
    }
}
fn ce(e: &E) -> String {
    match e {
        E::Lit(s) => format!("(ELit {})", csp(s)),
        E::Desig(s, Some(i)) => format!("(EDesig {} (Some {}))", csp(s), i),
        E::Desig(s, None) => format!("(EDesig {} None)", csp(s)),
        E::Selected(s, p, d) => format!(
            "(ESelected {} {} {})",
            csp(s),
            ce(p),
            match d {
                Some(i) => format!("(Some {})", i),
                None => "None".into(),
            }
        ),
        E::Slice(s, p, b) => format!("(ESlice {} {} {})", csp(s), ce(p), clist(b.iter().map(ce).collect())),
        E::Attr(s, p, k, a) => format!(
            "(EAttr {} {} {} {})",
            csp(s),
            ce(p),
            ["AkImage", "AkEvent", "AkOther"][*k as usize],
            coe(a.as_deref())
        ),
        E::Call(s, p, a) => format!("(ECall {} {} {})", csp(s), ce(p), clist(a.iter().map(ce).collect())),
        E::Unary(s, x) => format!("(EUnary {} {})", csp(s), ce(x)),
        E::Binary(s, l, r) => format!("(EBinary {} {} {})", csp(s), ce(l), ce(r)),
        E::Aggregate(s, es) => format!("(EAggregate {} {})", csp(s), clist(es.iter().map(ce).collect())),
        E::Qualified(s, x) => format!("(EQualified {} {})", csp(s), ce(x)),
        E::Paren(s, x) => format!("(EParen {} {})", csp(s), ce(x)),
    }
}
fn crg(r: &Rg) -> String {
    match r {
        Rg::Range(l, h) => format!("(RRange {} {})", ce(l), ce(h)),
        Rg::Attr(a) => format!("(RAttr {})", ce(a)),
    }
}
fn cwave(w: &Wave) -> String {
    match w {
        None => "None".into(),
        Some(els) => format!(
            "(Some {})",
            clist(els.iter().map(|(v, a)| format!("({}, {})", ce(v), coe(a.as_ref()))).collect())
        ),
    }
}
fn crhs<A>(r: &Rhs<A>, f: &dyn Fn(&A) -> String) -> String {
    match r {
        Rhs::Simple(a) => format!("(RSimple {})", f(a)),
        Rhs::Conditional(cs, els) => format!(
            "(RConditional {} {})",
            clist(cs.iter().map(|(a, c)| format!("({}, {})", f(a), ce(c))).collect()),
            match els {
                Some(a) => format!("(Some {})", f(a)),
                None => "None".into(),
            }
        ),
        Rhs::Selected(sel, alts) => format!("(RSelected {} {})", ce(sel), clist(alts.iter().map(f).collect())),
    }
}
fn css(ss: &[S]) -> String {
    clist(ss.iter().map(cs).collect())
}
fn cs(s: &S) -> String {
    match s {
        S::SigAssign(t, r) => format!("(SSigAssign {} {})", ce(t), crhs(r, &cwave)),
        S::VarAssign(t, r) => format!("(SVarAssign {} {})", ce(t), crhs(r, &ce)),
        S::Force(t, r) => format!("(SForce {} {})", ce(t), crhs(r, &ce)),
        S::Release(t) => format!("(SRelease {})", ce(t)),
        S::If(bs, els) => format!(
            "(SIf {} {})",
            clist(bs.iter().map(|(c, b)| format!("({}, {})", ce(c), css(b))).collect()),
            css(els)
        ),
        S::Case(sel, alts) => format!("(SCase {} {})", ce(sel), clist(alts.iter().map(|a| css(a)).collect())),
        S::Loop(it, b) => format!(
            "(SLoop {} {})",
            match it {
                It::For(Dr::Subtype(tm, r)) => format!(
                    "(IFor (DSubtype {} {}))",
                    ce(tm),
                    match r {
                        Some(r) => format!("(Some {})", crg(r)),
                        None => "None".into(),
                    }
                ),
                It::For(Dr::Range(r)) => format!("(IFor (DRange {}))", crg(r)),
                It::While(c) => format!("(IWhile {})", ce(c)),
                It::None => "INone".into(),
            },
            css(b)
        ),
        S::Call(sp, p, args) => format!(
            "(SCall {} {} {})",
            csp(sp),
            ce(p),
            clist(
                args.iter()
                    .map(|(m, f, a)| format!(
                        "(mkAssoc {} {} {})",
                        match m {
                            'i' => "MIn",
                            'o' => "MOut",
                            _ => "MInOut",
                        },
                        coe(f.as_ref()),
                        ce(a)
                    ))
                    .collect()
            )
        ),
        S::Assert(c, r, v) => format!("(SAssert {} {} {})", ce(c), coe(r.as_ref()), coe(v.as_ref())),
        S::Report(m, v) => format!("(SReport {} {})", ce(m), coe(v.as_ref())),
        S::Next(c) => format!("(SNext {})", coe(c.as_ref())),
        S::Exit(c) => format!("(SExit {})", coe(c.as_ref())),
        S::Null => "SNull".into(),
        S::Wait(ons, u, f) => format!(
            "(SWait {} {} {})",
            clist(ons.iter().map(ce).collect()),
            coe(u.as_ref()),
            coe(f.as_ref())
        ),
    }
}
fn cproc(p: &Proc) -> String {
    format!(
        "(mkProcess {} {} {})",
        csp(&p.kw),
        match &p.sens {
            Sens::None => "None".to_string(),
            Sens::All => "(Some SensAll)".to_string(),
            Sens::Names(ns) => format!("(Some (SensNames {}))", clist(ns.iter().map(ce).collect())),
        },
        css(&p.body)
    )
}

include!("c20/gen.rs");
include!("c20/run.rs");
include!("c20/hist.rs");
