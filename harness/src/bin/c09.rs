//! C09 helper: semantic snapshot of a project, used before and after a rename.
//!
//! usage: c09 <jobs.json> <out.jsonl>
//!   jobs.json = [{"dir": "<workspace dir with vhdl_ls.toml>", "files": [absolute paths of the project files], "open": ["<file opened by the client (UTF-8 text)>", ...],
//!                 "full": true|false, "libs": "<directory holding the vhdl_ls.toml of the standard libraries>"}]
//! For every job one JSON line:
//!   diags   : diagnostics of Project::analyse (all linters on, like the server)
//!   refmap  : for every project file, every (position, entity) of Project::find_all_entity_references with the
//!             declaration position of the entity, its designator kind/text and, when "full", the answers of
//!             item_at_cursor / find_declaration with the cursor at the start of the position
//!   answers : for every cursor of "queries" ([file, line, character]): item_at_cursor (range, designator kind),
//!             find_declaration and find_all_references of it -- the three project calls of rename.rs
//!   decls   : for every entity `d = ent.declaration()` met in the reference map, Project::find_all_references(d)
//!             in the order the implementation returns them (duplicates kept)
//! Files are loaded exactly like the server does: from disk as Latin-1 through the configuration; the files named in
//! "open" are then replaced by their UTF-8 text (what `textDocument/didOpen` does).
use serde_json::{json, Value};
use std::collections::BTreeMap;
use std::path::{Path, PathBuf};
use vhdl_lang::ast::Designator;
use vhdl_lang::{AnyEntKind, Config, EntRef, MessagePrinter, NullMessages, Project, Source, SrcPos};

fn rng(p: &SrcPos) -> Value {
    let r = p.range();
    json!([r.start.line, r.start.character, r.end.line, r.end.character])
}
fn loc(p: &SrcPos) -> Value {
    json!([p.source.file_name().display().to_string(), rng(p)])
}
fn desig(e: EntRef<'_>) -> (String, String) {
    match e.designator() {
        Designator::Identifier(s) => ("I".into(), s.name_utf8()),
        Designator::OperatorSymbol(o) => ("O".into(), format!("{}", o)),
        Designator::Character(c) => ("C".into(), format!("{}", *c as char)),
        Designator::Anonymous(n) => ("A".into(), format!("{}", n)),
    }
}

fn snapshot(job: &Value) -> Value {
    let dir = job["dir"].as_str().unwrap().to_string();
    let full = job["full"].as_bool().unwrap_or(false);
    let mut msgs = NullMessages;
    let mut cfg = Config::default();
    let libs = job["libs"].as_str().unwrap_or("/repo/vhdl_libraries").to_string();
    cfg.load_external_config(&mut msgs, Some(libs));
    let local = match Config::read_file_path(&Path::new(&dir).join("vhdl_ls.toml")) {
        Ok(c) => c,
        Err(e) => return json!({"dir": dir, "error": format!("config: {e}")}),
    };
    cfg.append(&local, &mut msgs);
    let mut p = Project::from_config(cfg, &mut msgs);
    p.enable_all_linters();
    for f in job["open"].as_array().cloned().unwrap_or_default() {
        let path = PathBuf::from(f.as_str().unwrap());
        let text = String::from_utf8_lossy(&std::fs::read(&path).unwrap()).to_string();
        p.update_source(&Source::inline(&path, &text));
    }
    let diags = p.analyse();
    let sev = vhdl_lang::SeverityMap::default();
    let mut dv = Vec::new();
    for d in diags.iter() {
        let f = d.pos.source.file_name().display().to_string();
        if !f.starts_with(&dir) {
            continue;
        }
        let rel: Vec<Value> = d.related.iter().map(|(p, m)| json!([loc(p), m])).collect();
        let code = d.code.as_str().to_string();
        let is_err = matches!(sev[d.code], Some(vhdl_lang::Severity::Error));
        dv.push(json!({"loc": loc(&d.pos), "code": code, "error": is_err, "message": d.message, "related": rel}));
    }
    // project files
    let mut files: Vec<PathBuf> = job["files"]
        .as_array()
        .cloned()
        .unwrap_or_default()
        .iter()
        .map(|f| PathBuf::from(f.as_str().unwrap()))
        .collect();
    files.sort();
    let mut refmap = BTreeMap::new();
    let mut decl_ids: BTreeMap<usize, EntRef<'_>> = BTreeMap::new();
    for f in files.iter() {
        let src = p.get_source(f).unwrap();
        let mut v = Vec::new();
        for (pos, ent) in p.find_all_entity_references(&src) {
            let d = ent.declaration();
            let (dk, dt) = desig(ent);
            let in_project = d.decl_pos().map(|q| q.source.file_name().starts_with(&dir)).unwrap_or(false);
            let is_lib = matches!(ent.kind(), AnyEntKind::Library);
            if in_project {
                decl_ids.entry(d.id().to_raw()).or_insert(d);
            }
            let mut o = json!({
                "range": rng(&pos),
                "decl_ent": d.id().to_raw(),
                "ent_pos": ent.decl_pos().map(loc),
                "decl_pos": d.decl_pos().map(loc),
                "dk": dk, "name": dt,
            });
            if full {
                // verbose fields, only for interactive inspection ("full": true)
                o["ent"] = json!(ent.id().to_raw());
                o["describe"] = json!(ent.describe());
                o["library"] = json!(is_lib);
                o["in_project"] = json!(in_project);
            }
            if full {
                let cur = pos.range().start;
                let iac = p.item_at_cursor(&src, cur).map(|(q, e)| {
                    let (k, t) = desig(e);
                    json!({"range": rng(&q), "ent": e.id().to_raw(), "dk": k, "name": t})
                });
                let fd = p.find_declaration(&src, cur).map(|e| e.id().to_raw());
                o["iac"] = json!(iac);
                o["fd"] = json!(fd);
            }
            v.push(o);
        }
        refmap.insert(f.display().to_string(), v);
    }
    let mut decls = BTreeMap::new();
    for (id, d) in decl_ids.iter() {
        let far: Vec<Value> = p.find_all_references(d).iter().map(loc).collect();
        decls.insert(id.to_string(), json!({"far": far}));
    }
    // explicit cursor queries: what rename.rs asks the project
    let mut answers = Vec::new();
    for q in job["queries"].as_array().cloned().unwrap_or_default() {
        let path = PathBuf::from(q[0].as_str().unwrap());
        let cur = vhdl_lang::Position::new(q[1].as_u64().unwrap() as u32, q[2].as_u64().unwrap() as u32);
        let Some(src) = p.get_source(&path) else {
            answers.push(json!({"source": false}));
            continue;
        };
        let iac = p.item_at_cursor(&src, cur).map(|(q, e)| {
            let (k, t) = desig(e);
            json!({"range": rng(&q), "ent": e.id().to_raw(), "dk": k, "name": t, "library": matches!(e.kind(), AnyEntKind::Library)})
        });
        let fd = p.find_declaration(&src, cur);
        let far: Option<Vec<Value>> = fd.map(|e| p.find_all_references(e).iter().map(loc).collect());
        answers.push(json!({"source": true, "iac": iac, "decl": fd.map(|e| e.id().to_raw()), "far": far}));
    }
    json!({"dir": dir, "diags": dv, "refmap": refmap, "decls": decls, "answers": answers})
}

fn main() {
    std::panic::set_hook(Box::new(|_| {}));
    let args: Vec<String> = std::env::args().collect();
    let jobs: Value = serde_json::from_str(&std::fs::read_to_string(&args[1]).unwrap()).unwrap();
    let mut out = String::new();
    for job in jobs.as_array().unwrap() {
        let j = job.clone();
        let r = std::panic::catch_unwind(move || snapshot(&j));
        let v = match r {
            Ok(v) => v,
            Err(_) => json!({"dir": job["dir"], "error": "PANIC"}),
        };
        out.push_str(&serde_json::to_string(&v).unwrap());
        out.push('\n');
    }
    std::fs::write(&args[2], out).unwrap();
    let _ = MessagePrinter::default();
}
