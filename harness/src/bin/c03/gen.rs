//! C03 generators: valid multi-file base projects, slices of the bundled libraries, and edit histories
//! (character-level and token-level mutations).  Everything is a pure function of the `Rng`.
use serde_json::{json, Value};
use verif_harness::rng::Rng;

#[derive(Clone, Debug)]
pub struct Edit {
    pub file: String,
    /// `None` = whole-document replacement (didOpen / full sync), else l1,c1,l2,c2 in UTF-16 units
    pub range: Option<[u32; 4]>,
    pub text: String,
    pub kind: String,
}

#[derive(Clone, Debug)]
pub struct Case {
    pub id: String,
    pub family: String,
    /// "full" = std + ieee from /repo/vhdl_libraries, "std" = only library std, "own" = the case brings its own
    /// copy of library std (and edits it), "none" = no standard library at all
    pub std_mode: String,
    pub libs: Vec<(String, Vec<String>)>,
    pub files: Vec<(String, String)>,
    pub edits: Vec<Edit>,
    /// additional cursors (file, line, character) queried after the last step
    pub cursors: Vec<(String, u32, u32)>,
}

impl Case {
    pub fn to_json(&self) -> Value {
        json!({
            "id": self.id, "family": self.family, "std": self.std_mode,
            "libs": self.libs.iter().map(|(l, fs)| json!([l, fs])).collect::<Vec<_>>(),
            "files": self.files.iter().map(|(n, t)| json!([n, t])).collect::<Vec<_>>(),
            "edits": self.edits.iter().map(|e| json!({"file": e.file, "range": e.range.map(|r| r.to_vec()), "text": e.text, "kind": e.kind})).collect::<Vec<_>>(),
            "cursors": self.cursors.iter().map(|(f, l, c)| json!([f, l, c])).collect::<Vec<_>>(),
        })
    }
    pub fn from_json(v: &Value) -> Option<Case> {
        let s = |x: &Value| x.as_str().map(|s| s.to_string());
        let mut libs = vec![];
        for l in v.get("libs")?.as_array()? {
            let a = l.as_array()?;
            libs.push((s(&a[0])?, a[1].as_array()?.iter().filter_map(s).collect()));
        }
        let mut files = vec![];
        for f in v.get("files")?.as_array()? {
            let a = f.as_array()?;
            files.push((s(&a[0])?, s(&a[1])?));
        }
        let mut edits = vec![];
        if let Some(es) = v.get("edits").and_then(|e| e.as_array()) {
            for e in es {
                let range = match e.get("range") {
                    Some(Value::Array(r)) if r.len() == 4 => {
                        let g = |i: usize| r[i].as_u64().unwrap_or(0).min(u32::MAX as u64) as u32;
                        Some([g(0), g(1), g(2), g(3)])
                    }
                    _ => None,
                };
                edits.push(Edit {
                    file: s(e.get("file")?)?,
                    range,
                    text: s(e.get("text")?)?,
                    kind: e.get("kind").and_then(s).unwrap_or_default(),
                });
            }
        }
        let mut cursors = vec![];
        if let Some(cs) = v.get("cursors").and_then(|e| e.as_array()) {
            for c in cs {
                let a = c.as_array()?;
                cursors.push((s(&a[0])?, a[1].as_u64()?.min(u32::MAX as u64) as u32, a[2].as_u64()?.min(u32::MAX as u64) as u32));
            }
        }
        Some(Case {
            id: v.get("id").and_then(s).unwrap_or_else(|| "case".into()),
            family: v.get("family").and_then(s).unwrap_or_else(|| "corpus".into()),
            std_mode: v.get("std").and_then(s).unwrap_or_else(|| "full".into()),
            libs,
            files,
            edits,
            cursors,
        })
    }
}

// ------------------------------------------------------------------------------------------------
// text helpers
// ------------------------------------------------------------------------------------------------
pub fn normalize(s: &str) -> String {
    s.replace("\r\n", "\n").replace('\r', "\n")
}

/// (line, utf16 column) of a byte offset (must be a char boundary); lines are split on '\n'
pub fn pos_of(text: &str, off: usize) -> (u32, u32) {
    let mut line = 0u32;
    let mut col = 0u32;
    for (i, ch) in text.char_indices() {
        if i >= off {
            break;
        }
        if ch == '\n' {
            line += 1;
            col = 0;
        } else {
            col += ch.len_utf16() as u32;
        }
    }
    (line, col)
}

pub fn floor_boundary(text: &str, mut off: usize) -> usize {
    if off > text.len() {
        off = text.len();
    }
    while off > 0 && !text.is_char_boundary(off) {
        off -= 1;
    }
    off
}

/// rough VHDL tokenizer: byte spans of tokens (identifiers, numbers, literals, comments, delimiters)
pub fn rough_tokens(text: &str) -> Vec<(usize, usize)> {
    let b = text.as_bytes();
    let mut out = vec![];
    let mut i = 0;
    let is_id = |c: u8| c.is_ascii_alphanumeric() || c == b'_';
    while i < b.len() {
        let c = b[i];
        if c.is_ascii_whitespace() {
            i += 1;
            continue;
        }
        let s = i;
        if is_id(c) {
            while i < b.len() && (is_id(b[i]) || (b[i] == b'.' && i + 1 < b.len() && b[i + 1].is_ascii_digit() && b[s].is_ascii_digit())) {
                i += 1;
            }
        } else if c == b'-' && i + 1 < b.len() && b[i + 1] == b'-' {
            while i < b.len() && b[i] != b'\n' {
                i += 1;
            }
        } else if c == b'"' {
            i += 1;
            while i < b.len() && b[i] != b'"' && b[i] != b'\n' {
                i += 1;
            }
            if i < b.len() && b[i] == b'"' {
                i += 1;
            }
        } else if c == b'\'' && i + 2 < b.len() && b[i + 2] == b'\'' && b[i + 1] < 0x80 {
            i += 3;
        } else if c < 0x80 {
            let two: &[&[u8]] = &[b"<=", b":=", b"=>", b"**", b"/=", b">=", b"<>", b"<<", b">>", b"?=", b"??"];
            if i + 1 < b.len() && two.iter().any(|t| t[0] == c && t[1] == b[i + 1]) {
                i += 2;
            } else {
                i += 1;
            }
        } else {
            // one multi-byte character
            i += 1;
            while i < b.len() && !text.is_char_boundary(i) {
                i += 1;
            }
        }
        out.push((s, i));
    }
    out
}

// ------------------------------------------------------------------------------------------------
// base projects
// ------------------------------------------------------------------------------------------------
fn pick_lines(r: &mut Rng, all: bool, pool: &[&str]) -> String {
    let mut out = String::new();
    for l in pool {
        if all || r.chance(7, 10) {
            out.push_str(l);
            out.push('\n');
        }
    }
    out
}

/// Substitute the logic types: with ieee `std_logic`, without `bit`.
fn subst(s: &str, ieee: bool) -> String {
    let hdr = if ieee { "library ieee;\nuse ieee.std_logic_1164.all;\nuse ieee.numeric_std.all;\n" } else { "" };
    s.replace("@HDR@\n", hdr)
        .replace("@SLV@", if ieee { "std_logic_vector" } else { "bit_vector" })
        .replace("@SL@", if ieee { "std_logic" } else { "bit" })
        .replace("@RE@", if ieee { "rising_edge(clk)" } else { "clk'event and clk = '1'" })
}

pub fn types_pkg(r: &mut Rng, all: bool) -> String {
    let decls = pick_lines(r, all, &[
        "  type state_t is (idle, run, done);",
        "  type int_arr_t is array (0 to 3) of integer;",
        "  type phys_t is range 0 to 100000 units u0; u1 = 10 u0; u2 = 100 u1; end units;",
        "  type acc_t is access integer;",
        "  type int_file_t is file of integer;",
        "  type small_t is range 0 to 15;",
        "  subtype nibble_t is @SLV@(3 downto 0);",
        "  constant deferred_c : integer;",
        "  attribute mark : string;",
        "  attribute mark of WIDTH : constant is \"w\";",
        "  alias slv_t is @SLV@;",
        "  function f_inc(x : integer) return integer;",
        "  function \"+\"(l, r : rec_t) return rec_t;",
        "  procedure p_clear(signal r : out rec_t);",
        "  procedure p_swap(variable a, b : inout integer);",
        "  procedure p_tick;",
        "  constant c_un1 : boolean := not true and false;",
        "  constant c_un2 : integer := abs (-3) + 1;",
        "  constant c_un3 : boolean := (?? bit'('1')) or false;",
        "  type prot_t is protected\n    procedure inc(n : natural := 1);\n    impure function get return integer;\n  end protected;",
        "  component comp is\n    generic (G : natural := 1);\n    port (a : in @SL@; b : out @SL@);\n  end component;",
        "  type matrix_t is array (natural range <>, natural range <>) of @SL@;",
        "  signal global_s : @SL@;",
        "  shared variable sv : integer;",
    ]);
    let has = |s: &str| decls.contains(s);
    let mut body = String::new();
    if has("deferred_c") {
        body.push_str("  constant deferred_c : integer := 7;\n");
    }
    if has("function f_inc") {
        body.push_str("  function f_inc(x : integer) return integer is\n  begin\n    return x + 1;\n  end function;\n");
    }
    if has("function \"+\"") {
        body.push_str("  function \"+\"(l, r : rec_t) return rec_t is\n    variable res : rec_t := l;\n  begin\n    res.valid := l.valid or r.valid;\n    return res;\n  end function \"+\";\n");
    }
    if has("procedure p_clear") {
        body.push_str("  procedure p_clear(signal r : out rec_t) is\n  begin\n    r <= REC_INIT;\n  end procedure p_clear;\n");
    }
    if has("procedure p_swap") {
        body.push_str("  procedure p_swap(variable a, b : inout integer) is\n    variable t : integer;\n  begin\n    t := a;\n    a := b;\n    b := t;\n  end;\n");
    }
    if has("procedure p_tick") {
        body.push_str("  procedure p_tick is\n  begin\n    null;\n  end procedure;\n");
    }
    if has("type prot_t") {
        body.push_str("  type prot_t is protected body\n    variable cnt : integer := 0;\n    procedure inc(n : natural := 1) is\n    begin\n      cnt := cnt + n;\n    end procedure;\n    impure function get return integer is\n    begin\n      return cnt;\n    end function;\n  end protected body;\n");
    }
    format!(
        "@HDR@\npackage types_pkg is\n  constant WIDTH : natural := 8;\n  subtype byte_t is @SLV@(WIDTH - 1 downto 0);\n  type rec_t is record\n    data : byte_t;\n    valid : @SL@;\n    cnt : natural;\n  end record;\n  type rec_arr_t is array (natural range <>) of rec_t;\n  constant REC_INIT : rec_t := (data => (others => '0'), valid => '0', cnt => 0);\n  function f_inc(x : byte_t) return byte_t;\n{decls}end package types_pkg;\n\npackage body types_pkg is\n  function f_inc(x : byte_t) return byte_t is\n    variable v : byte_t := x;\n  begin\n    for i in v'range loop\n      v(i) := not x(i);\n    end loop;\n    return v;\n  end function f_inc;\n{body}end package body types_pkg;\n"
    )
}

pub fn util_pkg(r: &mut Rng, all: bool) -> String {
    let mut s = String::from(
        "package gen_pkg is\n  generic (\n    type elem_t;\n    N : natural := 4;\n    function conv(x : elem_t) return integer\n  );\n  type vec_t is array (0 to N - 1) of elem_t;\n  function sum(v : vec_t) return integer;\nend package gen_pkg;\n\npackage body gen_pkg is\n  function sum(v : vec_t) return integer is\n    variable acc : integer := 0;\n  begin\n    for i in v'range loop\n      acc := acc + conv(v(i));\n    end loop;\n    return acc;\n  end function;\nend package body gen_pkg;\n\n",
    );
    if all || r.chance(8, 10) {
        s.push_str("package conv_pkg is\n  function ident(x : integer) return integer;\nend package;\n\npackage body conv_pkg is\n  function ident(x : integer) return integer is\n  begin\n    return x;\n  end;\nend package body;\n\nuse work.conv_pkg.all;\npackage int_util is new work.gen_pkg\n  generic map (elem_t => integer, N => 3, conv => ident);\n\n");
    }
    if all || r.chance(8, 10) {
        s.push_str("context proj_ctx is\n  library lib;\n  use lib.types_pkg.all;\nend context proj_ctx;\n");
    }
    s
}

pub fn leaf(r: &mut Rng, all: bool) -> String {
    let decls = pick_lines(r, all, &[
        "  signal cnt_s : natural range 0 to 255 := 0;",
        "  constant LIMIT : natural := DEPTH * 2;",
        "  type mem_t is array (0 to DEPTH - 1) of byte_t;",
        "  signal unused_s : @SL@;",
        "  function parity(v : byte_t) return @SL@ is\n    variable p : @SL@ := '0';\n  begin\n    for i in v'range loop\n      p := p xor v(i);\n    end loop;\n    return p;\n  end function parity;",
        "  alias low_nibble : @SLV@(3 downto 0) is reg.data(3 downto 0);",
    ]);
    let stmts = pick_lines(r, all, &[
        "  dout <= reg.data when reg.valid = '1' else (others => '0');",
        "  wv_s <= f_inc(din) after 1 ns, f_inc(f_inc(din)) after 2 ns, din after 3 ns;",
        "  xl : process\n    variable k : integer := 0;\n  begin\n    outer : loop\n      k := k + 1;\n      next outer when f_inc(din) = din;\n      exit outer when f_inc(f_inc(din)) = din or k > 3;\n    end loop outer;\n    wait until f_inc(din) = din for 1 ns;\n    assert f_inc(din) = din report \"x\" severity note;\n    wait;\n  end process xl;",
        "  wv2 : process\n  begin\n    wv_s <= transport f_inc(din) after 1 ns, f_inc(reg.data) after 2 ns;\n    wait on din;\n  end process;",
        "  with en select\n    vld <= reg.valid when '1',\n           '0' when others;",
        "  chk : assert DEPTH > 0 report \"bad depth \" & integer'image(DEPTH) severity failure;",
        "  comb : process(all)\n    variable tmp : byte_t;\n  begin\n    tmp := f_inc(din);\n    nxt <= reg;\n    if en = '1' then\n      nxt.data <= tmp;\n      nxt.valid <= '1';\n    elsif rst = '1' then\n      nxt <= REC_INIT;\n    else\n      null;\n    end if;\n  end process comb;",
        "  cs : process(reg, din)\n  begin\n    case reg.cnt is\n      when 0 => sel <= din(0);\n      when 1 | 2 => sel <= din(1);\n      when 3 to 7 => sel <= din(2);\n      when others => sel <= '0';\n    end case;\n  end process;",
        "  lp : process\n    variable i : integer := 0;\n  begin\n    while i < 4 loop\n      i := i + 1;\n      next when i = 2;\n      exit when i = 3;\n    end loop;\n    wait;\n  end process lp;",
    ]);
    format!(
        "@HDR@\nlibrary lib;\nuse lib.types_pkg.all;\n\nentity leaf is\n  generic (\n    DEPTH : positive := 4;\n    NAME : string := \"leaf\"\n  );\n  port (\n    clk : in @SL@;\n    rst : in @SL@;\n    en : in @SL@ := '1';\n    din : in byte_t;\n    dout : out byte_t;\n    vld : out @SL@\n  );\nend entity leaf;\n\narchitecture rtl of leaf is\n  signal reg, nxt : rec_t := REC_INIT;\n  signal sel : @SL@;\n  signal wv_s : byte_t;\n{decls}begin\n  seq : process(clk)\n  begin\n    if @RE@ then\n      if rst = '1' then\n        reg <= REC_INIT;\n      else\n        reg <= nxt;\n        reg.cnt <= (reg.cnt + 1) mod 8;\n      end if;\n    end if;\n  end process seq;\n{stmts}end architecture rtl;\n"
    )
}

pub fn mid(r: &mut Rng, all: bool) -> String {
    let stmts = pick_lines(r, all, &[
        "  g_for : for i in 0 to N - 1 generate\n    signal loc : byte_t;\n  begin\n    u_leaf : entity lib.leaf(rtl)\n      generic map (DEPTH => i + 1)\n      port map (clk => clk, rst => rst, en => open, din => bus_s(i).data, dout => loc, vld => vlds(i));\n    bus_s(i + 1).data <= loc;\n  end generate g_for;",
        "  g_if : if N > 1 generate\n    last_s <= vlds(N - 1);\n  else generate\n    last_s <= '0';\n  end generate g_if;",
        "  g_case : case N generate\n    when 1 => one_s <= '1';\n    when others => one_s <= '0';\n  end generate;",
        "  blk : block (rst = '0')\n    signal guarded_s : @SL@;\n  begin\n    guarded_s <= clk;\n  end block blk;",
        "  u_comp : comp\n    generic map (G => 2)\n    port map (a => clk, b => comp_o);",
        "  u_comp2 : component comp port map (clk, open);",
        "  u_leaf2 : entity work.leaf\n    port map (clk, rst, '1', first, open, open);",
        "  pc : p_clear(clr_s);",
        "  first <= f_inc(f_inc(bus_s(0).data));",
        "  bus_s(0) <= (data => x, valid => '1', cnt => 0);",
    ]);
    format!(
        "@HDR@\nlibrary lib;\nuse lib.types_pkg.all;\n\nentity mid is\n  generic (N : positive := 2);\n  port (\n    clk, rst : in @SL@;\n    x : in byte_t;\n    y : out byte_t\n  );\nend entity;\n\narchitecture str of mid is\n  signal bus_s : rec_arr_t(0 to N);\n  signal vlds : @SLV@(N - 1 downto 0);\n  signal last_s, one_s, comp_o : @SL@;\n  signal first : byte_t;\n  signal clr_s : rec_t;\n  attribute keep : boolean;\n  attribute keep of bus_s : signal is true;\nbegin\n{stmts}  y <= bus_s(N).data;\nend architecture str;\n"
    )
}

pub fn cfg_file(r: &mut Rng, all: bool) -> String {
    let mut s = String::from(
        "@HDR@\nlibrary lib;\nuse lib.types_pkg.all;\n\narchitecture alt of leaf is\nbegin\n  dout <= din;\n  vld <= en and not rst;\nend architecture alt;\n\n",
    );
    if all || r.chance(8, 10) {
        s.push_str("configuration mid_cfg of mid is\n  for str\n  end for;\nend configuration mid_cfg;\n");
    }
    s
}

pub fn tb(r: &mut Rng, all: bool) -> String {
    let stmts = pick_lines(r, all, &[
        "  stim : process\n    variable l : line;\n    variable p : lib.types_pkg.acc_t;\n  begin\n    rst <= '1';\n    wait for 10 ns;\n    rst <= '0';\n    wait until clk = '1';\n    write(l, string'(\"done \") & integer'image(now / 1 ns));\n    writeline(output, l);\n    p := new integer'(3);\n    deallocate(p);\n    report \"finished\" severity note;\n    std.env.stop;\n    wait;\n  end process stim;",
        "  mon : process(y)\n  begin\n    assert y'length = lib.types_pkg.WIDTH;\n    total <= total + lib.types_pkg.f_inc(1);\n  end process;",
        "  ext : process\n    alias probe is << signal .tb.dut.first : byte_t >>;\n  begin\n    wait for 1 ns;\n    assert probe = probe;\n    wait;\n  end process;",
        "  cfg_inst : configuration lib.mid_cfg\n    port map (clk => clk, rst => rst, x => x, y => open);",
    ]);
    format!(
        "@HDR@\nlibrary lib;\nuse lib.types_pkg.all;\nuse std.textio.all;\n\nentity tb is\nend entity tb;\n\narchitecture sim of tb is\n  signal clk : @SL@ := '0';\n  signal rst : @SL@;\n  signal x, y : byte_t;\n  signal total : integer := 0;\n  constant PERIOD : time := 10 ns;\nbegin\n  clk <= not clk after PERIOD / 2;\n  dut : entity lib.mid\n    generic map (N => 3)\n    port map (clk => clk, rst => rst, x => x, y => y);\n{stmts}end architecture sim;\n"
    )
}

/// A generated valid project: library `lib` (types, util, leaf, mid, cfg) and library `tblib` (tb).
pub fn gen_project(r: &mut Rng, ieee: bool, all: bool) -> (Vec<(String, Vec<String>)>, Vec<(String, String)>) {
    let mut files = vec![
        ("types_pkg.vhd".to_string(), subst(&types_pkg(r, all), ieee)),
        ("leaf.vhd".to_string(), subst(&leaf(r, all), ieee)),
    ];
    let mut lib = vec!["types_pkg.vhd".to_string(), "leaf.vhd".to_string()];
    let mut tblib = vec![];
    if all || r.chance(8, 10) {
        files.push(("util_pkg.vhd".into(), subst(&util_pkg(r, all), ieee)));
        lib.push("util_pkg.vhd".into());
    }
    if all || r.chance(8, 10) {
        files.push(("mid.vhd".into(), subst(&mid(r, all), ieee)));
        lib.push("mid.vhd".into());
        if all || r.chance(7, 10) {
            files.push(("cfg.vhd".into(), subst(&cfg_file(r, all), ieee)));
            lib.push("cfg.vhd".into());
        }
        if all || r.chance(7, 10) {
            files.push(("sub/tb.vhd".into(), subst(&tb(r, all), ieee)));
            tblib.push("sub/tb.vhd".to_string());
        }
    }
    let mut libs = vec![("lib".to_string(), lib)];
    if !tblib.is_empty() {
        // occasionally the test bench is mapped to two libraries (a file in several libraries)
        if r.chance(1, 5) {
            libs.push(("tblib2".to_string(), tblib.clone()));
        }
        libs.push(("tblib".to_string(), tblib));
    }
    (libs, files)
}

/// Small hand-written projects for special shapes: circular dependencies, duplicates, secondary units without primary.
pub fn small_project(r: &mut Rng) -> (Vec<(String, Vec<String>)>, Vec<(String, String)>) {
    let variants: Vec<Vec<(&str, &str)>> = vec![
        vec![
            ("a.vhd", "use work.b.all;\npackage a is\n  constant ca : integer := cb + 1;\nend package;\n"),
            ("b.vhd", "package b is\n  constant cb : integer := 1;\nend package;\n\npackage body b is\nend package body;\n"),
            ("c.vhd", "use work.a.all;\nuse work.b.all;\nentity c is\n  port (p : in bit);\nend entity;\n\narchitecture r of c is\n  signal s : integer := ca + cb;\nbegin\nend architecture;\n"),
        ],
        vec![
            ("e.vhd", "entity e is\nend entity;\n"),
            ("a.vhd", "architecture a of e is\n  signal s : bit;\nbegin\nend architecture;\n"),
            ("a2.vhd", "architecture a2 of e is\n  signal t : bit;\nbegin\n  t <= not t;\nend architecture;\n"),
        ],
        vec![
            ("p.vhd", "package p is\n  type t is (a, b, c);\n  function f(x : t) return t;\n  function f(x : integer) return integer;\nend package;\n\npackage body p is\n  function f(x : t) return t is\n  begin\n    return x;\n  end;\n  function f(x : integer) return integer is\n  begin\n    return x;\n  end;\nend package body;\n"),
            ("q.vhd", "use work.p.all;\nentity q is\n  generic (g : t := a);\n  port (i : in integer; o : out integer);\nend entity;\n\narchitecture x of q is\nbegin\n  o <= f(i) when f(g) = b else 0;\nend architecture;\n"),
        ],
        vec![
            ("ctx.vhd", "context c1 is\n  library work;\n  use work.p1.all;\nend context;\n"),
            ("p1.vhd", "package p1 is\n  constant k : integer := 1;\nend package;\n"),
            ("u.vhd", "context work.c1;\nentity u is\nend entity;\n\narchitecture a of u is\n  constant m : integer := k;\nbegin\nend architecture;\n"),
        ],
    ];
    let v = r.pick(&variants).clone();
    let files: Vec<(String, String)> = v.iter().map(|(n, t)| (n.to_string(), t.to_string())).collect();
    let names: Vec<String> = files.iter().map(|(n, _)| n.clone()).collect();
    (vec![("lib".to_string(), names)], files)
}

pub fn read_latin1(path: &str) -> String {
    let bytes = std::fs::read(path).unwrap_or_default();
    normalize(&bytes.iter().map(|&b| b as char).collect::<String>())
}

/// Slice of the bundled libraries used as project files of library `lib` (std + ieee come from /repo/vhdl_libraries).
pub fn slice_project(r: &mut Rng) -> (Vec<(String, Vec<String>)>, Vec<(String, String)>) {
    let groups: Vec<Vec<&str>> = vec![
        vec!["std/env.vhd", "std/textio.vhd"],
        vec!["ieee2008/std_logic_1164.vhdl"],
        vec!["ieee2008/fixed_float_types.vhdl", "ieee2008/fixed_pkg.vhdl", "ieee2008/float_pkg.vhdl"],
        vec!["ieee2008/numeric_std_unsigned.vhdl"],
        vec!["ieee2008/math_real.vhdl"],
        vec!["synopsys/std_logic_unsigned.vhdl"],
        vec!["ieee2008/numeric_bit_unsigned.vhdl", "ieee2008/numeric_bit_unsigned-body.vhdl"],
        vec!["../vhdl_lang/tests/unused_declarations/my_entity.vhd", "ieee2008/ieee_std_context.vhdl"],
    ];
    let g = r.pick(&groups).clone();
    let mut files = vec![];
    for f in g {
        let mut t = read_latin1(&format!("/repo/vhdl_libraries/{f}"));
        // a contiguous slice of a long file keeps the per-state cost bounded
        let lines: Vec<&str> = t.split_inclusive('\n').collect();
        if lines.len() > 400 {
            let keep = 150 + r.below(250);
            let head: String = lines[..keep].concat();
            t = head;
        }
        let name = f.rsplit('/').next().unwrap().to_string();
        files.push((name, t));
    }
    let names: Vec<String> = files.iter().map(|(n, _)| n.clone()).collect();
    (vec![("lib".to_string(), names)], files)
}

/// The project edits its own copy of library std (standard, textio, env) plus a small user.
pub fn ownstd_project(_r: &mut Rng) -> (Vec<(String, Vec<String>)>, Vec<(String, String)>) {
    let mut files = vec![];
    for f in ["standard.vhd", "textio.vhd", "env.vhd"] {
        files.push((format!("std/{f}"), read_latin1(&format!("/repo/vhdl_libraries/std/{f}"))));
    }
    files.push(("user.vhd".to_string(), "use std.textio.all;\nentity user is\n  port (a : in bit_vector(3 downto 0); b : out boolean);\nend entity;\n\narchitecture r of user is\n  signal n : natural := 0;\nbegin\n  b <= a(0) = '1' and n > 0;\nend architecture;\n".to_string()));
    (
        vec![
            ("std".to_string(), vec!["std/standard.vhd".into(), "std/textio.vhd".into(), "std/env.vhd".into()]),
            ("lib".to_string(), vec!["user.vhd".into()]),
        ],
        files,
    )
}

/// The project edits its own copy of ieee.std_logic_1164 (declaration only) plus a small user.
pub fn ownieee_project(_r: &mut Rng) -> (Vec<(String, Vec<String>)>, Vec<(String, String)>) {
    let files = vec![
        ("ieee/std_logic_1164.vhdl".to_string(), read_latin1("/repo/vhdl_libraries/ieee2008/std_logic_1164.vhdl")),
        ("u.vhd".to_string(), "library ieee;\nuse ieee.std_logic_1164.all;\n\nentity u is\n  port (a : in std_logic_vector(1 downto 0); b : out boolean; c : out std_ulogic);\nend entity;\n\narchitecture r of u is\n  signal s : std_logic := 'U';\nbegin\n  b <= a ?= \"01\";\n  c <= s and a(0);\nend architecture;\n".to_string()),
    ];
    (
        vec![("ieee".to_string(), vec!["ieee/std_logic_1164.vhdl".into()]), ("lib".to_string(), vec!["u.vhd".into()])],
        files,
    )
}

// ------------------------------------------------------------------------------------------------
// mutations
// ------------------------------------------------------------------------------------------------
pub const WORDS: &[&str] = &[
    "entity", "is", "end", ";", "(", ")", ":", "begin", "process", "<=", ":=", "package", "body", "architecture", "of", "use",
    "library", ".", "all", "'", "\"", "generate", "for", "if", "then", "else", "elsif", "case", "when", "=>", "component", "port",
    "generic", "map", "function", "return", "procedure", "type", "record", "range", "to", "downto", "signal", "variable",
    "constant", "work", "lib", "open", "others", "block", "loop", "while", "new", "context", "configuration", "protected",
    "alias", "attribute", "subtype", "array", "access", "file", "units", "select", "with", "wait", "until", "report", "assert",
    "<<", ">>", "&", "|", "<>", "@", "^", ",", "+", "-", "*", "/", "**", "=", "/=", "?=", "??", "null", "not", "and", "x\"", "16#",
    "1", "0", "'0'", "\"01\"", "1.0", "1 ns", "rec_t", "byte_t", "f_inc", "reg", "clk", "leaf", "types_pkg", "std", "ieee", "view",
    "impure", "pure", "parameter", "force", "release", "postponed", "guarded", "transport", "inertial", "unaffected", "default",
    "p_tick", "p_clear", "p_swap", "comp", "state_t", "idle", "prot_t", "u1", "mark", "seq", "rtl", "int_util", "proj_ctx", "slv_t", "acc_t",
    "label", "group", "disconnect", "register", "bus", "linkage", "buffer", "inout", "out", "in", "shared", "vunit", "--", "/*", "*/",
];

pub const HALF_TYPED: &[&str] = &[
    "signal x : ", "  x <= ", "inst : entity work.", "inst : entity lib.leaf(", "use work.", "use lib.types_pkg.", "library ",
    "  port map (", "  generic map (a => ", "if a = ", "case s is when ", "function f(", "type t is (", "type r is record ",
    "for i in 0 to ", "constant c : integer := ", "attribute a of ", "alias b is ", "package p is new work.", "process(",
    "assert ", "wait until ", "variable v : bit_vector(", "reg'", "reg.", "work.types_pkg.", "lib.", "std.", "x.", "rec_t'(",
    "p_clear(", "f_inc(x => ", "(others => ", "<< signal .tb.", "with sel select y <= ", "y <= a when ", "component c is port (",
    "procedure p(signal s : out ", "entity e is generic (", "architecture a of ", "package body ", "configuration c of ",
    "context work.", "end ", "begin\n", "is\n", "block\n", "generate\n", "protected\n", "units\n", "record\n", "new ", "use work.all;\n",
    "library ieee;\nuse ieee.std_logic_1164.all;\n", "context lib.proj_ctx;\n", "use lib.int_util.all;\n", "library std;\nuse std.standard.all;\n",
    "package standard is\n", "type integer is range ", "function \"+\"(", "function \"", "attribute foreign of ", "subtype s is integer range ",
    "dout'", "din(", "bus_s(0).", "nxt.data(", "integer'", "string'(\"", "x\"", "16#f", "1 n", "'", "\"", "--", "/*",
];

pub const ODD_CHARS: &[&str] = &[
    "\u{20ac}", "x\u{20ac}", "b\u{3bb}", "\u{1F600}", "o\u{1F600}", "\u{e9}", "\u{ff}", "\u{d7}", "\u{a0}", "\t", "\u{0}", "\u{c}", "\u{b}", "\r",
    "\u{feff}", "\u{2028}", "ub\u{20ac}", "sx\u{100}", "d\u{20ac}\"", "\u{7f}", "\u{80}", "`", "$", "\\", "\\a\u{20ac}\\", "\"\u{20ac}\"", "'\u{20ac}'",
];

struct Ed {
    start: usize,
    end: usize,
    text: String,
    kind: &'static str,
}

fn unit_starts(text: &str) -> Vec<usize> {
    // byte offsets of lines that start a design unit (column 0 keyword) or a context clause before it
    let mut out = vec![];
    let mut off = 0;
    for line in text.split_inclusive('\n') {
        let l = line.trim_end().to_ascii_lowercase();
        if l.starts_with("entity ") || l.starts_with("architecture ") || l.starts_with("package ") || l.starts_with("configuration ")
            || l.starts_with("context ") && l.contains(" is")
        {
            out.push(off);
        }
        off += line.len();
    }
    out
}

/// One mutation of `text`, expressed as a replacement of a byte range.
fn mutate(r: &mut Rng, text: &str) -> Ed {
    let toks = rough_tokens(text);
    let any_off = |r: &mut Rng| floor_boundary(text, r.below(text.len() + 1));
    let choice = r.below(100);
    if toks.is_empty() {
        let t = if r.chance(1, 2) { r.pick(HALF_TYPED).to_string() } else { r.pick(ODD_CHARS).to_string() };
        return Ed { start: text.len(), end: text.len(), text: t, kind: "insert-into-empty" };
    }
    let ti = r.below(toks.len());
    let (ts, te) = toks[ti];
    match choice {
        0..=9 => Ed { start: ts, end: te, text: String::new(), kind: "del-token" },
        10..=15 => Ed { start: te, end: te, text: format!(" {}", &text[ts..te]), kind: "dup-token" },
        16..=27 => Ed { start: ts, end: ts, text: format!("{} ", r.pick(WORDS)), kind: "ins-word" },
        28..=35 => Ed { start: ts, end: te, text: r.pick(WORDS).to_string(), kind: "repl-word" },
        36..=39 => {
            // replace an identifier by another token of the file (semantic breakage)
            let (os, oe) = toks[r.below(toks.len())];
            Ed { start: ts, end: te, text: text[os..oe].to_string(), kind: "repl-by-other-token" }
        }
        40..=43 => Ed { start: ts, end: text.len(), text: String::new(), kind: "truncate" },
        44..=49 => {
            let l = 1 + r.below(12);
            let last = (ti + l).min(toks.len()) - 1;
            Ed { start: ts, end: toks[last].1, text: String::new(), kind: "del-token-run" }
        }
        50..=55 => {
            // delete an `end` (or the whole `end ... ;`)
            let ends: Vec<usize> = (0..toks.len()).filter(|&i| text[toks[i].0..toks[i].1].eq_ignore_ascii_case("end")).collect();
            if ends.is_empty() {
                return Ed { start: ts, end: te, text: String::new(), kind: "del-token" };
            }
            let ei = *r.pick(&ends);
            if r.chance(1, 2) {
                Ed { start: toks[ei].0, end: toks[ei].1, text: String::new(), kind: "del-end" }
            } else {
                let mut j = ei;
                while j < toks.len() && &text[toks[j].0..toks[j].1] != ";" {
                    j += 1;
                }
                let j = j.min(toks.len() - 1);
                Ed { start: toks[ei].0, end: toks[j].1, text: String::new(), kind: "del-end-stmt" }
            }
        }
        56..=65 => {
            // half-typed statement at the start of a line (or right here)
            let at = if r.chance(2, 3) {
                let lines: Vec<usize> = std::iter::once(0).chain(text.match_indices('\n').map(|(i, _)| i + 1)).collect();
                *r.pick(&lines)
            } else {
                ts
            };
            let h = r.pick(HALF_TYPED);
            // sometimes only a prefix of it (typing in progress)
            let cut = if r.chance(1, 3) { floor_boundary(h, 1 + r.below(h.len())) } else { h.len() };
            Ed { start: at, end: at, text: h[..cut].to_string(), kind: "half-typed" }
        }
        66..=69 => {
            let p = if r.chance(1, 2) { "(" } else { ")" };
            Ed { start: ts, end: ts, text: p.to_string(), kind: "paren" }
        }
        70..=75 => {
            let at = if r.chance(1, 2) { any_off(r) } else { te };
            Ed { start: at, end: at, text: r.pick(ODD_CHARS).to_string(), kind: "odd-char" }
        }
        76..=79 => {
            // character level
            let at = any_off(r);
            let next = text[at..].chars().next().map(|c| at + c.len_utf8()).unwrap_or(at);
            match r.below(4) {
                0 => Ed { start: at, end: next, text: String::new(), kind: "del-char" },
                1 => Ed { start: at, end: at, text: text[at..next].to_string(), kind: "dup-char" },
                2 => Ed { start: at, end: at, text: "\n".to_string(), kind: "ins-newline" },
                _ => {
                    let cs = ["a", "_", "0", ";", "'", "\"", ".", " ", "(", "-", "/", "*", "#", "e", "x", "\\"];
                    Ed { start: at, end: at, text: r.pick(&cs).to_string(), kind: "ins-char" }
                }
            }
        }
        80..=84 => {
            // line level: delete / duplicate / join
            let lines: Vec<usize> = std::iter::once(0).chain(text.match_indices('\n').map(|(i, _)| i + 1)).collect();
            let li = r.below(lines.len());
            let s = lines[li];
            let e = if li + 1 < lines.len() { lines[li + 1] } else { text.len() };
            match r.below(3) {
                0 => Ed { start: s, end: e, text: String::new(), kind: "del-line" },
                1 => Ed { start: e, end: e, text: text[s..e].to_string(), kind: "dup-line" },
                _ => {
                    if e > s && text[..e].ends_with('\n') {
                        Ed { start: e - 1, end: e, text: String::new(), kind: "join-lines" }
                    } else {
                        Ed { start: s, end: e, text: String::new(), kind: "del-line" }
                    }
                }
            }
        }
        85..=90 => {
            // swap / duplicate / delete whole design units
            let us = unit_starts(text);
            if us.len() < 2 {
                return Ed { start: ts, end: te, text: String::new(), kind: "del-token" };
            }
            let ui = r.below(us.len());
            let s = us[ui];
            let e = if ui + 1 < us.len() { us[ui + 1] } else { text.len() };
            match r.below(3) {
                0 => Ed { start: e, end: e, text: text[s..e].to_string(), kind: "dup-unit" },
                1 => Ed { start: s, end: e, text: String::new(), kind: "del-unit" },
                _ => {
                    if ui + 1 < us.len() {
                        let e2 = if ui + 2 < us.len() { us[ui + 2] } else { text.len() };
                        let swapped = format!("{}{}", &text[e..e2], &text[s..e]);
                        Ed { start: s, end: e2, text: swapped, kind: "swap-units" }
                    } else {
                        let swapped = format!("{}{}", &text[s..e], &text[us[0]..s]);
                        Ed { start: us[0], end: e, text: swapped, kind: "swap-units" }
                    }
                }
            }
        }
        91..=94 => {
            // rename: replace every occurrence? no - one declaration-like identifier gets a fresh or clashing name
            let ids: Vec<usize> = (0..toks.len())
                .filter(|&i| text.as_bytes()[toks[i].0].is_ascii_alphabetic())
                .collect();
            if ids.is_empty() {
                return Ed { start: ts, end: te, text: String::new(), kind: "del-token" };
            }
            let i = *r.pick(&ids);
            let j = *r.pick(&ids);
            let new = if r.chance(1, 2) { text[toks[j].0..toks[j].1].to_string() } else { format!("{}_x", &text[toks[i].0..toks[i].1]) };
            Ed { start: toks[i].0, end: toks[i].1, text: new, kind: "rename-one" }
        }
        95..=97 => {
            // replace a literal token (or insert before any token) by an odd literal / static expression
            let lits = literals();
            let cand: Vec<usize> = (0..toks.len())
                .filter(|&i| {
                    let c = text.as_bytes()[toks[i].0];
                    c.is_ascii_digit() || c == b'"' || (c == b'\'' && toks[i].1 - toks[i].0 == 3)
                })
                .collect();
            let lit = lits[r.below(lits.len())].clone();
            if cand.is_empty() || r.chance(1, 4) {
                Ed { start: ts, end: ts, text: format!("{lit} "), kind: "ins-literal" }
            } else {
                let (s, e) = toks[*r.pick(&cand)];
                Ed { start: s, end: e, text: lit, kind: "repl-literal" }
            }
        }
        _ => {
            // comment / literal openers
            let o = ["--", "/*", "\"", "'", "\\", "*/", "<<", "x\"", "16#", "1e", "1.", "2#1#e"];
            Ed { start: ts, end: ts, text: r.pick(&o).to_string(), kind: "opener" }
        }
    }
}

fn apply(text: &str, ed: &Ed) -> String {
    normalize(&format!("{}{}{}", &text[..ed.start], ed.text, &text[ed.end..]))
}

/// Builds the edit history of a case: every step is one LSP-style change of one file.
pub fn gen_history(r: &mut Rng, files: &[(String, String)], nsteps: usize, editable: &[String]) -> Vec<Edit> {
    let mut cur: Vec<(String, String)> = files.iter().filter(|(n, _)| editable.contains(n)).cloned().collect();
    let orig = cur.clone();
    let mut edits: Vec<Edit> = vec![];
    let mut undo: Vec<(usize, String)> = vec![];
    let mut focus = r.below(cur.len());
    while edits.len() < nsteps {
        if r.chance(1, 4) {
            focus = r.below(cur.len());
        }
        let fi = focus;
        let name = cur[fi].0.clone();
        let text = cur[fi].1.clone();
        let k = r.below(100);
        if k < 5 {
            // empty the file, restore it later
            undo.push((fi, text.clone()));
            cur[fi].1 = String::new();
            edits.push(Edit { file: name, range: None, text: String::new(), kind: "empty-file".into() });
            if r.chance(1, 3) {
                edits.push(reload_edit(r));
            }
            continue;
        }
        if k < 13 && !undo.is_empty() {
            let (ufi, utext) = undo.pop().unwrap();
            cur[ufi].1 = utext.clone();
            edits.push(Edit { file: cur[ufi].0.clone(), range: None, text: utext, kind: "restore".into() });
            continue;
        }
        if k < 16 {
            // back to the original (valid) text of the file
            cur[fi].1 = orig[fi].1.clone();
            edits.push(Edit { file: name, range: None, text: orig[fi].1.clone(), kind: "reset-to-original".into() });
            continue;
        }
        if k < 19 && cur.len() > 1 {
            // swap the contents of two files (units move between files / libraries)
            let fj = (fi + 1 + r.below(cur.len() - 1)) % cur.len();
            let (a, b) = (cur[fi].1.clone(), cur[fj].1.clone());
            cur[fi].1 = b.clone();
            cur[fj].1 = a.clone();
            edits.push(Edit { file: cur[fi].0.clone(), range: None, text: b, kind: "swap-files-1".into() });
            edits.push(Edit { file: cur[fj].0.clone(), range: None, text: a, kind: "swap-files-2".into() });
            continue;
        }
        if k < 21 && cur.len() > 1 {
            // copy a unit of another file to the end of this one (duplicate across files)
            let fj = (fi + 1 + r.below(cur.len() - 1)) % cur.len();
            let other = cur[fj].1.clone();
            let us = unit_starts(&other);
            if !us.is_empty() {
                let ui = r.below(us.len());
                let s = us[ui];
                let e = if ui + 1 < us.len() { us[ui + 1] } else { other.len() };
                let ed = Ed { start: text.len(), end: text.len(), text: format!("\n{}", &other[s..e]), kind: "copy-unit-from-other-file" };
                push_edit(&mut edits, &mut cur, fi, &ed, r);
                continue;
            }
        }
        if k < 23 && !edits.iter().any(|e| e.kind == "new-file") {
            // a file the project does not know yet is opened (lands in the anonymous library `work`): a copy of a unit
            let us = unit_starts(&text);
            if !us.is_empty() {
                let ui = r.below(us.len());
                let s = us[ui];
                let e = if ui + 1 < us.len() { us[ui + 1] } else { text.len() };
                edits.push(Edit { file: "opened_new.vhd".into(), range: None, text: text[s..e].to_string(), kind: "new-file".into() });
                continue;
            }
        }
        // one to three mutations applied as separate changes (1 step each)
        let ed = mutate(r, &text);
        undo.push((fi, text.clone()));
        if undo.len() > 4 {
            undo.remove(0);
        }
        push_edit(&mut edits, &mut cur, fi, &ed, r);
    }
    edits.truncate(nsteps.max(1));
    edits
}

/// configuration rewrites (vhdl_ls.toml changed + reload) that histories interleave with the text edits; the directive
/// is the text of the edit (kind "reload-config", empty file name)
pub const RELOADS: &[&str] = &[
    "standard = \"2019\"", "standard = \"1993\"", "standard = \"2008\"", "preferred_case = \"upper\"", "lint-table", "extra-lib",
    "standard = \"2019\"\npreferred_case = \"lower\"", "drop-last-file", "standard = \"1993\"\nlint-table",
];

pub fn reload_edit(r: &mut Rng) -> Edit {
    Edit { file: String::new(), range: None, text: r.pick(RELOADS).to_string(), kind: "reload-config".into() }
}

/// vhdl_ls.toml of a case after a reload directive (None = the initial configuration)
pub fn case_toml(case: &Case, directive: Option<&str>) -> String {
    let d = directive.unwrap_or("");
    let mut toml = String::new();
    for line in d.lines() {
        if line.starts_with("standard") || line.starts_with("preferred_case") {
            toml.push_str(line);
            toml.push('\n');
        }
    }
    toml.push_str("[libraries]\n");
    let nlibs = case.libs.len();
    for (k, (lib, files)) in case.libs.iter().enumerate() {
        let mut fs: Vec<&String> = files.iter().collect();
        if d.contains("drop-last-file") && k + 1 == nlibs && fs.len() > 1 {
            fs.pop();
        }
        toml.push_str(&format!("{}.files = [{}]\n", lib, fs.iter().map(|f| format!("'{}'", f)).collect::<Vec<_>>().join(", ")));
    }
    if d.contains("extra-lib") {
        toml.push_str("extra_lib.files = []\n");
    }
    if d.contains("lint-table") {
        toml.push_str("\n[lint]\nunused = 'error'\nduplicate = false\n");
    }
    toml
}

fn push_edit(edits: &mut Vec<Edit>, cur: &mut [(String, String)], fi: usize, ed: &Ed, r: &mut Rng) {
    let text = cur[fi].1.clone();
    let new = apply(&text, ed);
    let (l1, c1) = pos_of(&text, ed.start);
    let (l2, c2) = pos_of(&text, ed.end);
    // mostly ranged (incremental sync), sometimes the whole document is sent
    let e = if r.chance(1, 8) {
        Edit { file: cur[fi].0.clone(), range: None, text: new.clone(), kind: format!("{}/full", ed.kind) }
    } else {
        Edit { file: cur[fi].0.clone(), range: Some([l1, c1, l2, c2]), text: ed.text.clone(), kind: ed.kind.to_string() }
    };
    cur[fi].1 = new;
    edits.push(e);
    // an unsaved edit that makes the buffer shorter than the file on disk, then a configuration reload
    let shrinks = ed.end - ed.start > ed.text.len() + 20;
    if (shrinks && r.chance(1, 3)) || r.chance(1, 50) {
        edits.push(reload_edit(r));
    }
}

/// A case of the exploration: family by index, history length by tier.
pub fn gen_case(seed: u64, idx: usize, nsteps: usize) -> Case {
    let mut r = Rng::new(seed.wrapping_mul(1_000_003).wrapping_add(idx as u64));
    let fam = match idx % 20 {
        0..=5 => "gen-ieee",
        6..=9 => "gen-std",
        10..=13 => "small",
        14..=17 => "slice",
        18 => "ownstd",
        _ => "ownieee",
    };
    let (std_mode, (libs, files)) = match fam {
        "gen-ieee" => ("full", gen_project(&mut r, true, false)),
        "gen-std" => ("std", gen_project(&mut r, false, false)),
        "small" => (if r.chance(1, 6) { "none" } else { "std" }, small_project(&mut r)),
        "slice" => ("full", slice_project(&mut r)),
        "ownieee" => ("std", ownieee_project(&mut r)),
        _ => ("own", ownstd_project(&mut r)),
    };
    let editable: Vec<String> = files.iter().map(|(n, _)| n.clone()).collect();
    let edits = gen_history(&mut r, &files, nsteps, &editable);
    Case {
        id: format!("s{seed}-{idx}"),
        family: fam.to_string(),
        std_mode: std_mode.to_string(),
        libs,
        files,
        edits,
        cursors: vec![],
    }
}

// ------------------------------------------------------------------------------------------------
// kind confusion: at every kind of use site substitute the name of a declaration of every other kind
// ------------------------------------------------------------------------------------------------
pub const ZOO_PKG: &str = "package zoo_g0 is
  generic (g : integer := 0);
  constant ic : integer := g;
end package;

package zoo_pkg is
  procedure p_none;
  procedure p_def(x : integer := 0);
  procedure p_arg(x : integer);
  procedure p_ovl;
  procedure p_ovl(x : integer);
  function f_none return integer;
  function f_def(x : integer := 0) return integer;
  function f_arg(x : integer) return integer;
  impure function f_imp return boolean;
  function f_ovl(x : integer) return integer;
  function f_ovl(x : bit) return bit;
  function f_bool return boolean;
  function f_cv(x : bit) return bit;
  procedure p_cv(x : bit);
  type t_enum is (lit_a, lit_b, lit_c);
  subtype st_int is integer range 0 to 7;
  type t_rec is record
    el : integer;
    el2 : bit;
  end record;
  type t_arr is array (0 to 3) of integer;
  type t_uarr is array (natural range <>) of integer;
  type t_phys is range 0 to 1000 units u_a; u_b = 10 u_a; end units;
  type t_acc is access integer;
  type t_file is file of integer;
  type t_prot is protected
    procedure m_inc;
    impure function m_get return integer;
  end protected;
  function \"+\"(l, r : t_rec) return t_rec;
  constant c_int : integer := 2;
  constant c_bool : boolean := true;
  constant c_time : time := 1 ns;
  constant c_rec : t_rec := (el => 1, el2 => '0');
  constant c_arr : t_arr := (others => 0);
  constant c_enum : t_enum := lit_a;
  constant c_def : integer;
  signal s_sig : bit;
  signal s_int : integer;
  shared variable sv_prot : t_prot;
  file fl_file : t_file;
  alias a_obj is c_int;
  alias a_typ is t_enum;
  alias a_sub is f_arg[integer return integer];
  alias a_proc is p_none[];
  attribute at_attr : integer;
  attribute at_attr of c_int : constant is 3;
  component comp_c is
    port (a : in bit := '0');
  end component;
  package inner_pkg is new work.zoo_g0 generic map (g => 1);
  constant c_uarr : t_uarr(0 to 3) := (others => 0);
  constant c_un1 : boolean := not c_bool and f_bool;
  constant c_un2 : integer := abs c_int + 1;
  constant c_un3 : integer := - c_int * 2 ** 2;
end package zoo_pkg;

package body zoo_pkg is
  procedure p_none is begin null; end;
  procedure p_def(x : integer := 0) is begin null; end;
  procedure p_arg(x : integer) is begin null; end;
  procedure p_ovl is begin null; end;
  procedure p_ovl(x : integer) is begin null; end;
  function f_none return integer is begin return 1; end;
  function f_def(x : integer := 0) return integer is begin return x; end;
  function f_arg(x : integer) return integer is begin return x; end;
  impure function f_imp return boolean is begin return true; end;
  function f_ovl(x : integer) return integer is begin return x; end;
  function f_ovl(x : bit) return bit is begin return x; end;
  function f_bool return boolean is begin return false; end;
  function f_cv(x : bit) return bit is begin return x; end;
  procedure p_cv(x : bit) is begin null; end;
  type t_prot is protected body
    variable cnt : integer := 0;
    procedure m_inc is begin cnt := cnt + 1; end;
    impure function m_get return integer is begin return cnt; end;
  end protected body;
  function \"+\"(l, r : t_rec) return t_rec is begin return l; end;
  constant c_def : integer := 5;
end package body zoo_pkg;

entity zoo_leaf is
  port (a : in bit := '0');
end entity;

architecture leaf_arch of zoo_leaf is
begin
end architecture;

context zoo_ctx is
  library lib;
  use lib.zoo_pkg.all;
end context;
";

/// names of declarations of every kind that are visible at the use sites
pub const ZOO_NAMES: &[&str] = &[
    "p_none", "p_def", "p_arg", "p_ovl", "p_cv", "f_cv", "f_none", "f_def", "f_arg", "f_imp", "f_ovl", "f_bool", "t_enum", "st_int", "t_rec", "t_arr", "t_uarr",
    "t_phys", "t_acc", "t_file", "t_prot", "lit_a", "u_a", "u_b", "el", "c_int", "c_bool", "c_time", "c_rec", "c_arr", "c_enum", "c_def", "s_sig",
    "s_int", "sv_prot", "fl_file", "a_obj", "a_typ", "a_sub", "a_proc", "at_attr", "comp_c", "inner_pkg", "zoo_pkg", "lib", "work", "std", "zoo_leaf",
    "zoo_ent", "zoo_arch", "zoo_ctx", "lbl_proc", "lbl_blk", "lbl_inst", "lbl_loop", "lbl_gen", "v_int", "v_bool", "v_acc", "g_gen", "p_port", "m_inc",
    "m_get", "ic", "integer", "boolean", "now", "textio", "undefined_name", "loc_fn", "loc_pr",
];

/// (region, line template with `@` for the substituted name, default name). Regions: d = architecture declarative
/// part, c = concurrent statements, s = sequential statements of process lbl_proc (inside loop lbl_loop: l)
pub const ZOO_SITES: &[(&str, &str, &str)] = &[
    ("d", "  constant k_init : integer := @;", "c_int"),
    ("d", "  signal s_con : bit_vector(0 to @);", "c_int"),
    ("d", "  subtype st_loc is integer range @ to 9;", "c_int"),
    ("d", "  signal s_typ : @;", "st_int"),
    ("d", "  signal s_typ2 : t_uarr(0 to 1) := (others => @);", "c_int"),
    ("d", "  constant k_att : integer := @'length;", "c_arr"),
    ("d", "  constant k_att2 : integer := @'pos(lit_a);", "t_enum"),
    ("d", "  constant k_att3 : integer := t_enum'pos(@);", "lit_a"),
    ("d", "  constant k_idx : integer := c_arr(@);", "c_int"),
    ("d", "  constant k_idx2 : integer := @(1);", "c_arr"),
    ("d", "  constant k_call : integer := f_arg(@);", "c_int"),
    ("d", "  constant k_call2 : integer := f_arg(x => @);", "c_int"),
    ("d", "  constant k_call3 : integer := f_arg(@ => 1);", "x"),
    ("d", "  constant k_call4 : integer := f_arg(@(x) => 1);", "f_arg"),
    ("d", "  constant k_fn : integer := @;", "f_none"),
    ("d", "  constant k_sel : integer := c_rec.@;", "el"),
    ("d", "  constant k_pre : integer := @.el;", "c_rec"),
    ("d", "  constant k_pre2 : integer := lib.zoo_pkg.@;", "c_int"),
    ("d", "  constant k_pre3 : integer := lib.@.c_int;", "zoo_pkg"),
    ("d", "  constant k_pre4 : integer := @.zoo_pkg.c_int;", "lib"),
    ("d", "  alias al_loc is @;", "c_int"),
    ("d", "  alias al_sub is @[integer return integer];", "f_arg"),
    ("d", "  attribute at_attr of @ : signal is 1;", "s_con"),
    ("d", "  attribute @ of s_typ : signal is 1;", "at_attr"),
    ("d", "  constant k_ua : integer := @'at_attr;", "c_int"),
    ("d", "  constant k_qual : integer := @'(3);", "st_int"),
    ("d", "  constant k_conv : integer := @(3);", "st_int"),
    ("d", "  constant k_phys : t_phys := 3 @;", "u_a"),
    ("d", "  constant k_agg : t_rec := (@ => 1, el2 => '0');", "el"),
    ("d", "  constant k_op : boolean := @ = 1;", "c_int"),
    ("d", "  constant k_op2 : integer := - @;", "c_int"),
    ("d", "  constant k_op3 : t_rec := c_rec + @;", "c_rec"),
    ("d", "  constant k_rng : integer := c_uarr(@ to 1)'length;", "c_int"),
    ("d", "  subtype st_arr is t_uarr(@'range);", "c_arr"),
    ("d", "  subtype st_res is @ integer;", "loc_res"),
    ("d", "  type t_loc is array (@) of bit;", "t_enum"),
    ("d", "  type t_loc2 is array (0 to 1) of @;", "st_int"),
    ("d", "  type t_loc3 is access @;", "st_int"),
    ("d", "  type t_loc4 is file of @;", "st_int"),
    ("d", "  type t_loc5 is record rel : @; end record;", "st_int"),
    ("d", "  file fl_loc : @;", "t_file"),
    ("d", "  for all : @ use entity work.zoo_leaf;", "comp_c"),
    ("d", "  function loc_ret return integer is begin return @; end;", "c_int"),
    ("d", "  function loc_ret2 return @ is begin return 1; end;", "st_int"),
    ("d", "  procedure loc_par(x : @ := 1) is begin null; end;", "st_int"),
    ("d", "  procedure loc_par2(x : integer := @) is begin null; end;", "c_int"),
    ("d", "  use @.all;", "inner_pkg"),
    ("d", "  use lib.zoo_pkg.@;", "c_int"),
    ("d", "  package loc_inst is new work.@ generic map (g => 1);", "zoo_gen"),
    ("d", "  package loc_inst2 is new work.zoo_gen generic map (g => @);", "c_int"),
    ("c", "  s_out <= @;", "s_sig"),
    ("c", "  s_out2 <= '1' when @ = 1 else '0';", "c_int"),
    ("c", "  s_out3 <= '1' when @ else '0';", "c_bool"),
    ("c", "  s_out4 <= '1' after @;", "c_time"),
    ("c", "  lbl_i1 : @ port map (a => s_out);", "comp_c"),
    ("c", "  lbl_i2 : component @;", "comp_c"),
    ("c", "  lbl_i3 : entity work.@;", "zoo_leaf"),
    ("c", "  lbl_i4 : entity work.zoo_leaf(@);", "leaf_arch"),
    ("c", "  lbl_i5 : comp_c port map (a => @);", "s_sig"),
    ("c", "  lbl_i6 : comp_c port map (@ => s_sig);", "a"),
    ("c", "  lbl_i7 : entity work.zoo_gent generic map (g => @);", "c_int"),
    ("c", "  lbl_i8 : configuration work.@;", "zoo_cfg"),
    ("c", "  lbl_i9 : comp_c port map (@(a) => s_sig);", "f_cv"),
    ("c", "  lbl_i10 : comp_c port map (a => @(s_sig));", "f_cv"),
    ("c", "  lbl_i11 : entity work.zoo_gent generic map (@(g) => 1);", "f_arg"),
    ("c", "  lbl_i12 : entity work.zoo_gent generic map (g => @(1));", "f_arg"),
    ("c", "  lbl_c3 : p_arg(@(x) => 1);", "f_arg"),
    ("c", "  @;", "p_none"),
    ("c", "  lbl_c2 : @(1);", "p_arg"),
    ("c", "  lbl_g1 : for gi in 0 to @ generate begin end generate;", "c_int"),
    ("c", "  lbl_g2 : if @ generate begin end generate;", "c_bool"),
    ("c", "  lbl_g3 : case @ generate when others => end generate;", "c_int"),
    ("c", "  lbl_g4 : for gi in @ generate begin end generate;", "t_enum"),
    ("c", "  with @ select s_out5 <= '1' when 0, '0' when others;", "c_int"),
    ("c", "  with c_int select s_out6 <= '1' when @, '0' when others;", "c_def"),
    ("c", "  assert @ report \"x\";", "c_bool"),
    ("c", "  assert true report \"x\" severity @;", "note"),
    ("c", "  lbl_b2 : block (@) begin end block;", "c_bool"),
    ("c", "  lbl_p2 : process (@) begin end process;", "s_sig"),
    ("s", "    v_bool := @ = 1;", "c_int"),
    ("s", "    v_bool := 1 < @;", "c_int"),
    ("s", "    v_bool := not @;", "c_bool"),
    ("s", "    if @ then null; end if;", "c_bool"),
    ("s", "    if v_bool then null; elsif @ then null; end if;", "c_bool"),
    ("s", "    case @ is when others => null; end case;", "c_int"),
    ("s", "    case c_enum is when @ => null; when others => null; end case;", "lit_a"),
    ("s", "    case c_int is when 0 to @ => null; when others => null; end case;", "c_def"),
    ("s", "    for li in 0 to @ loop null; end loop;", "c_int"),
    ("s", "    for li in @'range loop null; end loop;", "c_arr"),
    ("s", "    for li in @ loop null; end loop;", "t_enum"),
    ("s", "    for li in @ range 0 to 1 loop null; end loop;", "st_int"),
    ("s", "    while @ loop exit; end loop;", "c_bool"),
    ("s", "    v_int := c_arr(@);", "c_int"),
    ("s", "    v_int := c_arr(@ to 2)'length;", "c_int"),
    ("s", "    v_int := @;", "c_int"),
    ("s", "    v_int := @ + 1;", "f_none"),
    ("s", "    v_int := @(1);", "f_arg"),
    ("s", "    v_int := @ when v_bool else 0;", "c_int"),
    ("s", "    v_int := 1 when @ else 0;", "c_bool"),
    ("s", "    @ := 1;", "v_int"),
    ("s", "    @(0) := 1;", "v_arr"),
    ("s", "    @.el := 1;", "v_rec"),
    ("s", "    (@, v_int2) := c_pair;", "v_int"),
    ("s", "    @ <= '1';", "s_out7"),
    ("s", "    s_out7 <= @ after 1 ns;", "s_sig"),
    ("s", "    s_out7 <= force @;", "s_sig"),
    ("s", "    @;", "p_none"),
    ("s", "    @(1);", "p_arg"),
    ("s", "    p_arg(@);", "c_int"),
    ("s", "    p_arg(@(x) => 1);", "f_arg"),
    ("s", "    p_arg(x => @(1));", "f_arg"),
    ("s", "    p_cv(@(x) => '1');", "f_cv"),
    ("s", "    v_int := f_arg(@(x) => 1);", "f_arg"),
    ("s", "    v_int := f_arg(x => @(1));", "f_arg"),
    ("s", "    v_int := integer'(@(1));", "f_arg"),
    ("s", "    sv_prot.@;", "m_inc"),
    ("s", "    v_int := sv_prot.@;", "m_get"),
    ("s", "    @.m_inc;", "sv_prot"),
    ("s", "    wait until @;", "c_bool"),
    ("s", "    wait on @;", "s_sig"),
    ("s", "    wait for @;", "c_time"),
    ("s", "    report integer'image(@);", "c_int"),
    ("s", "    report @'image(1);", "integer"),
    ("s", "    report \"x\" severity @;", "note"),
    ("s", "    assert @;", "c_bool"),
    ("s", "    v_acc := new @;", "st_int"),
    ("s", "    v_acc := new integer'(@);", "c_int"),
    ("s", "    v_int := v_acc.@;", "all"),
    ("s", "    deallocate(@);", "v_acc"),
    ("s", "    v_int := @'length;", "v_arr"),
    ("s", "    v_bool := @'event;", "s_sig"),
    ("s", "    v_int := integer'(@);", "c_int"),
    ("s", "    v_int := << constant .zoo_ent.@ : integer >>;", "k_init"),
    ("l", "      exit @ when v_bool;", "lbl_loop"),
    ("l", "      next @;", "lbl_loop"),
    ("l", "      exit lbl_loop when @;", "c_bool"),
];

pub fn zoo_uses(names: &[&str]) -> (String, Vec<usize>) {
    // returns the text of uses.vhd and, per site, its line number
    let mut t = String::from(
        "library lib;\nuse lib.zoo_pkg.all;\n\npackage zoo_gen is\n  generic (g : integer := 0);\nend package;\n\nentity zoo_gent is\n  generic (g : integer := 0);\nend entity;\n\narchitecture ga of zoo_gent is\nbegin\nend architecture;\n\nlibrary lib;\nuse lib.zoo_pkg.all;\n\nentity zoo_ent is\n  generic (g_gen : integer := 1);\n  port (p_port : in bit := '0');\nend entity zoo_ent;\n\narchitecture zoo_arch of zoo_ent is\n  function loc_res(v : t_uarr) return integer is begin return 0; end;\n  function loc_fn return integer is begin return 1; end;\n  procedure loc_pr is begin null; end;\n  type t_pair is record a : integer; b : integer; end record;\n  constant c_pair : t_pair := (1, 2);\n  signal s_out, s_out2, s_out3, s_out4, s_out5, s_out6, s_out7 : bit;\n",
    );
    let mut lines = vec![0usize; ZOO_SITES.len()];
    let count = |s: &str| s.matches('\n').count();
    let emit = |t: &mut String, lines: &mut Vec<usize>, region: &str| {
        for (i, (r, tpl, _)) in ZOO_SITES.iter().enumerate() {
            if *r == region {
                lines[i] = count(t);
                t.push_str(&tpl.replace('@', names[i]));
                t.push('\n');
            }
        }
    };
    emit(&mut t, &mut lines, "d");
    t.push_str("begin\n  lbl_blk : block begin end block;\n  lbl_inst : comp_c;\n  lbl_gen : if true generate begin end generate;\n");
    emit(&mut t, &mut lines, "c");
    t.push_str("  lbl_proc : process\n    variable v_int, v_int2 : integer;\n    variable v_bool : boolean;\n    variable v_acc : t_acc;\n    variable v_arr : t_arr;\n    variable v_rec : t_rec;\n  begin\n");
    emit(&mut t, &mut lines, "s");
    t.push_str("    lbl_loop : loop\n");
    emit(&mut t, &mut lines, "l");
    t.push_str("      exit;\n    end loop lbl_loop;\n    wait;\n  end process lbl_proc;\nend architecture zoo_arch;\n\nconfiguration zoo_cfg of zoo_leaf is\n  for leaf_arch\n  end for;\nend configuration;\n");
    (t, lines)
}

/// one name per kind: the per-site sweep of the quick tier uses these, the thorough tier all of ZOO_NAMES
pub const ZOO_CORE: &[&str] = &[
    "p_none", "p_def", "p_arg", "p_cv", "p_ovl", "f_none", "f_arg", "f_cv", "f_ovl", "t_enum", "st_int", "t_rec", "t_prot", "lit_a", "u_a", "el", "c_int", "c_rec",
    "s_sig", "sv_prot", "fl_file", "a_obj", "a_typ", "a_sub", "a_proc", "at_attr", "comp_c", "inner_pkg", "zoo_pkg", "lib", "zoo_ent", "zoo_arch",
    "lbl_proc", "lbl_loop", "v_int", "undefined_name",
];

fn zoo_base() -> (Vec<(String, String)>, Vec<usize>, Vec<&'static str>) {
    let defaults: Vec<&str> = ZOO_SITES.iter().map(|s| s.2).collect();
    let (uses, lines) = zoo_uses(&defaults);
    (vec![("zoo_pkg.vhd".to_string(), ZOO_PKG.to_string()), ("uses.vhd".to_string(), uses)], lines, defaults)
}

/// per-site sweep: the identifier at ONE use site is replaced by every name in turn
pub fn zoo_case(id: String, site: usize, all_names: bool, rot: usize) -> Case {
    let (files, lines, defaults) = zoo_base();
    let line = lines[site] as u32;
    let tpl = ZOO_SITES[site].1;
    let mut edits = vec![];
    let mut cur_len = tpl.replace('@', defaults[site]).encode_utf16().count() as u32;
    let names: &[&str] = if all_names { ZOO_NAMES } else { ZOO_CORE };
    for (k, name) in names.iter().enumerate() {
        // quick: every site sees half of the one-per-kind names per run (the region batches see every name every run)
        if !all_names && (k + site + rot) % 2 != 0 {
            continue;
        }
        let new = tpl.replace('@', name);
        edits.push(Edit { file: "uses.vhd".into(), range: Some([line, 0, line, cur_len]), text: new.clone(), kind: "kind-confusion".into() });
        cur_len = new.encode_utf16().count() as u32;
    }
    // back to the valid text
    edits.push(Edit { file: "uses.vhd".into(), range: Some([line, 0, line, cur_len]), text: tpl.replace('@', defaults[site]), kind: "kind-confusion-restore".into() });
    Case { id, family: "kinds".into(), std_mode: "std".into(), libs: vec![("lib".to_string(), vec!["zoo_pkg.vhd".into(), "uses.vhd".into()])], files, edits, cursors: vec![] }
}

/// batch sweep: ALL use sites of one region get the same name at once (whole-document change), for every name
pub fn zoo_batch_case(id: String, region: &str) -> Case {
    let (files, _lines, defaults) = zoo_base();
    let mut edits = vec![];
    for name in ZOO_NAMES.iter() {
        let names: Vec<&str> = ZOO_SITES.iter().enumerate().map(|(i, s)| if s.0 == region { *name } else { defaults[i] }).collect();
        let (text, _) = zoo_uses(&names);
        edits.push(Edit { file: "uses.vhd".into(), range: None, text, kind: "kind-confusion-batch".into() });
    }
    edits.push(Edit { file: "uses.vhd".into(), range: None, text: files[1].1.clone(), kind: "kind-confusion-restore".into() });
    Case { id, family: "kinds-batch".into(), std_mode: "std".into(), libs: vec![("lib".to_string(), vec!["zoo_pkg.vhd".into(), "uses.vhd".into()])], files, edits, cursors: vec![] }
}

/// mode 1 = every name at every site, 2 = one name per kind at every site; the region batches always
pub fn zoo_cases(seed: u64, mode: usize) -> Vec<Case> {
    let mut v: Vec<Case> = ["d", "c", "s", "l"].iter().map(|r| zoo_batch_case(format!("kb{seed}-{r}"), r)).collect();
    v.extend((0..ZOO_SITES.len()).map(|s| zoo_case(format!("k{seed}-{s}"), s, mode == 1, seed as usize)));
    v
}

// ------------------------------------------------------------------------------------------------
// literal family: every kind of (odd) literal and static expression at every expression site
// ------------------------------------------------------------------------------------------------
pub fn literals() -> Vec<String> {
    let mut v: Vec<String> = vec![];
    // bit strings: base specifier x length prefix x value
    for base in ["b", "o", "x", "d", "ub", "uo", "ux", "sb", "so", "sx", "SX"] {
        for len in ["", "0", "1", "4", "3", "12", "4294967296"] {
            for val in ["", "1", "F", "0F", "-1", "7_7", "ZX", "FFFFFFFFFFFFFFFFF", "_", "G", "10"] {
                // keep the product bounded: long / odd values only without prefix, with length 0 and with length 4
                let odd = val.len() > 3 || val == "_" || val == "G" || val == "-1" || val == "ZX" || val == "7_7";
                if odd && !(len.is_empty() || len == "0" || len == "4") {
                    continue;
                }
                if base == "SX" && !(len == "0" || len == "4") {
                    continue;
                }
                v.push(format!("{len}{base}\"{val}\""));
            }
        }
    }
    // based literals
    for s in [
        "0#0#", "1#0#", "2#1#", "2#2#", "2#1_0#", "16#F#", "16#G#", "16#ff#e1", "16#F#E-1", "17#G#", "99#1#", "2#1.1#", "2#1.1#e2", "16#F.F#E+2", "8#7#e100", "10#1#E999999",
        "16##", "16#", "16#F", "2#1#e", "2:1:", "16:F:", "2#101#e-1", "36#Z#", "16#FFFFFFFF#", "16#FFFFFFFFFFFFFFFF#", "16#1_0000_0000_0000_0000#", "2#1__0#", "16#_F#",
    ] {
        v.push(s.to_string());
    }
    // integers, exponents, reals
    for s in [
        "0", "1", "-1", "2147483647", "2147483648", "-2147483648", "-2147483649", "4294967295", "4294967296", "9223372036854775807", "9223372036854775808",
        "18446744073709551615", "18446744073709551616", "340282366920938463463374607431768211456", "1e0", "1e9", "1e10", "1e18", "1e19", "1e20", "1e308", "1e309",
        "1e4294967296", "1e-1", "1E+2", "1e", "1e+", "1_000", "1__0", "_1", "1_", "007", "0.0", "1.0", "1.5", "-0.0", "1.0e308", "1.0e309", "1.0e-400", "1.", ".5", "1.e1",
        "1.0e4294967296", "1.0_1", "3.14159265358979323846264338327950288", "123456789012345678901234567890.0", "1.0e-2147483649",
    ] {
        v.push(s.to_string());
    }
    // physical literals
    for s in [
        "1 ns", "1.5 ns", "0 fs", "1 hr", "9223372036854775807 fs", "9223372036854775808 fs", "1e30 sec", "ns", "1 pu", "2 pk", "1000000 pk", "1 unknown_unit", "1.0e400 ns",
        "-1 ns", "16#F# ns", "1 ps ns", "1ns", "2#1# pu",
    ] {
        v.push(s.to_string());
    }
    // character and string literals
    for s in [
        "'0'", "'1'", "'x'", "'y'", "'z'", "'\u{e9}'", "'''", "' '", "'\u{ff}'", "\"\"", "\"a\"", "\"abc\"", "\"abcd\"", "\"a\"\"b\"", "\"\"\"\"", "\"\u{e9}\u{ff}\"", "\"0101\"", "\"01X1\"", "\"01\"\"1\"",
        "%abc%", "\"abc", "\"a\" & \"b\"", "\"ab\" & 'c'", "('a', 'b', 'c')", "(1 to 3 => 'a')", "\"\u{20ac}\"",
    ] {
        v.push(s.to_string());
    }
    // null, aggregates with odd choices, attributes on scalars, static expressions
    for s in [
        "null", "open", "true", "false", "ea", "(others => 0)", "(others => '0')", "(others => <>)", "(0 => 1, others => 2, others => 3)", "(3 downto 5 => 0)", "(5 to 3 => '1')",
        "(0 => 1, 0 => 2)", "(1, 2, others => 3)", "(-1 => 0)", "(2147483647 => 0, 2147483648 => 1)", "(0 to 4294967296 => 0)", "(a => 1, b => '0')", "(a => 1)", "(a | b => 1)",
        "(a => 1, b => '0', others => 2)", "(others => (others => 0))", "()", "(1)", "((1))", "(1, 2", "(0 to 1 | 3 => 0, 2 => 1)", "(1.0 => 0)", "('a' => 0)", "(ea => 0, eb => 1)",
        "1'range", "1'length", "integer'range", "integer'length", "3'image", "integer'high + 1", "integer'low - 1", "integer'high * 2", "natural'low - 1", "time'high", "real'high * 10.0",
        "1 / 0", "1 mod 0", "1 rem 0", "1.0 / 0.0", "0 ** (-1)", "2 ** 31", "2 ** 63", "2 ** 64", "2 ** 1000", "2.0 ** 2000", "(-1) ** 0.5", "1 sll 1", "\"0001\" sll 100", "\"0001\" sll (-1)",
        "\"0001\" sra 2147483648", "\"1000\" rol (-5)", "x\"F\" srl 4294967296", "not 1", "- '1'", "abs \"01\"", "1 + 1.0", "1 ns / 0", "1 ns / 0 ns", "1 ns * 1e30", "10 ns / 3 ps",
        "-(-2147483648)", "abs (-2147483648)", "-9223372036854775807 - 1", "(1 + 2) * (3 - 3)", "character'val(256)", "character'val(-1)", "t_en'val(4)", "t_en'pos('x')", "t_en'succ('y')",
        "t_en'pred(ea)", "t_en'leftof(ea)", "integer'value(\"x\")", "integer'value(\"\")", "integer'image(1)'length", "bit'pos('1')", "boolean'val(2)", "time'pos(1 ns)", "t_ph'val(5000)",
        "bit_vector'(\"01\")(5)", "string'(\"ab\")(0)", "string'(\"ab\")(3 downto 1)", "c_ia(3)", "c_ia(-1)", "c_ia(5 downto 1)", "c_ia'length(2)", "c_ia'range(0)", "c_ia'left(4294967296)",
    ] {
        v.push(s.to_string());
    }
    v
}

pub const LIT_SITES: &[(&str, &str, &str)] = &[
    ("d", "  constant l_i : integer := @;", "1"),
    ("d", "  constant l_n : natural := @;", "1"),
    ("d", "  constant l_r : real := @;", "1.0"),
    ("d", "  constant l_t : time := @;", "1 ns"),
    ("d", "  constant l_p : t_ph := @;", "1 pu"),
    ("d", "  constant l_b : bit := @;", "'1'"),
    ("d", "  constant l_c : character := @;", "'a'"),
    ("d", "  constant l_e : t_en := @;", "ea"),
    ("d", "  constant l_bv : bit_vector := @;", "x\"F\""),
    ("d", "  constant l_bv4 : bit_vector(3 downto 0) := @;", "x\"F\""),
    ("d", "  constant l_s : string := @;", "\"ab\""),
    ("d", "  constant l_s3 : string(1 to 3) := @;", "\"abc\""),
    ("d", "  constant l_bo : boolean := @;", "true"),
    ("d", "  constant l_ia : t_ia := @;", "(1, 2)"),
    ("d", "  constant l_ia2 : t_ia(0 to 1) := @;", "(1, 2)"),
    ("d", "  constant l_rec : t_r := @;", "(a => 1, b => '0')"),
    ("d", "  subtype l_st is integer range @ to 3;", "0"),
    ("d", "  subtype l_st2 is integer range 0 to @;", "3"),
    ("d", "  subtype l_st3 is real range 0.0 to @;", "1.0"),
    ("d", "  type l_ta is array (0 to @) of bit;", "3"),
    ("d", "  type l_ta2 is array (@ downto 0) of bit;", "3"),
    ("d", "  type l_tr is range 0 to @;", "7"),
    ("d", "  type l_tr2 is range @ downto 0;", "7"),
    ("d", "  type l_tf is range 0.0 to @;", "1.0"),
    ("d", "  type l_tp is range 0 to @ units lu; end units;", "100"),
    ("d", "  signal l_sv : bit_vector(@ downto 0);", "3"),
    ("d", "  signal l_sv2 : bit_vector(0 to 3) := (@ => '1', others => '0');", "1"),
    ("d", "  signal l_sv3 : t_ia(@ to 2);", "0"),
    ("d", "  constant l_op : boolean := @ = @;", "1"),
    ("d", "  constant l_op1 : boolean := @ /= 1;", "2"),
    ("d", "  constant l_op2 : integer := 10 / @;", "2"),
    ("d", "  constant l_op3 : integer := 2 ** @;", "2"),
    ("d", "  constant l_op4 : integer := @ mod 3;", "5"),
    ("d", "  constant l_op5 : bit_vector(3 downto 0) := \"0001\" sll @;", "1"),
    ("d", "  constant l_op6 : integer := - @;", "1"),
    ("d", "  constant l_op7 : integer := abs @;", "1"),
    ("d", "  constant l_op8 : time := @ * 1 ns;", "2"),
    ("d", "  constant l_op9 : real := 1.0 / @;", "2.0"),
    ("d", "  constant l_cat : bit_vector := @ & @;", "\"01\""),
    ("d", "  constant l_cat2 : string := \"x\" & @;", "\"y\""),
    ("d", "  constant l_len : integer := @'length;", "c_ia"),
    ("d", "  constant l_q : integer := integer'(@);", "1"),
    ("d", "  constant l_qb : bit_vector(1 downto 0) := bit_vector'(@);", "\"01\""),
    ("d", "  constant l_qs : string := string'(@);", "\"ab\""),
    ("d", "  constant l_img : string := integer'image(@);", "1"),
    ("d", "  constant l_val : integer := integer'value(@);", "\"1\""),
    ("d", "  constant l_pos : integer := t_en'pos(@);", "ea"),
    ("d", "  constant l_vl : t_en := t_en'val(@);", "0"),
    ("d", "  constant l_idx : integer := c_ia(@);", "0"),
    ("d", "  constant l_sl : t_ia := c_ia(@ downto 0);", "1"),
    ("d", "  constant l_sl2 : t_ia := c_ia(0 to @);", "1"),
    ("d", "  constant l_conv : integer := integer(@);", "1.5"),
    ("d", "  constant l_conv2 : real := real(@);", "1"),
    ("d", "  attribute l_at : integer;", "1"),
    ("d", "  attribute l_at of l_i : constant is @;", "1"),
    ("d", "  function l_f(x : integer := @) return integer is begin return x; end;", "1"),
    ("c", "  so <= @;", "x\"FF\""),
    ("c", "  si <= @;", "1"),
    ("c", "  with si select so2 <= '1' when @, '0' when others;", "1"),
    ("c", "  with si select so3 <= '1' when 0 to @, '0' when others;", "1"),
    ("c", "  lg : for gi in 0 to @ generate begin end generate;", "1"),
    ("c", "  lg2 : if @ = 1 generate begin end generate;", "1"),
    ("c", "  lg3 : case @ generate when others => end generate;", "1"),
    ("c", "  assert false report @;", "\"m\""),
    ("c", "  so4 <= '1' after @;", "1 ns"),
    ("c", "  so5 <= '1' when si = @ else '0';", "1"),
    ("s", "    vi := @;", "1"),
    ("s", "    vb := @ = 1;", "1"),
    ("s", "    vb := @ < @;", "1"),
    ("s", "    vv := @;", "x\"F\""),
    ("s", "    vs := @;", "\"abcd\""),
    ("s", "    vr := @;", "1.0"),
    ("s", "    vt := @;", "1 ns"),
    ("s", "    vc := @;", "'a'"),
    ("s", "    case vi is when @ => null; when others => null; end case;", "1"),
    ("s", "    case vi is when @ to 5 => null; when others => null; end case;", "1"),
    ("s", "    case vv is when @ => null; when others => null; end case;", "x\"F\""),
    ("s", "    case vc is when @ => null; when others => null; end case;", "'a'"),
    ("s", "    case @ is when others => null; end case;", "1"),
    ("s", "    for li in @ to 2 loop null; end loop;", "0"),
    ("s", "    for li in 3 downto @ loop null; end loop;", "0"),
    ("s", "    vi := vv'length + @;", "1"),
    ("s", "    vi := c_ia(@);", "0"),
    ("s", "    vv(@) := '1';", "0"),
    ("s", "    vv(@ downto 0) := \"01\";", "1"),
    ("s", "    wait for @;", "1 ns"),
    ("s", "    report \"x\" & @;", "\"y\""),
    ("s", "    report integer'image(@);", "1"),
    ("s", "    if @ then null; end if;", "true"),
    ("s", "    vi := l_f(@);", "1"),
    ("s", "    so6 <= @ after 1 ns;", "'1'"),
];

pub fn lit_file(vals: &[String]) -> (String, Vec<usize>) {
    let mut t = String::from(
        "package lit_pkg is\n  type t_en is (ea, eb, 'x', 'y');\n  type t_ph is range -1000000 to 1000000 units pu; pk = 1000 pu; end units;\n  type t_ia is array (natural range <>) of integer;\n  type t_r is record a : integer; b : bit; end record;\n  constant c_ia : t_ia(0 to 2) := (1, 2, 3);\nend package;\n\nuse work.lit_pkg.all;\n\nentity lit_ent is\nend entity;\n\narchitecture la of lit_ent is\n  signal so : bit_vector(7 downto 0);\n  signal si : integer;\n  signal so2, so3, so4, so5, so6 : bit;\n",
    );
    let mut lines = vec![0usize; LIT_SITES.len()];
    let count = |s: &str| s.matches('\n').count();
    let emit = |t: &mut String, lines: &mut Vec<usize>, region: &str| {
        for (i, (r, tpl, _)) in LIT_SITES.iter().enumerate() {
            if *r == region {
                lines[i] = count(t);
                t.push_str(&tpl.replace('@', &vals[i]));
                t.push('\n');
            }
        }
    };
    emit(&mut t, &mut lines, "d");
    t.push_str("begin\n");
    emit(&mut t, &mut lines, "c");
    t.push_str("  lp : process\n    variable vi : integer;\n    variable vb : boolean;\n    variable vv : bit_vector(3 downto 0);\n    variable vs : string(1 to 4);\n    variable vr : real;\n    variable vt : time;\n    variable vc : character;\n  begin\n");
    emit(&mut t, &mut lines, "s");
    t.push_str("    wait;\n  end process lp;\nend architecture la;\n");
    (t, lines)
}

fn lit_defaults() -> Vec<String> {
    LIT_SITES.iter().map(|s| s.2.to_string()).collect()
}

/// per-site sweep: every `stride`-th literal (offset rotates with seed and site) at one site
pub fn lit_case(id: String, site: usize, stride: usize, offset: usize) -> Case {
    let defaults = lit_defaults();
    let (text, lines) = lit_file(&defaults);
    let line = lines[site] as u32;
    let tpl = LIT_SITES[site].1;
    let mut cur = tpl.replace('@', &defaults[site]);
    let mut edits = vec![];
    for (k, lit) in literals().iter().enumerate() {
        if stride > 1 && (k + offset) % stride != 0 {
            continue;
        }
        let new = tpl.replace('@', lit);
        edits.push(Edit { file: "lits.vhd".into(), range: Some([line, 0, line, cur.encode_utf16().count() as u32]), text: new.clone(), kind: "literal".into() });
        cur = new;
    }
    edits.push(Edit { file: "lits.vhd".into(), range: Some([line, 0, line, cur.encode_utf16().count() as u32]), text: tpl.replace('@', &defaults[site]), kind: "literal-restore".into() });
    Case { id, family: "lits".into(), std_mode: "std".into(), libs: vec![("lib".to_string(), vec!["lits.vhd".into()])], files: vec![("lits.vhd".to_string(), text)], edits, cursors: vec![] }
}

/// the literals every quick run uses: everything but the bulk of the bit-string product (of which one value per base
/// specifier and length prefix stays)
fn lit_is_core(lit: &str) -> bool {
    let digits = lit.chars().take_while(|c| c.is_ascii_digit()).count();
    let rest = &lit[digits..];
    let letters = rest.chars().take_while(|c| c.is_ascii_alphabetic()).count();
    let is_bit_string = (1..=2).contains(&letters) && rest[letters..].starts_with('"') && rest.ends_with('"') && !rest[letters..].contains(' ');
    if !is_bit_string {
        return true;
    }
    let val = &rest[letters + 1..rest.len() - 1];
    (val == "F" || val == "1") && lit[..digits].len() <= 2
}

/// batch: all sites of one region get the same literal at once, for every literal (quick: the core literals and a
/// seed-rotated third of the others)
pub fn lit_batch_case(id: String, region: &str, quick: bool, seed: u64) -> Case {
    let defaults = lit_defaults();
    let (text, _) = lit_file(&defaults);
    let mut edits = vec![];
    for (k, lit) in literals().iter().enumerate() {
        if quick && !lit_is_core(lit) && (k as u64 + seed) % 3 != 0 {
            continue;
        }
        let vals: Vec<String> = LIT_SITES.iter().enumerate().map(|(i, s)| if s.0 == region { lit.clone() } else { defaults[i].clone() }).collect();
        let (t, _) = lit_file(&vals);
        edits.push(Edit { file: "lits.vhd".into(), range: None, text: t, kind: "literal-batch".into() });
    }
    edits.push(Edit { file: "lits.vhd".into(), range: None, text: text.clone(), kind: "literal-restore".into() });
    Case { id, family: "lits-batch".into(), std_mode: "std".into(), libs: vec![("lib".to_string(), vec!["lits.vhd".into()])], files: vec![("lits.vhd".to_string(), text)], edits, cursors: vec![] }
}

pub fn lit_cases(seed: u64, stride: usize) -> Vec<Case> {
    let mut v: Vec<Case> = ["d", "c", "s"].iter().map(|r| lit_batch_case(format!("lb{seed}-{r}"), r, stride > 2, seed)).collect();
    v.extend((0..LIT_SITES.len()).map(|s| lit_case(format!("l{seed}-{s}"), s, stride, (seed as usize).wrapping_mul(7).wrapping_add(s * 5))));
    v
}

// ------------------------------------------------------------------------------------------------
// duplicate files: a file whose units all duplicate the units of another file of the same library
// ------------------------------------------------------------------------------------------------
pub fn dup_case(seed: u64, idx: usize, nsteps: usize) -> Case {
    let mut r = Rng::new(seed.wrapping_mul(7_000_003).wrapping_add(idx as u64));
    let (mut libs, mut files) = if r.chance(1, 2) { small_project(&mut r) } else { gen_project(&mut r, false, false) };
    // the file to copy: one with at least one unit, mapped to the first library
    let cands: Vec<usize> = (0..files.len()).filter(|&i| libs[0].1.contains(&files[i].0) && !unit_starts(&files[i].1).is_empty()).collect();
    let fi = *r.pick(&cands);
    let orig_name = files[fi].0.clone();
    let orig = files[fi].1.clone();
    let us = unit_starts(&orig);
    // whole-file copy (2/3) or a partial copy (some units)
    let copy = if r.chance(2, 3) || us.len() < 2 {
        orig.clone()
    } else {
        let k = 1 + r.below(us.len() - 1);
        if r.chance(1, 2) { orig[..us[k]].to_string() } else { orig[us[k]..].to_string() }
    };
    if idx % 2 == 1 {
        // THREE or four files declare the same units (primary and secondary): the copies sit below 12-30 lines of padding
        // so that their positions lie beyond the end of every shrunk file. Each file in turn (whichever holds the FIRST
        // unit depends on the order of insertion) is shrunk to a few lines, emptied and restored, twice around.
        let ncopies = 2 + r.below(2);
        let mut names = vec![orig_name.clone()];
        let mut texts = vec![orig.clone()];
        for k in 0..ncopies {
            let n = format!("dup{k}_{}", orig_name.replace('/', "_"));
            let pad = "-- padding\n".repeat(12 + 9 * k + r.below(5));
            let t = format!("{pad}{}", if k == 1 && us.len() >= 2 { orig[us[1]..].to_string() } else { orig.clone() });
            files.push((n.clone(), t.clone()));
            libs[0].1.push(n.clone());
            names.push(n);
            texts.push(t);
        }
        let mut edits: Vec<Edit> = vec![];
        let start = r.below(names.len());
        for round in 0..2 {
            for j in 0..names.len() {
                let i = (start + j) % names.len();
                let (n, t) = (&names[i], &texts[i]);
                // keep only the first 3 lines (round 0) / delete the first 2/3 of the lines (round 1)
                let nlines = t.matches('\n').count() as u32;
                if round == 0 {
                    edits.push(Edit { file: n.clone(), range: Some([3.min(nlines), 0, u32::MAX, 0]), text: String::new(), kind: "dup-shrink".into() });
                } else {
                    edits.push(Edit { file: n.clone(), range: Some([0, 0, nlines * 2 / 3, 0]), text: String::new(), kind: "dup-shrink-front".into() });
                }
                edits.push(Edit { file: n.clone(), range: None, text: String::new(), kind: "dup-empty".into() });
                edits.push(Edit { file: n.clone(), range: None, text: t.clone(), kind: "dup-restore".into() });
            }
        }
        let cur: Vec<(String, String)> = files.clone();
        edits.extend(gen_history(&mut r, &cur, nsteps / 2, &names));
        return Case { id: format!("d{seed}-{idx}"), family: "dups".into(), std_mode: "std".into(), libs, files, edits, cursors: vec![] };
    }
    let dup_name = format!("dup_{}", orig_name.replace('/', "_"));
    files.push((dup_name.clone(), copy.clone()));
    libs[0].1.push(dup_name.clone());
    // scripted part: shift / shrink / empty / restore on both sides (either file may be the one that carries the
    // duplicate diagnostics: it depends on the order in which the files are added), then random edits on the two
    let mut edits: Vec<Edit> = vec![];
    let full = |f: &str, t: &str, k: &str| Edit { file: f.to_string(), range: None, text: t.to_string(), kind: k.to_string() };
    let (a, b) = if r.chance(1, 2) { (dup_name.clone(), orig_name.clone()) } else { (orig_name.clone(), dup_name.clone()) };
    let (ta, tb) = if a == dup_name { (copy.clone(), orig.clone()) } else { (orig.clone(), copy.clone()) };
    edits.push(Edit { file: a.clone(), range: Some([0, 0, 0, 0]), text: "\n\n\n".into(), kind: "dup-shift".into() });
    let half = floor_boundary(&ta, ta.len() / 2);
    let (hl, hc) = pos_of(&format!("\n\n\n{ta}"), 3 + half);
    edits.push(Edit { file: a.clone(), range: Some([hl, hc, u32::MAX, 0]), text: String::new(), kind: "dup-shrink".into() });
    edits.push(full(&a, "", "dup-empty"));
    edits.push(full(&a, &ta, "dup-restore"));
    edits.push(Edit { file: b.clone(), range: Some([0, 0, 0, 0]), text: "-- shifted\n\n".into(), kind: "dup-shift".into() });
    edits.push(full(&b, "", "dup-empty"));
    edits.push(full(&a, "", "dup-empty"));
    edits.push(full(&b, &tb, "dup-restore"));
    edits.push(full(&a, &ta, "dup-restore"));
    let cur: Vec<(String, String)> = files.iter().map(|(n, t)| if *n == a { (n.clone(), ta.clone()) } else if *n == b { (n.clone(), tb.clone()) } else { (n.clone(), t.clone()) }).collect();
    let more = gen_history(&mut r, &cur, nsteps, &[a.clone(), b.clone()]);
    edits.extend(more);
    Case { id: format!("d{seed}-{idx}"), family: "dups".into(), std_mode: "std".into(), libs, files, edits, cursors: vec![] }
}

// ------------------------------------------------------------------------------------------------
// cyclic type declarations: cycles through every type-forming construct + the queries that walk types
// ------------------------------------------------------------------------------------------------
/// (name of the cycle, declarations, type of the object)
pub const CYCLES: &[(&str, &str, &str)] = &[
    ("access-self", "  type a_t;\n  type a_t is access a_t;\n", "a_t"),
    ("access-via-alias", "  type b_t;\n  alias b_al is b_t;\n  type b_t is access b_al;\n", "b_t"),
    ("access-via-alias-of-alias", "  type c_t;\n  alias c_al is c_t;\n  alias c_al2 is c_al;\n  type c_t is access c_al2;\n", "c_t"),
    ("alias-of-access-self", "  type c2_t;\n  type c2_t is access c2_t;\n  alias c2_al is c2_t;\n", "c2_al"),
    ("access-via-subtype", "  type d_t;\n  subtype d_st is d_t;\n  type d_t is access d_st;\n", "d_t"),
    ("subtype-of-access-self", "  type d2_t;\n  type d2_t is access d2_t;\n  subtype d2_st is d2_t;\n", "d2_st"),
    ("record-linked-list", "  type e_t;\n  type e_acc is access e_t;\n  type e_t is record\n    nxt : e_acc;\n    el : integer;\n  end record;\n", "e_acc"),
    ("record-of-itself", "  type f_t;\n  type f_t is record\n    el : f_t;\n    nxt : f_t;\n  end record;\n", "f_t"),
    ("array-of-access", "  type g_t;\n  type g_acc is access g_t;\n  type g_t is array (0 to 1) of g_acc;\n", "g_acc"),
    ("array-of-itself", "  type h_t;\n  type h_t is array (0 to 1) of h_t;\n", "h_t"),
    ("mutual-access", "  type i_t;\n  type j_t;\n  type i_t is access j_t;\n  type j_t is access i_t;\n", "i_t"),
    ("mutual-access-via-alias", "  type k_t;\n  type l_t;\n  alias k_al is k_t;\n  alias l_al is l_t;\n  type k_t is access l_al;\n  type l_t is access k_al;\n", "k_t"),
    ("subtype-cycle", "  type n_t;\n  subtype n_st is n_t;\n  subtype n_t is n_st;\n", "n_st"),
    ("subtype-of-itself", "  subtype o_st is o_st;\n", "o_st"),
    ("alias-of-itself", "  alias o_al is o_al;\n", "o_al"),
    ("protected-self", "  type p_t is protected\n    procedure m(variable o : inout p_t);\n    impure function g return p_t;\n    impure function el return integer;\n  end protected;\n", "p_t"),
    ("access-to-protected-self", "  type q_t;\n  type q_acc is access q_t;\n  type q_t is protected\n    impure function nxt return q_acc;\n    procedure m;\n  end protected;\n", "q_acc"),
    ("record-tree", "  type r_t;\n  type r_acc is access r_t;\n  type r_arr is array (natural range <>) of r_acc;\n  type r_arr_acc is access r_arr;\n  type r_t is record\n    kids : r_arr_acc;\n    nxt : r_acc;\n    el : integer;\n  end record;\n", "r_acc"),
    ("file-of-itself", "  type s_t;\n  type s_t is file of s_t;\n", "s_t"),
    ("never-completed", "  type u_t;\n  type u_acc is access u_t;\n", "u_acc"),
    ("access-to-access-via-alias", "  type v_t;\n  type v_acc is access v_t;\n  alias v_al is v_acc;\n  type v_t is access v_al;\n", "v_t"),
    ("record-element-alias-cycle", "  type w_t;\n  alias w_al is w_t;\n  type w_acc is access w_al;\n  type w_t is record\n    nxt : w_acc;\n    el : w_al;\n  end record;\n", "w_acc"),
    ("range-of-itself", "  type x_t is range 0 to x_t'high;\n", "x_t"),
    ("enum-alias-literal", "  type y_t is (y_a, y_b);\n  alias y_a is y_b [return y_t];\n", "y_t"),
    ("constant-of-itself", "  type z_t is array (0 to z_c'length) of bit;\n  constant z_c : z_t := (others => '0');\n", "z_t"),
];

/// statements that make the analysis / the queries walk the type of the object `@`
pub const CYCLE_USES: &[&str] = &[
    "    @.", "    @.all.", "    @.all.all.", "    @.all.all.all.all.all.all.", "    vo := @.all;", "    @ := null;", "    @.all := @.all;", "    @.all.all := @;",
    "    vi := @'length;", "    vi := @.all'length;", "    @(0).", "    @(0) := @(0);", "    @.all(0).all(0).", "    @.el.", "    @.el := 1;", "    @.nxt.nxt.nxt.",
    "    @.nxt.all.nxt.all.el := 1;", "    @.kids.all(0).all.kids.", "    if @ = null then null; end if;", "    if @.all = @.all.all then null; end if;", "    @.all'",
    "    @'", "    deallocate(@);", "    @ := new ", "    @ := new @;", "    @ := new vo_t'(@.all);", "    @.m;", "    @.m.", "    @.g.g.g.", "    @.m(@);", "    vi := @.el;",
    "    vi := @.nxt.el;", "    report @'image;", "    vo := @;", "    vi := @;", "    for k in @'range loop null; end loop;", "    case @ is when others => null; end case;",
    "    vi := @.all.all'length + @'length;", "    wait on @;", "    @ <= @;",
];

fn cycle_file(decls: &str, objs: &[(String, String)], stmt: &str) -> (String, usize) {
    let mut t = String::from("package cyc_pkg is\n");
    t.push_str(decls);
    t.push_str("end package cyc_pkg;\n\npackage body cyc_pkg is\nend package body;\n\nuse work.cyc_pkg.all;\n\nentity cyc_ent is\nend entity;\n\narchitecture ca of cyc_ent is\n");
    for (o, ty) in objs {
        t.push_str(&format!("  shared variable s{o} : {ty};\n  signal g{o} : {ty};\n"));
    }
    t.push_str("begin\n  cp : process\n    variable vi : integer;\n");
    for (o, ty) in objs {
        t.push_str(&format!("    variable {o} : {ty};\n    variable {o}_2 : {ty};\n"));
    }
    t.push_str("  begin\n");
    let line = t.matches('\n').count();
    t.push_str(stmt);
    t.push_str("\n    wait;\n  end process cp;\nend architecture ca;\n");
    (t, line)
}

/// One case per cycle: the declarations of that cycle alone, an object of the type, every use in turn.
/// `with_all` adds one case with ALL cycles declared together, per use every object in turn.
pub fn cycle_cases(seed: u64) -> Vec<Case> {
    let mut out = vec![];
    let mk = |id: String, decls: &str, objs: Vec<(String, String)>, stmts: Vec<String>| -> Case {
        let (text, line) = cycle_file(decls, &objs, "    null;");
        let mut cur = "    null;".to_string();
        let mut edits = vec![];
        for s in stmts {
            edits.push(Edit { file: "cyc.vhd".into(), range: Some([line as u32, 0, line as u32, cur.encode_utf16().count() as u32]), text: s.clone(), kind: "type-cycle-use".into() });
            cur = s;
        }
        Case { id, family: "cycles".into(), std_mode: "std".into(), libs: vec![("lib".to_string(), vec!["cyc.vhd".into()])], files: vec![("cyc.vhd".to_string(), text)], edits, cursors: vec![] }
    };
    for (name, decls, ty) in CYCLES.iter() {
        let objs = vec![("vo".to_string(), ty.to_string())];
        let stmts: Vec<String> = CYCLE_USES.iter().map(|u| u.replace("vo_t", ty).replace('@', "vo")).collect();
        out.push(mk(format!("cy{seed}-{name}"), decls, objs, stmts));
        // the same through the shared variable / signal of that type
        let stmts2: Vec<String> = CYCLE_USES.iter().enumerate().map(|(k, u)| u.replace("vo_t", ty).replace('@', if k % 2 == 0 { "svo" } else { "gvo" })).collect();
        out.push(mk(format!("cy{seed}-{name}-shared"), decls, vec![("vo".to_string(), ty.to_string())], stmts2));
    }
    // all cycles in one package
    let all_decls: String = CYCLES.iter().map(|c| c.1).collect();
    let objs: Vec<(String, String)> = CYCLES.iter().enumerate().map(|(i, c)| (format!("vo{i}"), c.2.to_string())).collect();
    for (k, u) in CYCLE_USES.iter().enumerate() {
        if (k as u64 + seed) % 4 != 0 {
            continue;
        }
        let stmts: Vec<String> = objs.iter().map(|(o, ty)| u.replace("vo_t", ty).replace('@', o)).collect();
        out.push(mk(format!("cy{seed}-all-{k}"), &all_decls, objs.clone(), stmts));
    }
    out
}

// ------------------------------------------------------------------------------------------------
// cross-unit combinations: constructs that decorate / extend / refer into an entity of ANOTHER design unit
// ------------------------------------------------------------------------------------------------
pub const XUNIT_PKG: &str = "package x_gen is
  generic (g : integer := 0);
  constant gc : integer := g;
end package;

package x_pkg is
  type x_prot is protected
    procedure m;
  end protected;
  type x_ft is file of integer;
  type x_typ is (x_lit, x_lit2);
  subtype x_sub is integer range 0 to 3;
  type x_inc;
  type x_phy is range 0 to 10 units x_unit; end units;
  type x_rec is record
    el : integer;
  end record;
  signal x_sig : bit;
  constant x_con : integer := 1;
  constant x_def : integer;
  shared variable x_var : x_prot;
  file x_fil : x_ft;
  function x_fun(a : integer) return integer;
  procedure x_pro(a : integer);
  component x_comp is
    port (a : in bit := '0');
  end component;
  attribute x_att : boolean;
  attribute x_att of x_con : constant is true;
  alias x_al is x_sig;
  alias x_alt is x_typ;
  package x_inst is new work.x_gen generic map (g => 1);
end package x_pkg;

package body x_pkg is
  type x_prot is protected body
    procedure m is begin null; end;
  end protected body;
  constant x_def : integer := 2;
  function x_fun(a : integer) return integer is begin return a; end;
  procedure x_pro(a : integer) is begin null; end;
end package body x_pkg;

entity x_leaf is
  port (a : in bit := '0');
end entity;

architecture la of x_leaf is
begin
end architecture;
";

/// (name in x_pkg / library unit, its entity class)
pub const XUNIT_TARGETS: &[(&str, &str)] = &[
    ("x_sig", "signal"), ("x_con", "constant"), ("x_def", "constant"), ("x_var", "variable"), ("x_fil", "file"), ("x_typ", "type"), ("x_sub", "subtype"),
    ("x_inc", "type"), ("x_prot", "type"), ("x_rec", "type"), ("x_phy", "type"), ("x_unit", "units"), ("x_lit", "literal"), ("x_fun", "function"),
    ("x_pro", "procedure"), ("x_comp", "component"), ("x_att", "signal"), ("x_al", "signal"), ("x_alt", "type"), ("x_inst", "package"),
];

pub const XUNIT_TEMPLATES: &[&str] = &[
    "  attribute keep of @ : {c} is true;",
    "  attribute keep of @ : {o} is true;",
    "  attribute x_att of @ : {c} is true;",
    "  attribute keep of @, @ : {c} is true;",
    "  attribute keep of all : {c} is true;",
    "  attribute keep of others : {c} is true;",
    "  attribute keep of @[integer return integer] : {c} is true;",
    "  for all : @ use entity work.x_leaf;",
    "  for xi : @ use entity lib.x_leaf(la);",
    "  alias xa2 is @; alias xa3 is xa2; attribute keep of xa3 : {c} is true;",
    "  alias xa4 is @[integer return integer]; attribute keep of xa4 : {c} is true;",
    "  constant @ : integer := 5;",
    "  type @ is protected body end protected body;",
    "  function @(a : integer) return integer is begin return a; end;",
    "  procedure @(a : integer) is begin null; end;",
    "  type @ is (xa, xb);",
    "  type @ is record el : integer; end record;",
    "  use @.all;",
    "  package xinst is new @ generic map (g => 2);",
    "  signal xs : bit := << signal .x_user.@ : bit >>;",
    "  disconnect @ : bit after 1 ns;",
    "  subtype xst is @; signal xs2 : @;",
    "  constant xc : boolean := @'keep;",
    "  constant xc2 : boolean := @'x_att;",
    "  constant xc3 : integer := @'length + @.el;",
];

fn xunit_use_file(site: &str) -> (String, usize) {
    let mut t = String::from("library lib;\nuse lib.x_pkg.all;\n\nentity x_user is\nend entity;\n\narchitecture ua of x_user is\n  attribute keep : boolean;\n");
    let line = t.matches('\n').count();
    t.push_str(site);
    t.push_str("\nbegin\n  xi : x_comp;\nend architecture ua;\n");
    (t, line)
}

/// One case per target: every template through the access paths (use-visible name, selected name, local alias,
/// alias of alias); quick = local alias + one rotating other path, thorough = all four.
pub fn xunit_cases(seed: u64, all_paths: bool) -> Vec<Case> {
    let classes: Vec<&str> = vec!["signal", "constant", "variable", "file", "type", "subtype", "units", "literal", "function", "procedure", "component", "package", "entity", "label"];
    let mut out = vec![];
    for (ti, (name, class)) in XUNIT_TARGETS.iter().enumerate() {
        let blank = "  -- site\n  -- site".to_string();
        let (text, line) = xunit_use_file(&blank);
        let mut edits = vec![];
        let mut nl = 2u32;
        for (k, tpl) in XUNIT_TEMPLATES.iter().enumerate() {
            let other = classes[(k + ti + seed as usize) % classes.len()];
            for path in 0..4usize {
                if !all_paths && path != 2 && path != (k + ti + seed as usize) % 4 {
                    continue;
                }
                let (pre, at) = match path {
                    0 => ("  -- use-visible".to_string(), name.to_string()),
                    1 => ("  -- selected".to_string(), format!("lib.x_pkg.{name}")),
                    2 => (format!("  alias xal is lib.x_pkg.{name};"), "xal".to_string()),
                    _ => (format!("  alias xal0 is {name}; alias xal is xal0;"), "xal".to_string()),
                };
                let body = tpl.replace('@', &at).replace("{c}", class).replace("{o}", other);
                let new = format!("{pre}\n{body}");
                edits.push(Edit { file: "x_use.vhd".into(), range: Some([line as u32, 0, line as u32 + nl - 1, 4294967295]), text: new.clone(), kind: "cross-unit".into() });
                nl = new.matches('\n').count() as u32 + 1;
            }
        }
        out.push(Case {
            id: format!("xu{seed}-{name}"),
            family: "xunit".into(),
            std_mode: "std".into(),
            libs: vec![("lib".to_string(), vec!["x_pkg.vhd".into(), "x_use.vhd".into()])],
            files: vec![("x_pkg.vhd".to_string(), XUNIT_PKG.to_string()), ("x_use.vhd".to_string(), text)],
            edits,
            cursors: vec![],
        });
    }
    out
}
