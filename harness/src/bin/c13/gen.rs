//! Generated multi-file projects for C13: a package, two entities with architectures, optionally a
//! second library, built from menus of valid and erroneous declarations / statements (undeclared
//! names, type errors, duplicates, missing units, unused declarations, sensitivity lists, syntax
//! errors).  `{name}` in a template is an identifier occurrence written in a random letter case,
//! so the original projects already mix spellings of the same identifier.
use super::Files;
use verif_harness::rng::Rng;

fn cased(rng: &mut Rng, w: &str) -> String {
    match rng.below(6) {
        0 => w.to_ascii_uppercase(),
        1 | 2 => w.to_string(),
        3 => {
            let mut c = w.to_string();
            c[..1].make_ascii_uppercase();
            c
        }
        _ => w.chars().map(|c| if rng.below(2) == 0 { c.to_ascii_uppercase() } else { c.to_ascii_lowercase() }).collect(),
    }
}

/// replaces every `{word}` by a case variant of `word`
fn r(rng: &mut Rng, s: &str) -> String {
    let mut out = String::new();
    let mut it = s.chars().peekable();
    while let Some(c) = it.next() {
        if c == '{' {
            let mut w = String::new();
            for d in it.by_ref() {
                if d == '}' {
                    break;
                }
                w.push(d);
            }
            out.push_str(&cased(rng, &w));
        } else {
            out.push(c);
        }
    }
    out
}

const SEQ_OK: &[&str] = &[
    "    {v} := {f3}(1, {red}, '0') + {f3}({c0}, {blue}, '1');\n",
    "    {r} <= (1, {blue});\n",
    "    {r} <= ({c0}, {green}); {pr}({q}, {f3}(2, {red}, '0'));\n",
    "    -- a line comment between statements\n",
    "    /* a block comment\n       over two lines */ {null}; -- trailing\n",
    "    {v} := {f}({red}) + {f}(2) + {c0};\n",
    "    {s1} <= {v};\n",
    "    {r}.{a} <= {g};\n",
    "    {pr}({q}, {v});\n",
    "    {col} <= 'a';\n",
    "    {col} <= 'A';\n",
    "    {if} {rising_edge}({clk}) {then}\n      {s2} <= {d};\n    {end} {if};\n",
    "    {case} {col} {is}\n      {when} {red} => {s1} <= 0;\n      {when} {green} | {blue} => {s1} <= 16#F#;\n      {when} {others} => {null};\n    {end} {case};\n",
    "    {for} {i} {in} 0 {to} 3 {loop}\n      {v} := {v} + {i};\n    {end} {loop};\n",
    "    {report} {msg} & {integer}'{image}({v}) {severity} {note};\n",
    "    {v} := {integer}'{high} - {c1};\n",
    "    {v} := {work}.{pkg}.\\Ext\\;\n",
    "    {r} <= ({a} => 1, {b} => {blue});\n",
    "    {v} := {arr}'{length} + {arr}({arr}'{low});\n",
    "    {bvs} <= x\"aB\" {and} {bv};\n",
    "    {wait} {until} {clk} = '1' {for} 10 {ns};\n",
];
const SEQ_BAD: &[&str] = &[
    "    {v} := {f3}({red}, 1, '0');\n",
    "    {r} <= ({blue}, 1);\n",
    "    {v} := {nope} + 1;\n",
    "    {v} := {red};\n",
    "    {s1} <= {r};\n",
    "    {v} := {f}({true});\n",
    "    {v} := {r}.{zz};\n",
    "    {v} <= 1;\n    {s1} := 2;\n",
    "    {v} := {work}.{pkg}.{zz};\n",
    "    {v} := {work}.{pkg}.\\ext\\;\n",
    "    {col} <= 'b';\n",
    "    {pr}({q});\n",
    "    {v} := {c0} {c1};\n",
    "    {s1} <= ;\n",
    "    {if} {v} = 1 {s1} <= 2; {end} {if};\n",
    "    {v} := {f}({x} => 1, {y} => 2);\n",
    "    {msg} := \"abc\";\n",
    "    {nolabel} : {nothing}({v});\n",
    "    {v} := {lib9}.{pkg}.{c0};\n",
    "    {v} := 1 +\n      {true};\n",
];
const DECL_OK: &[&str] = &[
    "  -- vhdl_ls off\n  {signal} {fenced} : {no_such_type} := {nothing};\n  -- vhdl_ls on\n",
    "  -- vhdl_ls off\n\n  {signal} {fenced2} : {no_such_type}\n  {garbage} ;; (\n  /* vhdl_ls on */\n",
    "  -- declarations follow; 'x' \"y\" -- nested\n",
    "  {alias} {al} {is} {s1};\n",
    "  {constant} {k0} : {integer} := {c0} + 2#1_0#;\n",
    "  {type} {loc_t} {is} ({la}, {lb});\n  {signal} {ls} : {loc_t};\n",
    "  {function} {lf}({x} : {integer}) {return} {integer} {is}\n  {begin}\n    {return} {x} * 2;\n  {end} {function};\n",
    "  {subtype} {small_t} {is} {integer} {range} 0 {to} 7;\n  {signal} {sm} : {small_t};\n",
    "  {attribute} {mark} : {string};\n  {attribute} {mark} {of} {s1} : {signal} {is} \"Keep\";\n",
];
const DECL_BAD: &[&str] = &[
    "  {signal} {dup} : {integer};\n  {signal} {dup} : {bit};\n",
    "  {constant} {k1} : {integer} := {missing_c};\n",
    "  {signal} {dead} : {bit};\n",
    "  {type} {t2} {is} ({x0}, {y0});\n  {type} {t2} {is} {range} 0 {to} 1;\n",
    "  {use} {work}.{nopkg}.{all};\n",
    "  {signal} {bad_t} : {no_type};\n",
    "  {constant} {k2} : {integer} := \"str\";\n",
    "  {signal} {nosemi} : {integer}\n",
    "  {component} {comp} {is}\n    {port} ({a} : {in} {bit});\n  {end} {component};\n",
    "  {signal} {s1} : {bit};\n",
    "  {function} {nobody}({x} : {integer}) {return} {integer};\n",
];
const CONC_OK: &[&str] = &[
    "  -- vhdl_ls off\n  {fl} : {entity} {work}.{vendor_cell} {port} {map} ({x} => {y});\n  -- vhdl_ls on\n",
    "  {u7} : {entity} {work}.{sub2} {generic} {map} (2, \"n\", {true}) {port} {map} ({so}, {s1}, {col}, {so2});\n",
    "  {u8} : {sub2} {generic} {map} (3, \"m\", {false}) {port} {map} ({so}, {s2}, {col}, {open});\n",
    "  {u9} : {entity} {work}.{sub2}({rtl}) {port} {map} ({so}, 16#A#, {red}, {so2});\n",
    "  {q} <= {s1} + {s2};\n",
    "  {u0} : {entity} {work}.{sub} {port} {map} ({a} => {clk}, {b} => {open});\n",
    "  {u1} : {entity} {work}.{sub}({rtl}) {generic} {map} ({w} => 2) {port} {map} ({clk}, {so});\n",
    "  {g0} : {for} {i} {in} 0 {to} 1 {generate}\n    {assert} {i} < 2;\n  {end} {generate};\n",
    "  {g1} : {if} {g} > 0 {generate}\n    {signal} {gs} : {bit};\n  {begin}\n    {gs} <= '1';\n  {end} {generate};\n",
    "  {blk} : {block}\n  {begin}\n  {end} {block};\n",
    "  {assert} {g} > 0 {report} \"G must be Positive\" {severity} {failure};\n",
    "  {with} {col} {select} {s2} <= 1 {when} {red}, 2 {when} {others};\n",
];
const CONC_BAD: &[&str] = &[
    "  {u10} : {entity} {work}.{sub2} {port} {map} ({s1}, {so}, {col}, {so2});\n",
    "  {u11} : {sub2} {generic} {map} (\"n\", 2, {true}) {port} {map} ({so}, {s1}, {col}, {so2});\n",
    "  {u12} : {entity} {work}.{sub2} {port} {map} ({so}, {s1});\n",
    "  {u2} : {entity} {work}.{missing_ent};\n",
    "  {u3} : {entity} {work}.{sub} {port} {map} ({a} => {clk}, {zz} => {clk});\n",
    "  {u4} : {entity} {work}.{sub}({no_arch});\n",
    "  {u5} : {comp2} {port} {map} ({clk});\n",
    "  {q} <= {undefined_sig};\n",
    "  {u6} : {entity} {work}.{sub} {port} {map} ({a} => {s1});\n",
    "  {g2} : {for} {i} {in} 0 {to} 1 {generate}\n    {s1} <= {i}\n  {end} {generate};\n",
    "  {u0} : {entity} {work}.{sub} {port} {map} ({a} => {clk});\n  {u0} : {entity} {work}.{sub} {port} {map} ({a} => {clk});\n",
];
const SENS: &[&str] = &["({clk})", "({s1}, {s2})", "({all})", "({clk}, {dead2})", "", "({d}, {col}, {clk})", "({s1})"];

fn pick<'a>(rng: &mut Rng, ok: &'a [&'a str], bad: &'a [&'a str], pbad: usize) -> &'a str {
    if rng.below(100) < pbad {
        bad[rng.below(bad.len())]
    } else {
        ok[rng.below(ok.len())]
    }
}

pub fn gen_project(rng: &mut Rng) -> Files {
    // about a third of the projects are valid; the others carry 1..4 faults
    let pbad = [0, 0, 12, 20, 35][rng.below(5)];
    let mut libs = Files::new();
    let mut main = Vec::new();

    // ---- package
    let mut pkg = String::new();
    pkg.push_str("{library} {ieee};\n{use} {ieee}.{std_logic_1164}.{all};\n\n{package} {pkg} {is}\n");
    pkg.push_str("  {type} {color_t} {is} ({red}, {green}, {blue}, 'a', 'A');\n");
    pkg.push_str("  {type} {rec_t} {is} {record}\n    {a} : {integer};\n    {b} : {color_t};\n  {end} {record};\n");
    pkg.push_str("  {type} {arr_t} {is} {array} ({natural} {range} <>) {of} {integer};\n");
    pkg.push_str("  {constant} {c0} : {integer} := 16#fF#;\n  {constant} {c1} : {integer} := 1e2;\n");
    pkg.push_str("  {constant} {msg} : {string} := \"Mixed Case \"\"q\"\"\";\n");
    pkg.push_str("  {constant} {bv} : {bit_vector}(7 {downto} 0) := x\"aB\";\n");
    pkg.push_str("  {constant} {arr} : {arr_t}(0 {to} 2) := (1, 2, 3);\n");
    pkg.push_str("  {signal} \\Ext\\ : {integer};\n");
    pkg.push_str("  {function} {f}({x} : {integer}) {return} {integer};\n  {function} {f}({x} : {color_t}) {return} {integer};\n");
    pkg.push_str("  {procedure} {pr}({signal} {s} : {out} {integer}; {v} : {in} {integer});\n");
    if rng.below(2) == 0 {
        pkg.push_str("  {function} {f3}({x} : {integer}; {c} : {color_t}; {bb} : {bit}) {return} {integer};\n");
    } else {
        pkg.push_str("  {function} {f3}({x} : {integer};\n    {c} : {color_t};\n    {bb} : {bit}) {return} {integer};\n");
    }
    if rng.below(100) < pbad {
        pkg.push_str(DECL_BAD[rng.below(7)]);
    }
    pkg.push_str("{end} {package};\n");
    let body_own_file = rng.below(3) == 0;
    let mut pkg_decl = String::new();
    if body_own_file {
        pkg_decl = std::mem::take(&mut pkg);
        if rng.below(2) == 0 {
            pkg.push_str("-- the body of {pkg}, in a file of its own\n\n");
        }
    } else {
        pkg.push_str("\n");
    }
    pkg.push_str("{package} {body} {pkg} {is}\n");
    pkg.push_str("  {function} {f}({x} : {integer}) {return} {integer} {is}\n  {begin}\n    {return} {x} + 1;\n  {end} {function};\n");
    pkg.push_str("  {function} {f}({x} : {color_t}) {return} {integer} {is}\n  {begin}\n    {return} {color_t}'{pos}({x});\n  {end} {function};\n");
    pkg.push_str("  {function} {f3}({x} : {integer}; {c} : {color_t}; {bb} : {bit}) {return} {integer} {is}\n  {begin}\n    {return} {x} + {color_t}'{pos}({c});\n  {end} {function};\n");
    if rng.below(100) >= pbad / 2 {
        pkg.push_str("  {procedure} {pr}({signal} {s} : {out} {integer}; {v} : {in} {integer}) {is}\n  {begin}\n    {s} <= {v};\n  {end} {procedure};\n");
    }
    pkg.push_str("{end} {package} {body};\n");
    if body_own_file {
        main.push(("pkg.vhd".to_string(), r(rng, &pkg_decl)));
        main.push(("pkg_body.vhd".to_string(), r(rng, &pkg)));
    } else {
        main.push(("pkg.vhd".to_string(), r(rng, &pkg)));
    }

    // ---- sub entity
    let mut sub = String::new();
    sub.push_str("{entity} {sub} {is}\n  {generic} ({w} : {integer} := 1);\n  {port} ({a} : {in} {bit}; {b} : {out} {bit});\n{end} {entity} {sub};\n\n");
    sub.push_str("{architecture} {rtl} {of} {sub} {is}\n{begin}\n  {b} <= {not} {a};\n{end} {architecture} {rtl};\n");
    if rng.below(100) < pbad {
        sub.push_str("\n{architecture} {rtl} {of} {sub} {is}\n{begin}\n{end} {architecture};\n");
    }
    sub.push_str("\n{library} {ieee};\n{use} {ieee}.{std_logic_1164}.{all};\n{use} {work}.{pkg}.{all};\n");
    if rng.below(2) == 0 {
        sub.push_str("{entity} {sub2} {is}\n  {generic} ({gw} : {integer} := 1; {gname} : {string} := \"x\"; {gflag} : {boolean} := {false});\n  {port} ({pa} : {in} {bit}; {pi} : {in} {integer}; {pc} : {in} {color_t}; {po} : {out} {bit});\n{end} {entity};\n");
    } else {
        sub.push_str("{entity} {sub2} {is}\n  {generic} (\n    {gw} : {integer} := 1;\n    {gname} : {string} := \"x\";\n    {gflag} : {boolean} := {false});\n  {port} (\n    {pa} : {in} {bit};\n    {pi} : {in} {integer};\n    {pc} : {in} {color_t};\n    {po} : {out} {bit});\n{end} {entity};\n");
    }
    sub.push_str("\n{architecture} {rtl} {of} {sub2} {is}\n{begin}\n  {po} <= {pa} {when} {pi} > {gw} {and} {pc} = {red} {and} {gflag} {else} '0';\n{end} {architecture};\n");
    main.push(("sub.vhd".to_string(), r(rng, &sub)));

    // ---- main entity
    let mut ent = String::new();
    ent.push_str("{library} {ieee};\n{use} {ieee}.{std_logic_1164}.{all};\n{use} {work}.{pkg}.{all};\n\n");
    ent.push_str("{entity} {ent} {is}\n  {generic} ({g} : {integer} := 1);\n  {port} ({clk} : {in} {std_logic}; {d} : {in} {integer}; {q} : {out} {integer}");
    if rng.below(3) == 0 {
        ent.push_str("; {unused_p} : {in} {bit}");
    }
    ent.push_str(");\n{end} {entity};\n");
    let arch_own_file = rng.below(3) == 0;
    let mut ent_decl = String::new();
    if arch_own_file {
        ent_decl = std::mem::take(&mut ent);
        ent.push_str("{library} {ieee};\n{use} {ieee}.{std_logic_1164}.{all};\n{use} {work}.{pkg}.{all};\n");
    }
    ent.push_str("\n{architecture} {a} {of} {ent} {is}\n");
    ent.push_str("  {signal} {s1}, {s2} : {integer};\n  {signal} {r} : {rec_t};\n  {signal} {col} : {color_t};\n  {signal} {so}, {so2} : {bit};\n  {signal} {bvs} : {bit_vector}(7 {downto} 0);\n");
    if rng.below(2) == 0 {
        ent.push_str("  {component} {sub2} {is}\n    {generic} ({gw} : {integer} := 1; {gname} : {string} := \"x\"; {gflag} : {boolean} := {false});\n    {port} ({pa} : {in} {bit}; {pi} : {in} {integer}; {pc} : {in} {color_t}; {po} : {out} {bit});\n  {end} {component};\n");
    } else {
        ent.push_str("  {component} {sub2} {is}\n    {generic} ({gw} : {integer} := 1;\n      {gname} : {string} := \"x\";\n      {gflag} : {boolean} := {false});\n    {port} ({pa} : {in} {bit};\n      {pi} : {in} {integer};\n      {pc} : {in} {color_t};\n      {po} : {out} {bit});\n  {end} {component};\n");
    }
    for _ in 0..rng.below(4) {
        ent.push_str(pick(rng, DECL_OK, DECL_BAD, pbad));
    }
    ent.push_str("{begin}\n");
    let nproc = 1 + rng.below(3);
    for p in 0..nproc {
        let sens = SENS[rng.below(SENS.len())];
        ent.push_str(&format!("  {{p{}}} : {{process}}{}\n    {{variable}} {{v}} : {{integer}};\n  {{begin}}\n", p, sens));
        for _ in 0..1 + rng.below(5) {
            ent.push_str(pick(rng, SEQ_OK, SEQ_BAD, pbad));
        }
        if sens.is_empty() {
            ent.push_str("    {wait};\n");
        }
        ent.push_str("  {end} {process};\n");
    }
    for _ in 0..rng.below(4) {
        ent.push_str(pick(rng, CONC_OK, CONC_BAD, pbad));
    }
    if rng.below(100) < pbad / 2 {
        ent.push_str("{end} {architecture}\n");
    } else {
        ent.push_str("{end} {architecture};\n");
    }
    if arch_own_file {
        main.push(("ent.vhd".to_string(), r(rng, &ent_decl)));
        main.push(("ent_a.vhd".to_string(), r(rng, &ent)));
    } else {
        main.push(("ent.vhd".to_string(), r(rng, &ent)));
    }

    // ---- duplicate primary unit / configuration / context in further files
    match rng.below(6) {
        0 if pbad > 0 => main.push(("dup.vhd".to_string(), r(rng, "{entity} {ent} {is}\n{end} {entity};\n"))),
        1 => main.push((
            "cfg.vhd".to_string(),
            { let w = rng.below(2); r(rng, ["{configuration} {cfg} {of} {ent} {is}\n  {for} {a}\n  {end} {for};\n{end} {configuration};\n",
                    "-- configuration of {ent}\n--\n--\n--\n--\n--\n--\n\n{configuration} {cfg} {of} {ent} {is}\n  {for} {a}\n  {end} {for};\n{end} {configuration};\n"][w]) },
        )),
        2 => main.push((
            "ctx.vhd".to_string(),
            r(rng, "{context} {ctx} {is}\n  {library} {ieee};\n  {use} {ieee}.{std_logic_1164}.{all};\n{end} {context};\n"),
        )),
        3 if pbad > 0 => main.push((
            "cfg.vhd".to_string(),
            r(rng, "{configuration} {cfg} {of} {no_ent} {is}\n  {for} {a}\n  {end} {for};\n{end} {configuration};\n"),
        )),
        _ => {}
    }
    libs.insert("lib".to_string(), main);

    // ---- second library
    if rng.below(2) == 0 {
        let mut tb = String::new();
        tb.push_str("{library} {lib};\n{use} {lib}.{pkg}.{all};\n{library} {ieee};\n{use} {ieee}.{std_logic_1164}.{all};\n\n");
        tb.push_str("{entity} {tb} {is}\n{end} {entity};\n\n{architecture} {sim} {of} {tb} {is}\n");
        tb.push_str("  {signal} {clk} : {std_logic} := '0';\n  {signal} {d}, {q} : {integer};\n");
        if rng.below(100) < pbad {
            tb.push_str("  {signal} {x} : {lib}.{pkg}.{nothing_t};\n");
        }
        tb.push_str("{begin}\n  {clk} <= {not} {clk} {after} 5 {ns};\n");
        tb.push_str("  {dut} : {entity} {lib}.{ent} {generic} {map} ({g} => {c0}) {port} {map} ({clk} => {clk}, {d} => {d}, {q} => {q});\n");
        if rng.below(100) < pbad {
            tb.push_str("  {dut2} : {entity} {lib}.{ent2};\n");
        }
        if rng.below(100) < pbad {
            tb.push_str("  {dut3} : {entity} {work}.{ent};\n");
        }
        tb.push_str("  {stim} : {process}\n  {begin}\n    {d} <= {f}({green});\n    {wait} {for} 1 {us};\n    {wait};\n  {end} {process};\n");
        tb.push_str("{end} {architecture};\n");
        libs.insert("lib2".to_string(), vec![("tb.vhd".to_string(), r(rng, &tb))]);
    }
    libs
}
