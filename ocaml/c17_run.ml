(* C17 runner: the extracted Coq model of the vhdl_syntax tokenizer, green trees, builder and
   rewriters.  Reads the case lines written by harness/src/bin/c17.rs (`bytes|tree|repl`) on stdin
   and prints, per case, `raw|stream|offsets|lexerrors|identity|repl|mflags` in the formats of the
   harness' impl file (see there), computed by the model:
     raw, stream  = synlex kw2008 bytes, merge of it
     tree         = the implementation's tree shape replayed as a parser program over the MODEL's
                    token stream: S<k> -> PStart k, T -> PTake, E -> PEnd; parse_with gives the
                    model root, the lexer-error spans and the unconsumed rest
     offsets      = red_walk 0 root as `offset:len`
     lexerrors    = `start-end:K` of the lexer errors (from parse_with), in token order
     identity     = digest of rewrite leave_all root, digest of token_rewrite keep_all root
     repl         = per request `index:text|-:trivia|-` (clone_with_text and/or clone_with_leading_trivia of the
                    index-th token): digests of bytes_of after token_rewrite / rewrite with the counting closures
     (inputs given by a descriptor `@deep:..` or marked BIG by the harness are answered `SKIP`)
     mflags       = C model crash, R tokens left unconsumed, I identity rewrite not identical, `-` none
   `c17_run --kw` prints the model's keyword table (`K word` reserved, `N word` VHDL-2019 only). *)
open BinNums
open Util
open SynLexer

let hexs (l : coq_N list) = Stdlib.String.concat "" (Stdlib.List.map (fun n -> Printf.sprintf "%02x" (int_of_n n)) l)
let ascii (l : coq_N list) = Stdlib.String.concat "" (Stdlib.List.map (fun n -> Stdlib.String.make 1 (Char.chr (int_of_n n))) l)
let unhex (s : string) : coq_N list =
  Stdlib.List.init (Stdlib.String.length s / 2) (fun i -> n_of_int (int_of_string ("0x" ^ Stdlib.String.sub s (2 * i) 2)))

let digest (l : coq_N list) =
  let h = Stdlib.List.fold_left (fun h b -> (h * 31 + int_of_n b + 1) land 0x3FFFFFFF) 7 l in
  Printf.sprintf "%d:%d" (Stdlib.List.length l) h

let kind_name = function
  | KKeyword l -> "K:" ^ ascii l
  | KPlus -> "Plus" | KMinus -> "Minus" | KEQ -> "EQ" | KNE -> "NE" | KLT -> "LT" | KLTE -> "LTE"
  | KGT -> "GT" | KGTE -> "GTE" | KQueEQ -> "QueEQ" | KQueNE -> "QueNE" | KQueLT -> "QueLT"
  | KQueLTE -> "QueLTE" | KQueGT -> "QueGT" | KQueGTE -> "QueGTE" | KQue -> "Que" | KQueQue -> "QueQue"
  | KTimes -> "Times" | KPow -> "Pow" | KDiv -> "Div" | KTick -> "Tick" | KLeftPar -> "LeftPar"
  | KRightPar -> "RightPar" | KLeftSquare -> "LeftSquare" | KRightSquare -> "RightSquare"
  | KSemiColon -> "SemiColon" | KColon -> "Colon" | KBar -> "Bar" | KDot -> "Dot" | KBOX -> "BOX"
  | KLtLt -> "LtLt" | KGtGt -> "GtGt" | KCirc -> "Circ" | KCommAt -> "CommAt" | KConcat -> "Concat"
  | KComma -> "Comma" | KColonEq -> "ColonEq" | KRightArrow -> "RightArrow"
  | KIdentifier -> "Identifier" | KAbstractLiteral -> "AbstractLiteral" | KStringLiteral -> "StringLiteral"
  | KBitStringLiteral -> "BitStringLiteral" | KCharacterLiteral -> "CharacterLiteral"
  | KToolDirective -> "ToolDirective" | KUnknown -> "Unknown" | KEof -> "Eof"

let num c n = Printf.sprintf "%c%d" c (int_of_n n)
let piece_str = function
  | HTabs n -> num 'H' n | VTabs n -> num 'V' n | CRs n -> num 'R' n | CRLFs n -> num 'W' n
  | LFs n -> num 'L' n | FFs n -> num 'F' n | Spaces n -> num 'S' n | NBSPs n -> num 'N' n
  | LineC b -> "c" ^ hexs b | BlockC b -> "b" ^ hexs b | UBlockC b -> "u" ^ hexs b

let errk = function
  | EUntermString -> "s" | EUntermBased -> "b" | EUntermExtId -> "x" | EUntermBlockComment -> "c" | EIllegal -> "i"

let tok_str ((t, e) : ltok) =
  let err = match e with
    | None -> "-"
    | Some (k, PToken) -> "T" ^ errk k
    | Some (k, PTrivia i) -> Printf.sprintf "V%d%s" (int_of_nat i) (errk k) in
  Stdlib.String.concat "," [kind_name t.t_kind; hexs t.t_text;
                            Stdlib.String.concat "." (Stdlib.List.map piece_str t.t_trivia); err]
let toks_str ts = Stdlib.String.concat ";" (Stdlib.List.map tok_str ts)

(* trivia in the notation of piece_str, pieces joined by '.' *)
let parse_trivia (spec : string) : tpiece list =
  Stdlib.List.filter_map (fun p ->
    if p = "" then None else begin
      let rest = Stdlib.String.sub p 1 (Stdlib.String.length p - 1) in
      let n () = n_of_int (int_of_string rest) in
      Some (match Stdlib.String.get p 0 with
        | 'H' -> HTabs (n ()) | 'V' -> VTabs (n ()) | 'R' -> CRs (n ()) | 'W' -> CRLFs (n ()) | 'L' -> LFs (n ())
        | 'F' -> FFs (n ()) | 'S' -> Spaces (n ()) | 'N' -> NBSPs (n ())
        | 'c' -> LineC (unhex rest) | 'b' -> BlockC (unhex rest) | 'u' -> UBlockC (unhex rest)
        | _ -> failwith ("bad trivia piece " ^ p))
    end) (split_on '.' spec)

let parse_events (s : string) : Builder.pop list =
  Stdlib.List.filter_map (fun w ->
    if w = "" then None
    else if w = "T" then Some Builder.PTake
    else if w = "E" then Some Builder.PEnd
    else Some (Builder.PStart (n_of_int (int_of_string (Stdlib.String.sub w 1 (Stdlib.String.length w - 1))))))
    (split_on ' ' s)

let kw () =
  Stdlib.List.iter (fun w -> print_endline ("K " ^ ascii w)) kw2008;
  Stdlib.List.iter (fun w -> print_endline ("N " ^ ascii w)) kw2019_only

(* the replay takes the tree shape as it is: no bail-out of its own (the implementation's tree never has
   more than MAX_OPEN_NODES + 1 open nodes) *)
let no_limit = nat_of_int 100000

let case (ln : string) =
  if Stdlib.String.length ln > 0 && Stdlib.String.get ln 0 = '@' then print_endline "SKIP" else
  match split_on '|' ln with
  | [_; "BIG"; _] -> print_endline "SKIP"
  | [bytes; tree; repl] ->
    let bs = ns_of_string bytes in
    let raw = match synlex kw2008 bs with LexOk ts -> Some ts | _ -> None in
    let raw_s = match synlex kw2008 bs with
      | LexOk ts -> toks_str ts | LexCrash -> "CRASH" | OutOfFuel -> "OUTOFFUEL" in
    let stream = match raw with Some ts -> merge ts | None -> [] in
    let stream_s = match raw with Some _ -> toks_str stream | None -> "CRASH" in
    let buf = Buffer.create 256 in
    Buffer.add_string buf raw_s; Buffer.add_char buf '|';
    Buffer.add_string buf stream_s; Buffer.add_char buf '|';
    let mflags = Buffer.create 4 in
    if tree = "" then Buffer.add_string buf "||||-"
    else begin
      match Builder.parse_with no_limit (parse_events tree) stream with
      | None -> Buffer.add_string buf "||||C"
      | Some (((root, errs), rest), deferred) ->
        if rest <> [] || deferred <> None then Buffer.add_char mflags 'R';
        (* offsets *)
        let walk = Green.red_walk N0 root in
        Buffer.add_string buf (Stdlib.String.concat ";"
          (Stdlib.List.map (fun (o, g) -> Printf.sprintf "%d:%d" (int_of_n o) (int_of_n (Green.glen g))) walk));
        Buffer.add_char buf '|';
        (* lexer errors, in token order, with their kinds *)
        let kinds = Stdlib.List.filter_map (fun (_, e) -> match e with Some (k, _) -> Some (errk k) | None -> None)
            (Stdlib.List.filteri (fun i _ -> i < Stdlib.List.length stream - Stdlib.List.length rest) stream) in
        let rec zip a b = match a, b with x :: a', y :: b' -> (x, y) :: zip a' b' | _, _ -> [] in
        Buffer.add_string buf (Stdlib.String.concat ";"
          (Stdlib.List.map (fun ((s, e), k) -> Printf.sprintf "%d-%d:%s" (int_of_n s) (int_of_n e) k) (zip errs kinds)));
        if Stdlib.List.length errs <> Stdlib.List.length kinds then Buffer.add_char mflags 'C';
        Buffer.add_char buf '|';
        (* identity rewrites *)
        let r1 = Rewrite.rewrite Rewrite.leave_all () root in
        let r2 = Rewrite.token_rewrite Rewrite.no_hook Rewrite.keep_all Rewrite.no_hook () root in
        if r1 <> root || r2 <> root then Buffer.add_char mflags 'I';
        Buffer.add_string buf (digest (Green.bytes_of r1)); Buffer.add_char buf ',';
        Buffer.add_string buf (digest (Green.bytes_of r2)); Buffer.add_char buf '|';
        (* replacements *)
        let lv = Stdlib.Array.of_list (Green.leaves root) in
        let reqs = Stdlib.List.filter (fun x -> x <> "") (split_on ',' repl) in
        Buffer.add_string buf (Stdlib.String.concat ";" (Stdlib.List.map (fun r ->
          (* the 4th field says through which public API the harness makes the token; the model token is the same *)
          let fields = match split_on ':' r with [i; h] -> Some (i, h, "-") | [i; h; v] -> Some (i, h, v) | [i; h; v; _] -> Some (i, h, v) | _ -> None in
          match fields with
          | Some (i, h, v) ->
            let i = int_of_string i in
            if i >= Stdlib.Array.length lv then "-,-"
            else begin
              let t0 = lv.(i) in
              let t1 = if h = "-" then t0 else Rewrite.clone_with_text t0 (unhex h) in
              let t' = if v = "-" then t1 else Rewrite.clone_with_leading_trivia t1 (parse_trivia v) in
              let a = Rewrite.token_rewrite Rewrite.nat_hook (Rewrite.replace_nth_t (nat_of_int i) t') Rewrite.nat_hook Datatypes.O root in
              let b = Rewrite.rewrite (Rewrite.replace_nth_e (nat_of_int i) t') Datatypes.O root in
              digest (Green.bytes_of a) ^ "," ^ digest (Green.bytes_of b)
            end
          | None -> "BADREQ") reqs));
        Buffer.add_char buf '|';
        Buffer.add_string buf (if Buffer.length mflags = 0 then "-" else Buffer.contents mflags)
    end;
    print_endline (Buffer.contents buf)
  | _ -> print_endline "BADCASE"

let () =
  if Stdlib.Array.length Sys.argv > 1 && Sys.argv.(1) = "--kw" then kw ()
  else iter_lines case
