(* C07 runner: one abstract program per line (format: see harness/src/bin/c07.rs, `ser_program`);
   prints per program
     `fam=<0|1> disc=<0|1|X>;<site> <site> ...`   with
     site = sid:spec:nd:nv:ctarget:cclass:utarget:uclass
   spec   = D<id> | CONFLICT | UNDECL | ERROR                 (Scope.spec_program)
   nd/nv  = number of directly / potentially visible declarations of the site's designator
   c*     = what the model of the analyser observes through the cache (ScopeImpl.model_program)
   u*     = what it would observe with lookup_uncached
   target = <id> | -        class = OK | CONFLICT | UNDECL | ERROR ; an optional 9th field g<k> = stage of
            `disambiguate` that selected the subprogram of a call with a use-site actual
   disc   = the scope-operation trace of the elaborator follows the analysis discipline
            (ScopeImpl.disciplined_b); X = the elaborator got stuck (ill-formed program).
   An optional first field `cfg=<name>@` selects a pre-fix variant of the model. *)
open Util
open Scope
open Overload
open ScopeImpl

let fail s = failwith s
let num s = try n_of_int (int_of_string s) with _ -> fail ("bad number: " ^ s)
let parse_ty s =
  let n = num (Stdlib.String.sub s 1 (Stdlib.String.length s - 1)) in
  match s.[0] with 'i' -> TInt n | 'o' -> TOth n | _ -> fail ("bad type: " ^ s)
let parse_kind s =
  let body = Stdlib.String.sub s 1 (Stdlib.String.length s - 1) in
  match s.[0] with
  | 'O' -> KObj (parse_ty body)
  | 'L' -> KLit (parse_ty body)
  | 'F' -> (match split_on '/' body with [p; r] -> KFunc (parse_ty p, parse_ty r) | _ -> fail "bad F")
  | 'T' -> (match split_on '/' body with
            | t :: lits ->
              KType (parse_ty t, Stdlib.List.map (fun l -> match split_on '.' l with
                                                     | [i; d] -> (num i, num d) | _ -> fail "bad lit") lits)
            | [] -> fail "bad T")
  | _ -> fail ("bad kind: " ^ s)
(* ent = id:des:kind[@declby] *)
let parse_ent s =
  match split_on ':' s with
  | [i; d; k] ->
    let k, db = match split_on '@' k with
      | [k] -> k, None | [k; b] -> k, Some (num b) | _ -> fail "bad declby" in
    { eid = num i; edes = num d; ekind = parse_kind k; edeclby = db }
  | _ -> fail ("bad ent: " ^ s)
let parse_usage s =
  match s.[0] with
  | 'v' -> UVal (parse_ty (Stdlib.String.sub s 1 (Stdlib.String.length s - 1)))
  | 't' -> UType
  | 'c' -> (match split_on '/' (Stdlib.String.sub s 1 (Stdlib.String.length s - 1)) with
            | [a; t] -> UCall ((if a = "u" then AUniv else ATy (parse_ty a)), parse_ty t)
            | _ -> fail "bad call")
  | 'x' ->
    (* xn<sid>.<des>/<ty>  |  xc<sid>.<des>.<arg>/<ty> *)
    (match split_on '/' (Stdlib.String.sub s 2 (Stdlib.String.length s - 2)) with
     | [x; t] ->
       (match s.[1], split_on '.' x with
        | 'n', [i; d] -> UCallX (XName (num i, num d), parse_ty t)
        | 'c', [i; d; a] -> UCallX (XCall (num i, num d, (if a = "u" then AUniv else ATy (parse_ty a))), parse_ty t)
        | _ -> fail "bad x usage")
     | _ -> fail "bad x usage")
  | _ -> fail ("bad usage: " ^ s)
let parse_item s =
  let body = Stdlib.String.sub s 1 (Stdlib.String.length s - 1) in
  match s.[0] with
  | 'D' -> IDecl (parse_ent body)
  | 'A' -> IUseAll (num body)
  | 'N' -> (match split_on ':' body with [p; d] -> IUseName (num p, num d) | _ -> fail "bad N")
  | 'K' -> IUseCtx (num body)
  | 'S' -> (match split_on ':' body with
            | [i; d; u] -> ISite { sid = num i; sdes = num d; suse = parse_usage u }
            | _ -> fail "bad S")
  | 'O' -> IOpen
  | 'C' -> IClose
  | 'F' -> (match split_on '~' body with [f; p] -> IOpenFun (parse_ent f, parse_ent p) | _ -> fail "bad F")
  | _ -> fail ("bad item: " ^ s)
let parse_items s = Stdlib.List.filter_map (fun x -> if x = "" then None else Some (parse_item x)) (split_on ' ' s)
let parse_unit s =
  match split_on ',' s with
  | i :: k :: ctx :: body :: _ ->
    let kd = if k = "P" || k = "E" || k = "C" then UPrimary else USecondary (num (Stdlib.String.sub k 1 (Stdlib.String.length k - 1))) in
    { uid = num i; ukd = kd; uctx = parse_items ctx; ubody = parse_items body }
  | _ -> fail ("bad unit: " ^ s)
let parse_program s = Stdlib.List.map parse_unit (split_on '|' s)

let show_answer = function
  | ADecl i -> "D" ^ string_of_int (int_of_n i)
  | AConflict -> "CONFLICT" | AUndeclared -> "UNDECL" | AError -> "ERROR"
let show_class = function MOk -> "OK" | MConflict -> "CONFLICT" | MUndeclared -> "UNDECL" | MError -> "ERROR"
let show_target = function Some i -> string_of_int (int_of_n i) | None -> "-"
let show_mres r = show_target r.mtarget ^ ":" ^ show_class r.mclass_of

let () =
  iter_lines (fun ln ->
    try
      let cfg, ln = match split_on '@' ln with
        | c :: rest when Stdlib.String.length c > 4 && Stdlib.String.sub c 0 4 = "cfg=" ->
          let name = Stdlib.String.sub c 4 (Stdlib.String.length c - 4) in
          ((match name with
            | "now" -> cfg_now | "old_mpv" -> cfg_old_mpv | "old_body" -> cfg_old_body
            | "no_add_inv" -> cfg_no_add_invalidation | _ -> fail "bad cfg"),
           Stdlib.String.concat "@" rest)
        | _ -> (cfg_now, ln) in
      let p = parse_program ln in
      let fam = family_program p in
      let spec = spec_program p in
      let stats = stats_program p in
      let buf = Buffer.create 256 in
      (match model_program cfg p with
       | None -> Buffer.add_string buf (Printf.sprintf "fam=%d disc=X;" (if fam then 1 else 0))
       | Some m ->
         let disc = disciplined_b [] m.m_trace in
         Buffer.add_string buf (Printf.sprintf "fam=%d disc=%d;" (if fam then 1 else 0) (if disc then 1 else 0));
         let tbl = Hashtbl.create 64 in
         Stdlib.List.iter (fun o -> Hashtbl.replace tbl (int_of_n o.o_sid) o) m.m_sites;
         let st = Hashtbl.create 64 in
         Stdlib.List.iter (fun (i, (a, b)) -> Hashtbl.replace st (int_of_n i) (int_of_nat a, int_of_nat b)) stats;
         Stdlib.List.iter (fun (i, a) ->
           let i = int_of_n i in
           let nd, nv = try Hashtbl.find st i with Not_found -> (0, 0) in
           let ms = match Hashtbl.find_opt tbl i with
             | Some o -> show_mres o.o_cached ^ ":" ^ show_mres o.o_uncached ^
                         (match o.o_stage with Some k -> ":g" ^ string_of_int (int_of_nat k) | None -> "")
             | None -> "?:?:?:?" in
           Buffer.add_string buf (Printf.sprintf "%d:%s:%d:%d:%s " i (show_answer a) nd nv ms)) spec);
      print_endline (Buffer.contents buf)
    with Failure m -> print_endline ("BADCASE " ^ m))
