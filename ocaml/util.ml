(* Conversions between decimal text and the extracted Coq numbers; line parsing helpers. *)
open BinNums
let rec pos_of_int (n : int) : positive =
  if n = 1 then Coq_xH
  else if n land 1 = 0 then Coq_xO (pos_of_int (n lsr 1))
  else Coq_xI (pos_of_int (n lsr 1))
let n_of_int (n : int) : coq_N = if n = 0 then N0 else Npos (pos_of_int n)
let rec int_of_pos = function
  | Coq_xH -> 1
  | Coq_xO p -> 2 * int_of_pos p
  | Coq_xI p -> 2 * int_of_pos p + 1
let int_of_n = function N0 -> 0 | Npos p -> int_of_pos p
let z_of_int (n : int) : coq_Z =
  if n = 0 then Z0 else if n > 0 then Zpos (pos_of_int n) else Zneg (pos_of_int (-n))
let int_of_z = function Z0 -> 0 | Zpos p -> int_of_pos p | Zneg p -> - (int_of_pos p)
let rec nat_of_int (n : int) : Datatypes.nat = if n <= 0 then Datatypes.O else Datatypes.S (nat_of_int (n - 1))
let rec int_of_nat = function Datatypes.O -> 0 | Datatypes.S n -> 1 + int_of_nat n
let split_on c s = Stdlib.String.split_on_char c s
let ints_of_string s =
  Stdlib.List.filter_map (fun x -> if x = "" then None else Some (int_of_string x)) (split_on ' ' s)
let ns_of_string s = Stdlib.List.map n_of_int (ints_of_string s)
let string_of_ns l = Stdlib.String.concat " " (Stdlib.List.map (fun x -> string_of_int (int_of_n x)) l)
let iter_lines f =
  try while true do f (input_line stdin) done with End_of_file -> ()
