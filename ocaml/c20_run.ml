(* C20 runner: one case per line, TAB-separated fields
     id  flags  text  oracle  root  ast
   root = `slo shi` (entity ids in [slo,shi] are signals) followed by entries `o id n f1..fn rb` (overloaded
   subprogram with formals f1..fn, rb = 1 iff it returns BOOLEAN) and `p id m s` (parameter object: mode m = i|o|b|u|l,
   s = 1 iff class signal) and `t id m` (port of mode m); ast = `kwa kwb <sens> <stmts>` in the prefix token format written by harness/src/bin/c20.rs:
     expr  := L a b | D a b id | U a b | S a b <expr> <sd> | I a b <expr> n <expr>* | A a b <expr> k m <expr>?
            | C a b <expr> n <expr>* | N a b <expr> | B a b <expr> <expr> | G a b n <expr>* | Q a b <expr> | P a b <expr>
     sd    := d id | u                    (suffix designator with / without reference)
     range := r <expr> <expr> | a <expr>          drange := s <expr> 0 | s <expr> 1 <range> | g <range>
     rhsX  := x <X> | c n (<X> <expr>)* m <X>? | l <expr> n <X>*
     wave  := u | w n (<expr> m <expr>?)*
     stmt  := sa <expr> <rhs wave> | va <expr> <rhs expr> | fo <expr> <rhs expr> | re <expr>
            | if n (<expr> <stmts>)* <stmts> | ca <expr> n <stmts>* | lo (f <drange> | w <expr> | n) <stmts>
            | pc a b <expr> n (<mode> m <formal expr>? <expr>)* | as <expr> m <expr>? m <expr>? | rp <expr> m <expr>?
            | nx m <expr>? | ex m <expr>? | rt m <expr>? | nu | wt n <expr>* m <expr>? m <expr>?
     stmts := n <stmt>*        sens := n | a | l n <expr>*        mode := i | o | b
   Prints `model|old|f20|spec|fam resolved wf listed cat` (model = lint_model, old = before d3610d9, f20 = before 8599f6f):
     a diagnostic list is `M<a>-<b>:<id>@<a>-<b>,...` / `S<a>-<b>` items joined by ';' (PANIC for None);
     spec = spec_diags for a process with a list of names, `-` otherwise; the four flags are 0/1 (listed: `-`
     without names); cat = C | S | P. *)
open Util
open Sens

let toks : string array ref = ref [||]
let pos = ref 0
let next () = let t = !toks.(!pos) in incr pos; t
let num () = n_of_int (int_of_string (next ()))
let int () = int_of_string (next ())
let span () = let a = num () in let b = num () in (a, b)
let rec times n f = if n <= 0 then [] else let x = f () in x :: times (n - 1) f
let opt f = if int () = 1 then Some (f ()) else None

let rec expr () : expr =
  match next () with
  | "L" -> let sp = span () in ELit sp
  | "D" -> let sp = span () in let i = num () in EDesig (sp, Some i)
  | "U" -> let sp = span () in EDesig (sp, None)
  | "S" -> let sp = span () in let p = expr () in
    let sd = (match next () with "d" -> Some (num ()) | _ -> None) in ESelected (sp, p, sd)
  | "I" -> let sp = span () in let p = expr () in let n = int () in let bs = times n expr in ESlice (sp, p, bs)
  | "A" -> let sp = span () in let p = expr () in
    let k = (match int () with 0 -> AkImage | 1 -> AkEvent | _ -> AkOther) in
    let a = opt expr in EAttr (sp, p, k, a)
  | "C" -> let sp = span () in let p = expr () in let n = int () in let args = times n expr in ECall (sp, p, args)
  | "N" -> let sp = span () in let e = expr () in EUnary (sp, e)
  | "B" -> let sp = span () in let l = expr () in let r = expr () in EBinary (sp, l, r)
  | "G" -> let sp = span () in let n = int () in let es = times n expr in EAggregate (sp, es)
  | "Q" -> let sp = span () in let e = expr () in EQualified (sp, e)
  | "P" -> let sp = span () in let e = expr () in EParen (sp, e)
  | t -> failwith ("bad expr token " ^ t)

let range () : range =
  match next () with
  | "r" -> let l = expr () in let h = expr () in RRange (l, h)
  | "a" -> RAttr (expr ())
  | t -> failwith ("bad range token " ^ t)
let drange () : drange =
  match next () with
  | "s" -> let tm = expr () in let r = opt range in DSubtype (tm, r)
  | "g" -> DRange (range ())
  | t -> failwith ("bad drange token " ^ t)
let rhs (f : unit -> 'a) : 'a rhs =
  match next () with
  | "x" -> RSimple (f ())
  | "c" -> let n = int () in
    let cs = times n (fun () -> let a = f () in let c = expr () in (a, c)) in
    let els = opt f in RConditional (cs, els)
  | "l" -> let sel = expr () in let n = int () in let alts = times n f in RSelected (sel, alts)
  | t -> failwith ("bad rhs token " ^ t)
let wave () : waveform =
  match next () with
  | "u" -> None
  | "w" -> let n = int () in Some (times n (fun () -> let v = expr () in let a = opt expr in (v, a)))
  | t -> failwith ("bad wave token " ^ t)
let mode () = match next () with "i" -> MIn | "o" -> MOut | "u" -> MBuffer | "l" -> MLinkage | _ -> MInOut

let rec stmt () : stmt =
  match next () with
  | "sa" -> let t = expr () in let r = rhs wave in SSigAssign (t, r)
  | "va" -> let t = expr () in let r = rhs expr in SVarAssign (t, r)
  | "fo" -> let t = expr () in let r = rhs expr in SForce (t, r)
  | "re" -> SRelease (expr ())
  | "if" -> let n = int () in
    let bs = times n (fun () -> let c = expr () in let b = stmts () in (c, b)) in
    let els = stmts () in SIf (bs, els)
  | "ca" -> let sel = expr () in let n = int () in let alts = times n stmts in SCase (sel, alts)
  | "lo" ->
    let it = (match next () with
        | "f" -> IFor (drange ())
        | "w" -> IWhile (expr ())
        | _ -> INone) in
    let b = stmts () in SLoop (it, b)
  | "pc" -> let sp = span () in let p = expr () in let n = int () in
    let args = times n (fun () -> let m = mode () in let f = opt expr in let e = expr () in
                                  { a_mode = m; a_formal = f; a_actual = e }) in SCall (sp, p, args)
  | "as" -> let c = expr () in let r = opt expr in let s = opt expr in SAssert (c, r, s)
  | "rp" -> let m = expr () in let s = opt expr in SReport (m, s)
  | "nx" -> SNext (opt expr)
  | "ex" -> SExit (opt expr)
  | "rt" -> SReturn (opt expr)
  | "nu" -> SNull
  | "wt" -> let n = int () in let ons = times n expr in let u = opt expr in let f = opt expr in SWait (ons, u, f)
  | t -> failwith ("bad stmt token " ^ t)
and stmts () : stmt list = let n = int () in times n stmt

let sens () : sens option =
  match next () with
  | "n" -> None
  | "a" -> Some SensAll
  | "l" -> let n = int () in Some (SensNames (times n expr))
  | t -> failwith ("bad sens token " ^ t)

let root_cache : (string * (BinNums.coq_N -> ent_kind)) option ref = ref None
let root_of_string (f : string) =
  match !root_cache with
  | Some (k, r) when k = f -> r
  | _ ->
    toks := Array.of_list (Stdlib.List.filter (fun x -> x <> "") (split_on ' ' f));
    pos := 0;
    let slo = num () in let shi = num () in
    let tab = ref [] in
    while !pos < Array.length !toks do
      (match next () with
       | "o" -> let id = num () in let n = int () in let fs = times n num in let rb = int () = 1 in
         tab := (id, KOverloaded (fs, rb)) :: !tab
       | "p" -> let id = num () in let m = mode () in let s = int () = 1 in
         tab := (id, KParam (m, s)) :: !tab
       | "t" -> let id = num () in let m = mode () in tab := (id, KPort m) :: !tab
       | t -> failwith ("bad root token " ^ t))
    done;
    let r = root_tab slo shi (Stdlib.List.rev !tab) in
    root_cache := Some (f, r); r

let sp_str (a, b) = Printf.sprintf "%d-%d" (int_of_n a) (int_of_n b)
let diag_str = function
  | DMissing (at, sigs) ->
    "M" ^ sp_str at ^ ":" ^
    Stdlib.String.concat "," (Stdlib.List.map (fun (i, sp) -> Printf.sprintf "%d@%s" (int_of_n i) (sp_str sp)) sigs)
  | DSuperfluous at -> "S" ^ sp_str at
let diags_str ds = Stdlib.String.concat ";" (Stdlib.List.map diag_str ds)
let b01 b = if b then "1" else "0"

let () =
  iter_lines (fun ln ->
    match split_on '\t' ln with
    | [_id; _flags; _text; _oracle; rootf; ast] ->
      (try
        let root = root_of_string rootf in
        toks := Array.of_list (Stdlib.List.filter (fun x -> x <> "") (split_on ' ' ast));
        pos := 0;
        let kw = span () in
        let se = sens () in
        let body = stmts () in
        if !pos <> Array.length !toks then failwith "trailing tokens";
        let p = { p_kw = kw; p_sens = se; p_body = body } in
        let show = function Some ds -> diags_str ds | None -> "PANIC" in
        let names = match se with Some (SensNames ns) -> Some ns | _ -> None in
        let spec = match names with Some ns -> diags_str (spec_diags root p ns) | None -> "-" in
        let listed = match names with Some ns -> b01 (listed_signals root ns) | None -> "-" in
        let cat = match get_likely_process_category root p with
          | None -> "P" | Some Combinational -> "C" | Some Sequential -> "S" in
        Printf.printf "%s|%s|%s|%s|%s %s %s %s %s\n" (show (lint_model root p)) (show (lint_model_old root p))
          (show (lint_model_f20 root p)) spec
          (b01 (in_family root p)) (b01 (calls_resolved root p)) (b01 (wf_pos root p)) listed cat
      with Failure m -> Printf.printf "BADCASE %s\n" m | Invalid_argument m -> Printf.printf "BADCASE %s\n" m)
    | _ -> print_endline "BADCASE fields")
