(* C13 runner.  Lines (names are hex strings of Latin-1 bytes, `-` = empty):
     I <nkw> <name> ...   sets the initial insertion list (keywords first, nkw of them); prints nothing
     L                    -> the 256 values of the lower-case table
     S0 <name> ...        -> ids of the names inserted one after the other into the empty table
     S1 <name> ...        -> ids when the table first receives the initial list
     K <name>             -> kw:<i> | id
   PANIC when the model returns None (debug assertion of insert_new). *)
open Util
let unhex s =
  if s = "-" then [] else
  let n = Stdlib.String.length s / 2 in
  Stdlib.List.init n (fun i -> nat_of_int (int_of_string ("0x" ^ Stdlib.String.sub s (2 * i) 2)))
let words ln = Stdlib.List.filter (fun x -> x <> "") (split_on ' ' ln)
let show_ids = function
  | Some ids -> Stdlib.String.concat " " (Stdlib.List.map (fun c -> string_of_int (int_of_nat c)) ids)
  | None -> "PANIC"
let init = ref []
let nkw = ref 0
(* the table after the initial list, computed once per `I` line: `ids_from init ns` and
   `kw_index nkw init n` unfold to exactly these calls (Symtab/SymtabCase.v) *)
let init_table = ref (Some [])
let ids_from_init ns = match !init_table with Some t -> SymtabCase.insert_ids t ns | None -> None
let kw_index_init n =
  match !init_table with
  | Some t -> (match Symtab.insert Symtab.lower_latin1 t n with
               | Some (_, s) -> let i = int_of_nat s.Symtab.s_id in Some (if i < !nkw then Some i else None)
               | None -> None)
  | None -> None
let () =
  iter_lines (fun ln ->
    match words ln with
    | "I" :: k :: names ->
      nkw := int_of_string k; init := Stdlib.List.map unhex names;
      init_table := Symtab.run Symtab.lower_latin1 [] !init
    | ["L"] -> print_endline (show_ids (Some SymtabCase.lower_all))
    | "S0" :: names -> print_endline (show_ids (SymtabCase.ids_from [] (Stdlib.List.map unhex names)))
    | "S1" :: names -> print_endline (show_ids (ids_from_init (Stdlib.List.map unhex names)))
    | ["K"; name] ->
      (match kw_index_init (unhex name) with
       | Some (Some i) -> print_endline ("kw:" ^ string_of_int i)
       | Some None -> print_endline "id"
       | None -> print_endline "PANIC")
    | _ -> print_endline "BADCASE")
