(* C09 runner: one case per line.
   A|doc|edits|old|new      doc/old/new = code points; edits = `l1,c1,l2,c2:cps` joined by ';'
       -> result|ok|sim|shift   result = Edits.apply_edits doc edits (code points)
                                ok  = Edits.rename_edits_ok doc old new (offset edits)   (0/1)
                                sim = result equals Edits.simul doc 0 (sort_oe ..)       (0/1)
                                shift = Edits.new_index of the start offset of every edit, in input order
   P|ctx|item               ctx = two bits (uri_is_file, source_known); item = `-` or `K,l1,c1,l2,c2` (K in I O C A)
       -> `-` or l1,c1,l2,c2                                         (Rename.prepare_rename)
   R|ctx|found|new|refs     found = 0/1 (find_declaration is Some); refs = `file,l1,c1,l2,c2` joined by ';'
       -> `-` or per file (first-insertion order) `file:l1,c1,l2,c2;...` joined by '/'   (Rename.rename) *)
open Util
open Contents
let ints s = Stdlib.List.map int_of_string (split_on ',' s)
let mkpos l c = { line = nat_of_int l; chr = n_of_int c }
let show_pos p = Printf.sprintf "%d,%d" (int_of_nat p.line) (int_of_n p.chr)
let parse_edit s =
  match split_on ':' s with
  | [ps; t] ->
    (match ints ps with
     | [l1; c1; l2; c2] -> { Edits.te_start = mkpos l1 c1; Edits.te_end = mkpos l2 c2; Edits.te_new = ns_of_string t }
     | _ -> failwith "bad range")
  | _ -> failwith ("bad edit: " ^ s)
let nonempty l = Stdlib.List.filter (fun x -> x <> "") l
let ctx_of s = { Rename.uri_is_file = (s.[0] = '1'); Rename.source_known = (s.[1] = '1') }
let () =
  iter_lines (fun ln ->
    match split_on '|' ln with
    | ["A"; doc; edits; old; nw] ->
      let s = ns_of_string doc in
      let es = Stdlib.List.map parse_edit (nonempty (split_on ';' edits)) in
      let r = Edits.apply_edits s es in
      let oes = Stdlib.List.map (Edits.to_offsets s) es in
      let ok = Edits.rename_edits_ok s (ns_of_string old) (ns_of_string nw) oes in
      let ses = Edits.sort_oe oes in
      let sim = Edits.list_eqb r (Edits.simul s Datatypes.O ses) in
      let shifts = Stdlib.List.map (fun ((a, _), _) -> string_of_int (int_of_nat (Edits.new_index ses a))) oes in
      print_string (string_of_ns r); print_char '|';
      print_string (if ok then "1" else "0"); print_char '|';
      print_string (if sim then "1" else "0"); print_char '|';
      print_string (Stdlib.String.concat " " shifts); print_newline ()
    | ["P"; ctx; item] ->
      let it =
        if item = "-" then None
        else match split_on ',' item with
          | [k; l1; c1; l2; c2] ->
            let p = { Rename.sp_file = n_of_int 0; Rename.sp_start = mkpos (int_of_string l1) (int_of_string c1);
                      Rename.sp_end = mkpos (int_of_string l2) (int_of_string c2) } in
            let d = (match k with
                | "I" -> Rename.DIdentifier []
                | "O" -> Rename.DOperatorSymbol []
                | "C" -> Rename.DCharacter (n_of_int 0)
                | _ -> Rename.DAnonymous (n_of_int 0)) in
            Some (p, d)
          | _ -> failwith "bad item" in
      (match Rename.prepare_rename (ctx_of ctx) it with
       | None -> print_endline "-"
       | Some (a, b) -> print_endline (show_pos a ^ "," ^ show_pos b))
    | ["R"; ctx; found; nw; refs] ->
      let rs = Stdlib.List.map (fun r ->
          match ints r with
          | [f; l1; c1; l2; c2] -> { Rename.sp_file = n_of_int f; Rename.sp_start = mkpos l1 c1; Rename.sp_end = mkpos l2 c2 }
          | _ -> failwith "bad ref") (nonempty (split_on ';' refs)) in
      (match Rename.rename (ctx_of ctx) (found = "1") rs (ns_of_string nw) with
       | None -> print_endline "-"
       | Some m ->
         print_endline (Stdlib.String.concat "/" (Stdlib.List.map (fun (f, es) ->
             string_of_int (int_of_n f) ^ ":" ^
             Stdlib.String.concat ";" (Stdlib.List.map (fun e -> show_pos e.Edits.te_start ^ "," ^ show_pos e.Edits.te_end) es)) m)))
    | _ -> print_endline "BADCASE")
