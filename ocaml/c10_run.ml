(* C10 runner: one case per line `doc|edit;edit;...`; doc = code points; edit = `F:cps` or
   `R:l1,c1,l2,c2:cps`.  Prints `model|spec|wf` where model = states after each edit separated
   by ';' (a state: lines joined by '/', each line = code points; or PANIC), spec = the
   reference strings after each edit, wf = 1 iff every range has start <= end. *)
open Util
open Contents
let parse_edit s =
  match split_on ':' s with
  | ["F"; t] -> Full (ns_of_string t)
  | ["R"; ps; t] ->
    (match Stdlib.List.map int_of_string (split_on ',' ps) with
     | [l1; c1; l2; c2] ->
       Ranged ({ line = nat_of_int l1; chr = n_of_int c1 }, { line = nat_of_int l2; chr = n_of_int c2 }, ns_of_string t)
     | _ -> failwith "bad range")
  | _ -> failwith ("bad edit: " ^ s)
let show_doc d = Stdlib.String.concat "/" (Stdlib.List.map string_of_ns d)
let () =
  iter_lines (fun ln ->
    match split_on '|' ln with
    | [doc; edits] ->
      let s0 = ns_of_string doc in
      let es = Stdlib.List.filter_map (fun e -> if e = "" then None else Some (parse_edit e)) (split_on ';' edits) in
      let buf = Buffer.create 64 in
      let d = ref (Some (split_lines s0)) in
      Stdlib.List.iter (fun e ->
        (match !d with
         | Some dd -> d := apply_edit dd e
         | None -> ());
        Buffer.add_string buf (match !d with Some dd -> show_doc dd | None -> "PANIC");
        Buffer.add_char buf ';') es;
      let sb = Buffer.create 64 in
      let s = ref (Splice.normalize s0) in
      Stdlib.List.iter (fun e ->
        s := Splice.spec_edit !s e;
        Buffer.add_string sb (string_of_ns !s); Buffer.add_char sb ';') es;
      let wf = Stdlib.List.for_all Splice.wf_edit es in
      print_string (Buffer.contents buf); print_char '|';
      print_string (Buffer.contents sb); print_char '|';
      print_string (if wf then "1" else "0"); print_newline ()
    | _ -> print_endline "BADCASE")
