(* C02 runner: the extracted models RH.Parse.Stream and RH.Parse.DesignFileLoop.
   usage: c02_run.native loop   one case per line on stdin, one result line per case
            case  : `<kinds>|<records>`   kinds = one character per token of the file (l u c e a f p b i s n, '.' = other)
                                          records = `idx,sliced(0/1),idx_after` joined by `;` (hook H3)
            result: `DONE <unit>:<len>,...|<idx>,<off>|<progress 0/1>`
                    `NOUNIT <idx> dropped=<n>|<progress>`    `ABORT fuel|<progress>`   `ABORT crash|<progress>`
          c02_run.native ops    cursor programs
            case  : `<code points of the text>|<kind@l:c-l:c of every token>|<ops joined by ;>`
            result: observations joined by `;`, then `|<idx>,<off>`   (same syntax as harness/src/bin/c02.rs) *)
open Util
open BinNums
open Datatypes
open LangLexer
open Stream
open DesignFileLoop

let ns_of_str (s : string) = Stdlib.List.init (Stdlib.String.length s) (fun i -> n_of_int (Char.code s.[i]))
let str_of_ns l =
  let b = Buffer.create 16 in
  Stdlib.List.iter (fun c -> Buffer.add_char b (Char.chr (int_of_n c))) l;
  Buffer.contents b

let delims = [
  "+", KPlus; "-", KMinus; "??", KQueQue; "=", KEQ; "/=", KNE; "<", KLT; "<=", KLTE; ">", KGT; ">=", KGTE;
  "?=", KQueEQ; "?/=", KQueNE; "?<", KQueLT; "?<=", KQueLTE; "?>", KQueGT; "?>=", KQueGTE; "?", KQue;
  "*", KTimes; "**", KPow; "/", KDiv; "{identifier}", KIdentifier; "{abstract_literal}", KAbstractLiteral;
  "{string}", KStringLiteral; "{bit_string}", KBitString; "{character}", KCharacter; "'", KTick;
  "(", KLeftPar; ")", KRightPar; "[", KLeftSquare; "]", KRightSquare; ";", KSemiColon; ":", KColon;
  "|", KBar; ".", KDot; "<>", KBOX; "<<", KLtLt; ">>", KGtGt; "^", KCirc; "@", KCommAt; "&", KConcat;
  ",", KComma; ":=", KColonEq; "=>", KRightArrow; "`", KGraveAccent; "{text}", KText ]

let kind_of_str (s : string) : kind =
  match Stdlib.List.assoc_opt s delims with
  | Some k -> k
  | None -> KKw (ns_of_str s)
let str_of_kind (k : kind) : string =
  match k with
  | KKw n -> str_of_ns n
  | _ -> (match Stdlib.List.find_opt (fun (_, k') -> k' = k) delims with Some (s, _) -> s | None -> "?")

let mk_token (k : kind) (s : Reader.position) (e : Reader.position) : token =
  { t_kind = k; t_val = VNone; t_s = s; t_e = e; t_lead = []; t_trail = None }

let pos_of_str s =   (* "l:c" *)
  match split_on ':' s with
  | [l; c] -> (n_of_int (int_of_string l), n_of_int (int_of_string c))
  | _ -> failwith ("bad position " ^ s)
let range_of_str s =  (* "l:c-l:c" *)
  match split_on '-' s with
  | [a; b] -> (pos_of_str a, pos_of_str b)
  | _ -> failwith ("bad range " ^ s)
let pos_str (l, c) = Printf.sprintf "%d:%d" (int_of_n l) (int_of_n c)
let range_str (s, e) = pos_str s ^ "-" ^ pos_str e

let words s = Stdlib.List.filter (fun x -> x <> "") (split_on ' ' s)

(* ---------------- loop ---------------- *)
let ukind_str = function
  | UContext -> "context" | UEntity -> "entity" | UArchitecture -> "architecture"
  | UConfiguration -> "configuration" | UPackageBody -> "package_body"
  | UPackageInstance -> "package_instance" | UPackage -> "package"

let units_str us =
  Stdlib.String.concat "," (Stdlib.List.map (fun (k, v) -> Printf.sprintf "%s:%d" (ukind_str k) (Stdlib.List.length v)) us)

(* one character per token (harness/src/bin/c02.rs): the kinds the dispatch looks at, '.' = any other *)
let kind_of_code (c : char) : kind =
  match c with
  | 'l' -> coq_K_LIBRARY | 'u' -> coq_K_USE | 'c' -> coq_K_CONTEXT | 'e' -> coq_K_ENTITY | 'a' -> coq_K_ARCHITECTURE
  | 'f' -> coq_K_CONFIGURATION | 'p' -> coq_K_PACKAGE | 'b' -> coq_K_BODY | 'i' -> KIdentifier | 's' -> coq_K_IS
  | 'n' -> coq_K_NEW | _ -> KText

let run_loop ln =
  let kinds, recs =
    match split_on '|' ln with
    | [k; r] -> k, r
    | [k] -> k, ""
    | _ -> failwith "bad loop case" in
  let z = (N0, N0) in
  let toks = Stdlib.List.init (Stdlib.String.length kinds) (fun i -> mk_token (kind_of_code kinds.[i]) z z) in
  let records =
    Stdlib.List.filter_map (fun r ->
      if r = "" then None else
      match split_on ',' r with
      | [b; s; a] -> Some ((n_of_int (int_of_string b), s = "1"), n_of_int (int_of_string a))
      | _ -> failwith "bad record") (split_on ';' recs) in
  let prog = if records_progress toks records then "1" else "0" in
  match replay toks records with
  | LDone (us, fin) ->
    Printf.printf "DONE %s|%d,%d|%s\n" (units_str us) (int_of_n fin.s_idx) (int_of_n fin.s_off) prog
  | LNoUnit (i, us) -> Printf.printf "NOUNIT %d dropped=%d|%s\n" (int_of_n i) (Stdlib.List.length us) prog
  | LAbort Reader.OutOfFuel -> Printf.printf "ABORT fuel|%s\n" prog
  | LAbort Reader.Crash -> Printf.printf "ABORT crash|%s\n" prog

(* ---------------- ops ---------------- *)
let op_kind (s : string) : kind =
  match s with
  | "semicolon" -> KSemiColon | "colon" -> KColon | "identifier" -> KIdentifier | "lpar" -> KLeftPar
  | "comma" -> KComma | _ -> KKw (ns_of_str s)
let kinds_of s = Stdlib.List.map op_kind (Stdlib.List.filter (fun x -> x <> "") (split_on ',' s))
let op_of_str s : op =
  match split_on ' ' s with
  | ["skip"] -> OpSkip
  | ["back"] -> OpBack
  | ["set"; n] -> OpSetState (n_of_int (int_of_string n))
  | ["peek"] -> OpPeek
  | ["cur"] -> OpCurId
  | ["last"] -> OpLastId
  | ["expect"; k] -> OpExpectKind (op_kind k)
  | ["popif"; k] -> OpPopIfKind (op_kind k)
  | ["peekexpect"] -> OpPeekExpect
  | ["nextkinds"; ks] -> OpNextKindsAre (kinds_of ks)
  | ["skipuntil"; ks] -> OpSkipUntil (kinds_of ks)
  | ["recover"; ks] -> OpRecoverUntil (kinds_of ks)
  | ["posbefore"] -> OpPosBefore
  | ["semi"] -> OpExpectSemiOrLast
  | ["slice"] -> OpSlice
  | ["gettoken"; n] -> OpGetToken (n_of_int (int_of_string n))
  | ["index"; n] -> OpIndex (n_of_int (int_of_string n))
  | ["span"; a; b] -> OpGetSpan (n_of_int (int_of_string a), n_of_int (int_of_string b))
  | _ -> failwith ("bad op " ^ s)

let rec obs_str (o : obs) : string =
  match o with
  | BUnit -> "u"
  | BNone -> "none"
  | BId i -> Printf.sprintf "id:%d" (int_of_n i)
  | BTok (k, r) -> Printf.sprintf "tok:%s@%s" (str_of_kind k) (range_str r)
  | BBool b -> if b then "b:1" else "b:0"
  | BRange r -> "r:" ^ range_str r
  | BErr r -> "err:" ^ range_str r
  | BLen n -> Printf.sprintf "len:%d" (int_of_n n)
  | BDiags (o, ds) -> obs_str o ^ "!" ^ Stdlib.String.concat "," (Stdlib.List.map range_str ds)

let run_ops_case ln =
  match split_on '|' ln with
  | [cps; dump; ops] ->
    let d = Contents.split_lines (ns_of_string cps) in
    let toks =
      Stdlib.List.map (fun w ->
        (* kind@range; the kind may itself contain '@' (the CommAt delimiter) *)
        let i = Stdlib.String.rindex w '@' in
        let k = Stdlib.String.sub w 0 i and r = Stdlib.String.sub w (i + 1) (Stdlib.String.length w - i - 1) in
        let (s, e) = range_of_str r in
        mk_token (kind_of_str k) s e) (words dump) in
    let ops = Stdlib.List.map op_of_str (Stdlib.List.filter (fun x -> x <> "") (split_on ';' ops)) in
    let (outs, st) = run_ops d toks ops sstart in
    let strs =
      Stdlib.List.map (fun r ->
        match r with
        | POk o -> obs_str o
        | PErr r -> "err:" ^ range_str r
        | PAb Reader.Crash -> "CRASH"
        | PAb Reader.OutOfFuel -> "FUEL") outs in
    Printf.printf "%s|%d,%d\n" (Stdlib.String.concat ";" strs) (int_of_n st.s_idx) (int_of_n st.s_off)
  | _ -> print_endline "BAD-CASE"

let () =
  let mode = if Array.length Sys.argv > 1 then Sys.argv.(1) else "loop" in
  iter_lines (fun ln -> if mode = "ops" then run_ops_case ln else run_loop ln)
