(* C15 runner: one session per line
     <lenient 0|1>|<request methods, comma separated, or *>|<notification methods or *>|msg;msg;...
   msg = `Q,<id>,<method>,<dec 0|1>` (request) | `N,<method>,<dec>` (notification) | `R,<id>` (client response);
   `*` = the tables of the model (Dispatch.vhdl_ls_requests / vhdl_ls_notifications); <dec> = verdict of the
   decodability oracle for the parameters.  Ids are opaque tokens.  Prints the predicted response skeleton
     <id>=ok|<id>=<code>,...|<stop>      stop: 0 running, 1 exited(0), 2 crashed, 3 reader stopped *)
open Util
let ascii_of_char c =
  let n = Char.code c in
  let b i = (n lsr i) land 1 = 1 in
  Ascii.Ascii (b 0, b 1, b 2, b 3, b 4, b 5, b 6, b 7)
let coq_string (s : Stdlib.String.t) : String.string =
  let r = ref String.EmptyString in
  for i = Stdlib.String.length s - 1 downto 0 do r := String.String (ascii_of_char (Stdlib.String.get s i), !r) done;
  !r
let table dflt s =
  if s = "*" then dflt
  else Stdlib.List.filter_map (fun m -> if m = "" then None else Some (coq_string m)) (split_on ',' s)
let flag s = match s with "1" -> true | "0" -> false | _ -> failwith ("bad flag " ^ s)
let parse_msg s : (Stdlib.String.t, bool) Dispatch.message =
  match split_on ',' s with
  | ["Q"; id; m; d] -> Dispatch.Request (id, coq_string m, flag d)
  | ["N"; m; d] -> Dispatch.Notification (coq_string m, flag d)
  | ["R"; id] -> Dispatch.Response (id, true)
  | _ -> failwith ("bad message: " ^ s)
let () =
  iter_lines (fun ln ->
    match split_on '|' ln with
    | [len; rt; nt; msgs] ->
      let msgs = Stdlib.List.filter_map (fun m -> if m = "" then None else Some (parse_msg m)) (split_on ';' msgs) in
      let (sk, stop) =
        Dispatch.predict (flag len) (table Dispatch.vhdl_ls_requests rt) (table Dispatch.vhdl_ls_notifications nt) msgs in
      let one (id, r) = id ^ "=" ^ (match r with None -> "ok" | Some c -> string_of_int (int_of_z c)) in
      print_string (Stdlib.String.concat "," (Stdlib.List.map one sk));
      print_char '|'; print_int (int_of_nat stop); print_newline ()
    | _ -> print_endline "BADCASE")
