(* C04 runner.  One request graph per line:  `<u0>;<u1>;...` where <ui> = `t:s,t:s,...`
   (t = target unit, s = 1 iff the caller discards a circular error).  Output per line:
     seq_asc|seq_desc|explore2|old1
   seq_asc / seq_desc : result vector of the one-thread run of the extracted model taking the
       units in ascending / descending order: per unit `N` (no circular error) or the index of
       the request that gets the CircularDependency diagnostic, blank-separated; `!` prefix if
       the run did not reach a final state;
   explore2 : all interleavings of the repaired protocol with 2 workers (at most 8 units, state budget 20000):
       `states:stuck:distinct_final_vectors[:vector,...]` or `skip`;
   old1 : `1` iff the pre-fix protocol (cache before outcome) can reach a stuck state with one
       worker (budget 20000 states), `0` if not, `skip` if over budget. *)
open Util
open Conc
let parse_unit s =
  if s = "" then [] else
  Stdlib.List.map (fun r ->
    match split_on ':' r with
    | [t; sw] -> (nat_of_int (int_of_string t), sw = "1")
    | _ -> failwith ("bad request " ^ r)) (split_on ',' s)
let show_lock = function
  | Done None -> "N"
  | Done (Some i) -> string_of_int (int_of_nat i)
  | Vacant -> "V"
  | Writing _ -> "W"
let show_locks ls = Stdlib.String.concat " " (Stdlib.List.map show_lock ls)
let rec seq_from a n = if n = 0 then [] else nat_of_int a :: seq_from (a + 1) (n - 1)
let seq_run deps cbo td =
  let n = Stdlib.List.length deps in
  let s0 = init_todo (nat_of_int n) (nat_of_int 1) td in
  let m = measure deps s0 in
  let s = run_first deps cbo (Datatypes.S m) s0 in
  (if final s then "" else "!") ^ show_locks (locks s)
(* breadth-first exploration of all interleavings with memoisation on the marshalled state *)
let explore deps cbo threads budget =
  let n = Stdlib.List.length deps in
  let s0 = init (nat_of_int n) (nat_of_int threads) in
  let seen = Hashtbl.create 4096 in
  let q = Queue.create () in
  let key s = Marshal.to_string s [] in
  Hashtbl.add seen (key s0) (); Queue.add s0 q;
  let nstuck = ref 0 and finals = Hashtbl.create 8 and over = ref false in
  while not (Queue.is_empty q) && not !over do
    let s = Queue.pop q in
    if final s then Hashtbl.replace finals (show_locks (locks s)) ()
    else begin
      let ss = succs deps cbo s in
      if ss = [] then incr nstuck;
      Stdlib.List.iter (fun s' ->
        let k = key s' in
        if not (Hashtbl.mem seen k) then begin
          Hashtbl.add seen k (); Queue.add s' q;
          if Hashtbl.length seen > budget then over := true
        end) ss
    end
  done;
  if !over then None
  else Some (Hashtbl.length seen, !nstuck, Hashtbl.fold (fun k () acc -> k :: acc) finals [])
(* `S name;name;...` (names = blank-separated Latin-1 byte codes): sequential insertion into the
   symbol-table model; prints for the i-th name the index of the first name with the same id *)
let symtab_line ln =
  let body = Stdlib.String.sub ln 2 (Stdlib.String.length ln - 2) in
  let names = Stdlib.List.map (fun n -> Stdlib.List.map nat_of_int (ints_of_string n)) (split_on ';' body) in
  match Symtab.classes names with
  | Some cls -> print_endline (Stdlib.String.concat " " (Stdlib.List.map (fun c -> string_of_int (int_of_nat c)) cls))
  | None -> print_endline "PANIC"
let () =
  iter_lines (fun ln ->
    if Stdlib.String.length ln >= 2 && Stdlib.String.sub ln 0 2 = "S " then symtab_line ln else
    let deps = Stdlib.List.map parse_unit (split_on ';' ln) in
    let n = Stdlib.List.length deps in
    if not (wf_depsb deps) then print_endline "BADCASE"
    else begin
      let asc = seq_from 0 n in
      let a = seq_run deps false asc in
      let d = seq_run deps false (Stdlib.List.rev asc) in
      let has_swallow = Stdlib.List.exists (fun rs -> Stdlib.List.exists (fun (_, sw) -> sw) rs) deps in
      let e = match (if n <= 8 then explore deps false 2 20000 else None) with
        | None -> "skip"
        | Some (st, stuck, fin) ->
          Printf.sprintf "%d:%d:%d:%s" st stuck (Stdlib.List.length fin) (Stdlib.String.concat "," (Stdlib.List.sort compare fin)) in
      (* without a discarded error the two protocols have the same steps *)
      let o = if not has_swallow then "0" else match explore deps true 1 20000 with
        | None -> "skip"
        | Some (_, stuck, _) -> if stuck > 0 then "1" else "0" in
      print_endline (Stdlib.String.concat "|" [a; d; e; o])
    end)
