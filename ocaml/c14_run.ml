(* C14 runner: one session per line on stdin, one result line on stdout.
   All atoms (uri = file, code, range, message) are interned by the python driver and arrive as ints:
     file 0 has no Url; message m + 1000000 is "related: " ^ message m; code 0 is `related`.
   line  := NOLINT REL FIXED NCODES REORDER | v_0 .. v_{n-1} | ev ; ev ; ...
     NOLINT, REL, FIXED in {0,1}; REORDER in {0 = identity, 1 = reverse} (hash-map iteration order);
     v_c = initial severity of code c: 0 none 1 hint 2 info 3 warning 4 error
   ev    := S v_0 .. v_{n-1}                       SetSeverity
          | P d , d , ...                           Publish; d := file range msg code nrel {file range msg}
   result: ev ; ev ; ...   ev := C (crash) | k {uri m {range sev code msg nrel {uri range msg}}}  *)
open DiagCache

let ieq (a : int) (b : int) = a = b
let file_uri (f : int) : int option = if f = 0 then None else Some f
let related_msg (m : int) : int = m + 1000000
let related_code = 0

let sev_of_int = function
  | 0 -> None | 1 -> Some Hint | 2 -> Some Info | 3 -> Some Warning | 4 -> Some Error
  | n -> failwith ("bad severity " ^ string_of_int n)

let sevmap_of (vs : int list) : int sevmap =
  let a = Array.of_list vs in
  fun c -> if c >= 0 && c < Array.length a then sev_of_int a.(c) else failwith "code out of range"

let rec take_related n toks acc =
  if n = 0 then (Stdlib.List.rev acc, toks)
  else match toks with
    | f :: r :: m :: rest -> take_related (n - 1) rest (((f, r), m) :: acc)
    | _ -> failwith "bad related"

let parse_diag (s : string) =
  match Util.ints_of_string s with
  | f :: r :: m :: c :: n :: rest ->
      let rel, left = take_related n rest [] in
      if left <> [] then failwith "trailing tokens in diag";
      { d_file = f; d_range = r; d_msg = m; d_related = rel; d_code = c }
  | _ -> failwith ("bad diag: " ^ s)

let parse_event (s : string) =
  let s = Stdlib.String.trim s in
  if s = "" then None
  else
    let body = Stdlib.String.sub s 1 (Stdlib.String.length s - 1) in
    match s.[0] with
    | 'S' -> Some (SetSeverity (sevmap_of (Util.ints_of_string body)))
    | 'P' ->
        let ds = Stdlib.List.filter (fun x -> Stdlib.String.trim x <> "") (Util.split_on ',' body) in
        Some (Publish (Stdlib.List.map parse_diag ds))
    | _ -> failwith ("bad event: " ^ s)

let print_lsp b (l : (int, int, int, int) lsp_diag) =
  Buffer.add_string b (Printf.sprintf " %d %d %d %d %d" l.l_range (Util.int_of_n l.l_severity) l.l_code l.l_msg
                         (Stdlib.List.length l.l_related));
  Stdlib.List.iter (fun ((u, r), m) -> Buffer.add_string b (Printf.sprintf " %d %d %d" u r m)) l.l_related

let print_outcome b = function
  | Crash -> Buffer.add_string b "C"
  | Ok ns ->
      Buffer.add_string b (string_of_int (Stdlib.List.length ns));
      Stdlib.List.iter (fun (u, ls) ->
          Buffer.add_string b (Printf.sprintf " %d %d" u (Stdlib.List.length ls));
          Stdlib.List.iter (print_lsp b) ls) ns

let () =
  Util.iter_lines (fun line ->
      match Util.split_on '|' line with
      | [hdr; sev0; evs] ->
          (match Util.ints_of_string hdr with
           | [nolint; rel; fixed; ncodes; reord] ->
               let st = { no_lint = (nolint = 1); related_information = (rel = 1) } in
               let all_codes = Stdlib.List.init ncodes (fun i -> i) in
               let reorder = if reord = 1 then Stdlib.List.rev else (fun m -> m) in
               let events = Stdlib.List.filter_map parse_event (Util.split_on ';' evs) in
               let s0 = { cache = []; sev = sevmap_of (Util.ints_of_string sev0) } in
               let tr = run_trace ieq ieq ieq ieq ieq file_uri related_msg related_code all_codes reorder
                          (fixed = 1) st s0 events in
               let b = Buffer.create 256 in
               Stdlib.List.iteri (fun i o -> if i > 0 then Buffer.add_string b ";"; print_outcome b o) tr;
               print_endline (Buffer.contents b)
           | _ -> failwith "bad header")
      | _ -> failwith "bad line")
