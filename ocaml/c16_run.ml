(* C16 runner: one case per line.
   T|raw;raw;...|filter/filter/...   raw = l,c,el,ec,ty,mo (ty = -1: classify gives None),
                                     filter = `-` (full request) or l,c,el,ec
       -> per filter, separated by '/':  w,data...  (w = 1 iff a u32 subtraction wrapped), then
          `|` and the same for the pre-fix map_and_sort (no dedup) -- full request only.
   O|d d d ...                       an LSP `data` array (from the implementation)
       -> `wf inc n` : well_formed_stream / strictly_increasing of its decoding (extracted
          specification predicates), n = number of tokens, or BADLEN
   D|root|sym;sym;...                ent = id,parent(-1),f1,f2,f3,f4,l1,l2,l3,l4,hasdecl,d1,d2,d3,d4
       -> nested|r1,r2,r3,r4,s1,s2,s3,s4,nchildren;...   (preorder) or OUTOFFUEL *)
open Util
open SemTok
let ints c s = Stdlib.List.map int_of_string (Stdlib.List.filter (fun x -> x <> "") (split_on c s))
let mkpos l c = { line = n_of_int l; chr = n_of_int c }
let mkrange a b c d = { rstart = mkpos a b; rend = mkpos c d }
let parse_raw s =
  match ints ',' s with
  | [l; c; el; ec; ty; mo] ->
    (mkrange l c el ec, (if ty < 0 then None else Some (n_of_int ty, n_of_int mo)))
  | _ -> failwith ("bad raw token: " ^ s)
let parse_filter s =
  if s = "-" then None else
    match ints ',' s with
    | [l; c; el; ec] -> Some (mkrange l c el ec)
    | _ -> failwith ("bad filter: " ^ s)
let show_enc (d, w) =
  (if w then "1" else "0") ^ "," ^
  Stdlib.String.concat "," (Stdlib.List.map (fun x -> string_of_int (int_of_n x)) (flatten d))
let rec stoks_of = function
  | dl :: ds :: ln :: ty :: mo :: r ->
    { delta_line = n_of_int dl; delta_start = n_of_int ds; tlen = n_of_int ln;
      token_type = n_of_int ty; token_mods = n_of_int mo } :: stoks_of r
  | [] -> []
  | _ -> raise Exit
let parse_ent s =
  match ints ',' s with
  | [id; par; f1; f2; f3; f4; l1; l2; l3; l4; hd; d1; d2; d3; d4] ->
    { DocSym.e_id = n_of_int id; DocSym.e_parent = (if par < 0 then None else Some (n_of_int par));
      DocSym.e_first = mkrange f1 f2 f3 f4; DocSym.e_last = mkrange l1 l2 l3 l4;
      DocSym.e_decl = (if hd = 0 then None else Some (mkrange d1 d2 d3 d4)) }
  | _ -> failwith ("bad ent: " ^ s)
let show_range r =
  Printf.sprintf "%d,%d,%d,%d" (int_of_n r.rstart.line) (int_of_n r.rstart.chr) (int_of_n r.rend.line) (int_of_n r.rend.chr)
let () =
  iter_lines (fun ln ->
    match split_on '|' ln with
    | ["T"; raws; filters] ->
      let raw = Stdlib.List.map parse_raw (Stdlib.List.filter (fun x -> x <> "") (split_on ';' raws)) in
      let cls = fun (x : (BinNums.coq_N * BinNums.coq_N) option) -> x in
      let ts = map_and_sort cls raw in
      let fs = Stdlib.List.map parse_filter (Stdlib.List.filter (fun x -> x <> "") (split_on '/' filters)) in
      let outs = Stdlib.List.map (fun f -> show_enc (encode ts f)) fs in
      let old = show_enc (encode (map_and_sort_old cls raw) None) in
      print_string (Stdlib.String.concat "/" outs); print_char '|'; print_string old; print_newline ()
    | ["O"; data] ->
      (match (try Some (stoks_of (ints ' ' data)) with Exit -> None) with
       | None -> print_endline "BADLEN"
       | Some d ->
         let ts = decode d in
         Printf.printf "%d %d %d\n" (if well_formed_stream ts then 1 else 0)
           (if strictly_increasing ts then 1 else 0) (Stdlib.List.length ts))
    | ["D"; root; syms] ->
      let r = parse_ent root in
      let ss = Stdlib.List.map parse_ent (Stdlib.List.filter (fun x -> x <> "") (split_on ';' syms)) in
      (match DocSym.from_parent r ss with
       | None -> print_endline "OUTOFFUEL"
       | Some h ->
         let d = DocSym.to_document_symbol h in
         let items = Stdlib.List.map (fun ((rg, sel), n) ->
             show_range rg ^ "," ^ show_range sel ^ "," ^ string_of_int (int_of_n n)) (DocSym.ds_flat d) in
         print_string (if DocSym.nested d then "1" else "0"); print_char '|';
         print_string (Stdlib.String.concat ";" items); print_newline ())
    | _ -> print_endline "BADCASE")
