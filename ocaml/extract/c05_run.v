(* Extraction for the C05/C06 runner.  `ExtrOcamlBasic` only. *)
Require Extraction.
Require Import ExtrOcamlBasic.
Require Import ZArith NArith String.
From RH Require Mini.Syntax Mini.Sem Mini.Print Mini.Renumber Mini.Gen.
Set Extraction Optimize.
Separate Extraction
  BinInt.Z.add BinNat.N.add BinNat.N.of_nat BinNat.N.to_nat
  Mini.Sem.valid_b Mini.Sem.blame_program Mini.Sem.check_program
  Mini.Gen.gen_raw Mini.Gen.gen_program Mini.Gen.gen_fell_back
  Mini.Print.print_program Mini.Print.layout.
