(* Extraction for the C05/C06 runner.  `ExtrOcamlBasic` only. *)
Require Extraction.
Require Import ExtrOcamlBasic.
Require Import ZArith NArith String.
From RH Require Mini.Syntax Mini.Sem Mini.Print Mini.Renumber Mini.Gen Mini.Walk Mini.Faults Mini.Rewrites.
Set Extraction Optimize.
Separate Extraction
  BinInt.Z.add BinNat.N.add BinNat.N.of_nat BinNat.N.to_nat
  Mini.Sem.valid_b Mini.Sem.blame_program Mini.Sem.check_program
  Mini.Gen.gen_raw Mini.Gen.gen_program Mini.Gen.gen_fell_back
  Mini.Print.print_program Mini.Print.layout
  Mini.Walk.walk_program Mini.Walk.max_nid Mini.Walk.find_phrase Mini.Walk.nodup_nids
  Mini.Faults.plant Mini.Faults.site_candidates Mini.Faults.eligible Mini.Faults.eligible_at Mini.Faults.lit_candidates
  Mini.Faults.obj_candidates Mini.Faults.phrase_root Mini.Faults.amap_formals Mini.Faults.expect Mini.Faults.all_fclasses
  Mini.Faults.unit_key Mini.Faults.unit_deps Mini.Faults.site_nid Mini.Faults.dup_sites Mini.Faults.occs_program
  Mini.Rewrites.apply_rewrite Mini.Rewrites.applicable Mini.Rewrites.add_sites Mini.Rewrites.phrase_ids
  Mini.Rewrites.use_all_sites Mini.Rewrites.conc_ids Mini.Rewrites.use_occs_of_phrase Mini.Rewrites.idents_program
  Mini.Rewrites.block_ids Mini.Rewrites.lit_idents Mini.Faults.sub_idents Mini.Faults.oc_conc
  Mini.Faults.sub_candidates Mini.Faults.call_candidates Mini.Faults.agg_candidates
  Mini.Sem.head_nid Mini.Faults.choice_candidates Mini.Faults.lit_ids Mini.Faults.obj_idents Mini.Faults.fresh_nid
  Mini.Faults.agg_variants Mini.Faults.is_condition
  Mini.Syntax.nids_dunit.
