(* Extraction for the C19 runner.  `ExtrOcamlBasic` only; no Extract Constant. *)
Require Extraction.
Require Import ExtrOcamlBasic.
Require Import ZArith NArith.
From RH Require Lint.DeadCode.
Set Extraction Optimize.
Separate Extraction
  BinInt.Z.add BinNat.N.add BinNat.N.eqb Nat.add
  Lint.DeadCode.find_unused_declarations Lint.DeadCode.group_events Lint.DeadCode.wf_events_b
  Lint.DeadCode.lint Lint.DeadCode.lint_history Lint.DeadCode.can_be_locally_unused
  Lint.DeadCode.eid Lint.DeadCode.diags_of Lint.DeadCode.config_append Lint.DeadCode.cm_get.
