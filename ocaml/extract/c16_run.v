(* Extraction for the C16 runner.  `ExtrOcamlBasic` only: N, positive and nat stay the extracted
   inductive types; no Extract Constant.  Run by ocaml/build.sh from ocaml/gen/c16_run. *)
Require Extraction.
Require Import ExtrOcamlBasic.
Require Import ZArith NArith.
From RH Require Lsp.SemTok Lsp.DocSym.
Set Extraction Optimize.
Separate Extraction
  BinInt.Z.add BinNat.N.add BinNat.N.of_nat
  Lsp.SemTok.map_and_sort Lsp.SemTok.map_and_sort_old Lsp.SemTok.encode Lsp.SemTok.encode_debug
  Lsp.SemTok.flatten Lsp.SemTok.decode Lsp.SemTok.well_formed_stream Lsp.SemTok.strictly_increasing
  Lsp.SemTok.touches Lsp.SemTok.single_line
  Lsp.DocSym.from_parent Lsp.DocSym.to_document_symbol Lsp.DocSym.ds_flat Lsp.DocSym.nested
  Lsp.DocSym.into_flat Lsp.DocSym.span Lsp.DocSym.selection.
