(* Extraction for the C03 runner (arena id allocation of the design root).  `ExtrOcamlBasic` only. *)
Require Extraction.
Require Import ExtrOcamlBasic.
Require Import ZArith NArith.
From RH Require Kernel.Arena.
Set Extraction Optimize.
Separate Extraction
  BinInt.Z.add BinNat.N.add BinNat.N.eqb Nat.add
  Kernel.Arena.empty_root Kernel.Arena.ensure_library Kernel.Arena.add_unit Kernel.Arena.remove_unit
  Kernel.Arena.apply_edits Kernel.Arena.reset Kernel.Arena.analyze_standard Kernel.Arena.analyze_unit
  Kernel.Arena.rebuild Kernel.Arena.own_id Kernel.Arena.current Kernel.Arena.fa_find Kernel.Arena.fa_get
  Kernel.Arena.fa_is_valid Kernel.Arena.link_all.
