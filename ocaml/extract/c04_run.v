(* Extraction for the C04 runner (lock protocol model Kernel/Conc.v).  `ExtrOcamlBasic` only:
   nat stays the extracted Peano type (unit ids, thread ids and request indices are < 20). *)
Require Extraction.
Require Import ExtrOcamlBasic.
Require Import ZArith NArith.
From RH Require Kernel.Conc Symtab.Symtab.
Set Extraction Optimize.
Separate Extraction
  BinInt.Z.add BinNat.N.add   (* the shared ocaml/util.ml refers to BinNums *)
  Kernel.Conc.succs Kernel.Conc.final Kernel.Conc.stuck Kernel.Conc.init Kernel.Conc.init_todo
  Kernel.Conc.run_first Kernel.Conc.locks Kernel.Conc.self_blocked Kernel.Conc.wf_depsb
  Kernel.Conc.measure Kernel.Conc.state_eqb
  Symtab.Symtab.classes Symtab.Symtab.insert_new Symtab.Symtab.insert_new_nocheck.
