(* Extraction for the C20 runner.  `ExtrOcamlBasic` only; no Extract Constant.
   Run by ocaml/build.sh from ocaml/gen/c20_run. *)
Require Extraction.
Require Import ExtrOcamlBasic.
Require Import ZArith NArith.
From RH Require Lint.Sens.
Set Extraction Optimize.
Separate Extraction
  BinInt.Z.add BinNat.N.add Nat.add
  Lint.Sens.lint_model Lint.Sens.lint_model_old Lint.Sens.lint_model_f20 Lint.Sens.spec_diags
  Lint.Sens.in_family Lint.Sens.calls_resolved Lint.Sens.wf_pos Lint.Sens.listed_signals
  Lint.Sens.get_likely_process_category Lint.Sens.root_tab Lint.Sens.reads.
