(* Extraction for the C10 runner.  `ExtrOcamlBasic` only: N, Z, positive and nat stay the extracted
   inductive types; no Extract Constant.  Run by ocaml/build.sh from ocaml/gen/c10_run. *)
Require Extraction.
Require Import ExtrOcamlBasic.
Require Import ZArith NArith.
From RH Require Text.Contents Text.Splice.
Set Extraction Optimize.
Separate Extraction
  BinInt.Z.add BinInt.Z.sub BinNat.N.add Nat.add
  Text.Contents.apply_edits Text.Contents.change Text.Contents.change_old Text.Contents.split_lines
  Text.Contents.doc_end
  Text.Splice.spec_edit Text.Splice.spec_edits Text.Splice.normalize Text.Splice.wf_edit.
