(* Extraction for the C17 runner.  `ExtrOcamlBasic` only: N, positive and nat stay the extracted
   inductive types; no Extract Constant.  Run by ocaml/build.sh from ocaml/gen/c17_run. *)
Require Extraction.
Require Import ExtrOcamlBasic.
Require Import ZArith NArith.
From RH Require Lex.SynLexer Cst.Green Cst.Builder Cst.Rewrite.
Set Extraction Optimize.
Separate Extraction
  BinInt.Z.add BinNat.N.add BinNat.N.of_nat BinNat.N.to_nat Nat.add
  Lex.SynLexer.synlex Lex.SynLexer.synlex_old Lex.SynLexer.merge Lex.SynLexer.token_stream
  Lex.SynLexer.kw2008 Lex.SynLexer.kw2019_only Lex.SynLexer.token_bytes Lex.SynLexer.tok_len
  Cst.Green.bytes_of Cst.Green.red_walk Cst.Green.glen Cst.Green.leaves Cst.Green.len_ok
  Cst.Builder.parse_with Cst.Builder.build Cst.Builder.lex_err_span
  Cst.Rewrite.rewrite Cst.Rewrite.token_rewrite Cst.Rewrite.token_rewrite_old
  Cst.Rewrite.leave_all Cst.Rewrite.keep_all Cst.Rewrite.no_hook Cst.Rewrite.nat_hook
  Cst.Rewrite.replace_nth_t Cst.Rewrite.replace_nth_e Cst.Rewrite.clone_with_text Cst.Rewrite.clone_with_leading_trivia.
