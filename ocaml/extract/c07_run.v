(* Extraction for the C07 runner.  `ExtrOcamlBasic` only; no Extract Constant. *)
Require Extraction.
Require Import ExtrOcamlBasic.
Require Import ZArith NArith List.
From RH Require Mini.Scope Mini.Overload Mini.ScopeImpl.
Set Extraction Optimize.
Separate Extraction
  BinInt.Z.add BinNat.N.add Nat.add
  Mini.Scope.spec_program Mini.Scope.family_program Mini.Scope.stats_program
  Mini.ScopeImpl.model_program Mini.ScopeImpl.disciplined_b
  Mini.ScopeImpl.cfg_now Mini.ScopeImpl.cfg_old_mpv Mini.ScopeImpl.cfg_old_body
  Mini.ScopeImpl.cfg_no_add_invalidation.
