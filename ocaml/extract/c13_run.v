(* Extraction for the C13 runner (symbol table model Symtab/Symtab.v with the observation functions of
   Symtab/SymtabCase.v).  `ExtrOcamlBasic` only: nat stays the extracted Peano type (bytes < 256,
   ids < a few hundred). *)
Require Extraction.
Require Import ExtrOcamlBasic.
Require Import ZArith NArith.
From RH Require Symtab.Symtab Symtab.SymtabCase.
Set Extraction Optimize.
Separate Extraction
  BinInt.Z.add BinNat.N.add   (* the shared ocaml/util.ml refers to BinNums *)
  Symtab.SymtabCase.ids_from Symtab.SymtabCase.kw_index Symtab.SymtabCase.lower_all
  Symtab.SymtabCase.insert_ids Symtab.Symtab.run Symtab.Symtab.lower_latin1
  Symtab.Symtab.lower_byte Symtab.Symtab.insert Symtab.Symtab.classes.
