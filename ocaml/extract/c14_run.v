(* Extraction for the C14 runner.  `ExtrOcamlBasic` only; no Extract Constant.  The model is polymorphic in its atom
   types; the runner instantiates them with OCaml ints (interned strings).  Run by ocaml/build.sh from ocaml/gen/c14_run. *)
Require Extraction.
Require Import ExtrOcamlBasic.
Require Import ZArith NArith.
From RH Require Lsp.DiagCache.
Set Extraction Optimize.
Separate Extraction
  BinInt.Z.add BinNat.N.add Nat.add
  Lsp.DiagCache.run_trace Lsp.DiagCache.run Lsp.DiagCache.publish Lsp.DiagCache.set_severity
  Lsp.DiagCache.set_severity_old Lsp.DiagCache.render Lsp.DiagCache.lsp_severity Lsp.DiagCache.init.
