(* Extraction for the C15 runner.  `ExtrOcamlBasic` only: string, ascii, Z, positive and nat stay the
   extracted inductive types; no Extract Constant.  Run by ocaml/build.sh from ocaml/gen/c15_run. *)
Require Extraction.
Require Import ExtrOcamlBasic.
Require Import ZArith NArith String.
From RH Require Lsp.Dispatch.
Set Extraction Optimize.
Separate Extraction
  BinInt.Z.add BinNat.N.add Nat.add
  Lsp.Dispatch.predict Lsp.Dispatch.run Lsp.Dispatch.dispatch Lsp.Dispatch.notify
  Lsp.Dispatch.vhdl_ls_requests Lsp.Dispatch.vhdl_ls_notifications
  Lsp.Dispatch.METHOD_NOT_FOUND Lsp.Dispatch.INVALID_PARAMS.
