(* Extraction for the C01 runner (`ExtrOcamlBasic` only; no Extract Constant).
   Run by ocaml/build.sh from ocaml/gen/c01_run. *)
Require Extraction.
Require Import ExtrOcamlBasic.
Require Import ZArith NArith List.
From RH Require Kernel.World Kernel.Reset Kernel.Incr.
Set Extraction Optimize.
Separate Extraction
  BinInt.Z.add BinInt.Z.sub BinNat.N.add BinNat.N.eqb Nat.add
  Kernel.World.u_slot Kernel.World.uid_eqb Kernel.World.mem_uid Kernel.World.unit_ids
  Kernel.Reset.get_all_affected Kernel.Reset.make_use_of Kernel.Reset.make_use_of_library_all
  Kernel.Reset.make_use_of_missing_unit Kernel.Reset.reset_gen Kernel.Reset.reset Kernel.Reset.reset_old
  Kernel.Incr.apply_batch Kernel.Incr.prepare Kernel.Incr.analyzed_units Kernel.Incr.empty_st
  Kernel.Incr.memo_get Kernel.Incr.f3_extra.
