(* Extraction for the C02 runner: TokenStream's cursor algebra (Parse/Stream.v) and the
   design-file loop with the oracle instantiated from recorded iterations
   (Parse/DesignFileLoop.v).  `ExtrOcamlBasic` only; no Extract Constant.
   Run by ocaml/build.sh from ocaml/gen/c02_run. *)
Require Extraction.
Require Import ExtrOcamlBasic.
Require Import ZArith NArith.
From RH Require Text.Contents Text.Reader Lex.LangLexer Parse.Stream Parse.DesignFileLoop.
Set Extraction Optimize.
Separate Extraction
  BinInt.Z.add BinInt.Z.sub BinNat.N.add Nat.add
  Text.Contents.split_lines
  Parse.Stream.run_ops Parse.Stream.run_op Parse.Stream.sstart Parse.Stream.slen
  Parse.DesignFileLoop.replay Parse.DesignFileLoop.records_progress
  Parse.DesignFileLoop.parse_design_file Parse.DesignFileLoop.design_units.
