(* Extraction for the C12 runner: the formatter-buffer model (RH.Lex.Render) and the shared
   vhdl_lang lexer model.  `ExtrOcamlBasic` only: N, positive and nat stay the extracted inductive
   types; no Extract Constant.  Run by ocaml/build.sh from ocaml/gen/c12_run. *)
Require Extraction.
Require Import ExtrOcamlBasic.
Require Import ZArith NArith.
From RH Require Text.Contents Text.Reader Lex.LangLexer Lex.LexSpec Lex.Render.
Set Extraction Optimize.
Separate Extraction
  BinInt.Z.add BinInt.Z.sub BinNat.N.add BinNat.N.mul Nat.add
  Lex.LangLexer.lex_all Lex.LangLexer.keywords_2008
  Lex.Render.buf0 Lex.Render.run_op Lex.Render.run_ops Lex.Render.render_pieces Lex.Render.render_ops
  Lex.Render.piece_text Lex.Render.pieces_text Lex.Render.pieces_ok Lex.Render.ops_sep_ok
  Lex.Render.follow_ok Lex.Render.take_text
  Lex.Render.supported_kind Lex.Render.pieces_supported Lex.Render.ops_tokens
  Lex.Render.same_stream_b Lex.Render.relex_same Lex.Render.sep_ok Lex.Render.trace_of Lex.Render.render.
