(* Extraction for the C11 runner (the shared vhdl_lang lexer model).  `ExtrOcamlBasic` only: N,
   positive and nat stay the extracted inductive types; no Extract Constant.
   Run by ocaml/build.sh from ocaml/gen/c11_run. *)
Require Extraction.
Require Import ExtrOcamlBasic.
Require Import ZArith NArith.
From RH Require Text.Contents Text.Reader Lex.LangLexer.
Set Extraction Optimize.
Separate Extraction
  BinInt.Z.add BinInt.Z.sub BinNat.N.add Nat.add
  Text.Contents.split_lines
  Lex.LangLexer.lex_all Lex.LangLexer.lex_all_old Lex.LangLexer.lex_latin1_file
  Lex.LangLexer.lex_gen Lex.LangLexer.keywords_2008 Lex.LangLexer.flat_outcome.
