(* Extraction for the C18 runner: both lexer models (RH.Lex.LangLexer, RH.Lex.SynLexer) seen through
   RH.Lex.Agree, and the reference splitter RH.Lex.LexGrammar.split_spec.  `ExtrOcamlBasic` only: N,
   positive and nat stay the extracted inductive types; no Extract Constant.
   Run by ocaml/build.sh from ocaml/gen/c18_run. *)
Require Extraction.
Require Import ExtrOcamlBasic.
Require Import ZArith NArith.
From RH Require Text.Contents Text.Reader Lex.LangLexer Lex.SynLexer Lex.LexGrammar Lex.Agree.
Set Extraction Optimize.
Separate Extraction
  BinInt.Z.add BinInt.Z.sub BinNat.N.add Nat.add
  Lex.Agree.lang_result Lex.Agree.syn_result Lex.Agree.syn_result_old
  Lex.Agree.no_directive Lex.Agree.no_pragma Lex.Agree.known_difference Lex.Agree.latin1
  Lex.Agree.has_colon_literal Lex.Agree.has_nonint_bitstring Lex.Agree.has_psl_word Lex.Agree.has_crlf_char
  Lex.LexGrammar.split_spec Lex.LangLexer.keywords_2008 Lex.SynLexer.kw2008.
