(* Extraction for the C09 runner.  `ExtrOcamlBasic` only: N, positive and nat stay the extracted
   inductive types; no Extract Constant.  Run by ocaml/build.sh from ocaml/gen/c09_run. *)
Require Extraction.
Require Import ExtrOcamlBasic.
Require Import ZArith NArith.
From RH Require Text.Contents Text.Splice Lsp.Edits Lsp.Rename.
Set Extraction Optimize.
Separate Extraction
  BinInt.Z.add BinInt.Z.sub BinNat.N.add Nat.add
  Text.Splice.offset_of
  Lsp.Edits.apply_edits Lsp.Edits.apply_oedits Lsp.Edits.to_offsets Lsp.Edits.sort_oe Lsp.Edits.simul
  Lsp.Edits.rename_edits_ok Lsp.Edits.wf_set Lsp.Edits.new_index Lsp.Edits.list_eqb
  Lsp.Rename.prepare_rename Lsp.Rename.rename Lsp.Rename.rename_changes Lsp.Rename.edits_of.
