(* Extraction for the C08 runner.  `ExtrOcamlBasic` only: N and positive stay the extracted
   inductive types; no Extract Constant.  Run by ocaml/build.sh from ocaml/gen/c08_run. *)
Require Extraction.
Require Import ExtrOcamlBasic.
Require Import ZArith NArith.
From RH Require Search.Events Search.Searchers Search.WfFast.
Set Extraction Optimize.
Separate Extraction
  BinInt.Z.add BinInt.Z.sub BinNat.N.add BinNat.N.eqb Nat.add
  Search.Events.is_reference Search.Events.declaration Search.Events.all_leaves
  Search.Searchers.item_at_cursor Search.Searchers.find_all_references
  Search.Searchers.find_all_references_with Search.Searchers.find_definition_of
  Search.Searchers.find_all_entity_references
  Search.Searchers.wf_forest Search.WfFast.wf_forest_fast.
