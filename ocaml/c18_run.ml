(* C18 runner: the two extracted lexer models and the reference splitter on the same inputs.
   usage: c18_run.native            one case per line on stdin (bytes in decimal), one result line per case
          c18_run.native keywords   the keyword tables: `L <word>` of RH.Lex.LangLexer.keywords_2008,
                                    `S <word>` of RH.Lex.SynLexer.kw2008
          c18_run.native old        like the default with the vhdl_syntax tokenizer before commit 5ee4d03
   result: `lc|ll|sc|sl|flags|spec|known`
     lc, ll   RH.Lex.Agree.lang_result: 1/0 = no diagnostic, lexemes in hex, comma separated (`ABORT` when the
              model aborts)
     sc, sl   RH.Lex.Agree.syn_result likewise
     flags    `d` = not no_directive, `p` = not no_pragma
     spec     RH.Lex.LexGrammar.split_spec keywords_2008: lexemes in hex, or `-` for None
     known    letters of the known differences that apply: B colon literal, C non-integer bit string,
              A PSL reserved word, D CR LF in a character literal *)
open Util

let hex l = Stdlib.String.concat "" (Stdlib.List.map (fun b -> Printf.sprintf "%02x" (int_of_n b)) l)
let hexes ls = Stdlib.String.concat "," (Stdlib.List.map hex ls)
let str_of_ns l =
  let b = Buffer.create 16 in
  Stdlib.List.iter (fun c -> Buffer.add_char b (Char.chr (int_of_n c))) l;
  Buffer.contents b

let show = function
  | Some (c, ls) -> (if c then "1" else "0") ^ "|" ^ hexes ls
  | None -> "0|ABORT"

let () =
  let old = Array.length Sys.argv > 1 && Sys.argv.(1) = "old" in
  if Array.length Sys.argv > 1 && Sys.argv.(1) = "keywords" then begin
    Stdlib.List.iter (fun k -> print_endline ("L " ^ str_of_ns k)) LangLexer.keywords_2008;
    Stdlib.List.iter (fun k -> print_endline ("S " ^ str_of_ns k)) SynLexer.kw2008
  end else
    iter_lines (fun ln ->
      let s = ns_of_string ln in
      let l = Agree.lang_result s in
      let y = if old then Agree.syn_result_old s else Agree.syn_result s in
      let flags = (if Agree.no_directive s then "" else "d") ^ (if Agree.no_pragma s then "" else "p") in
      let spec = match LexGrammar.split_spec LangLexer.keywords_2008 s with Some ls -> "+" ^ hexes ls | None -> "-" in
      let known =
        (if Agree.has_colon_literal s then "B" else "") ^ (if Agree.has_nonint_bitstring s then "C" else "")
        ^ (if Agree.has_psl_word s then "A" else "") ^ (if Agree.has_crlf_char s then "D" else "") in
      print_string (show l); print_char '|';
      print_string (show y); print_char '|';
      print_string flags; print_char '|';
      print_string spec; print_char '|';
      print_endline known)
