(* C11 runner: the extracted model of vhdl_lang's tokenizer (RH.Lex.LangLexer).
   usage: c11_run.native            one case per line on stdin, one result line per case
          c11_run.native keywords   prints the committed keyword table, one name per line
          c11_run.native old        like the default, but runs the pre-F5-fix lexer (lex_all_old)
   case : `U <code points>` (text) or `L <bytes>` (file decoded as ISO-8859-1); `B ...` (descriptor of a large
          file built by the harness: checked by the harness oracle only) is answered with `||SKIP`
   result: `tokens|diagnostics|flat`
     tokens      = `;`-joined  kind,value,sl:sc-el:ec,leading comments joined by +,trailing comment or -
     diagnostics = `;`-joined  E,code,sl:sc-el:ec
     flat        = RH.Lex.LangLexer.flat_outcome as decimal numbers (for the in-Coq cross-check)
   or `||HANG:OutOfFuel` / `||CRASH` when the model aborts. *)
open Util
open BinNums
open Datatypes
open LangLexer

let rec i64_of_pos = function
  | Coq_xH -> 1L
  | Coq_xO p -> Int64.shift_left (i64_of_pos p) 1
  | Coq_xI p -> Int64.logor (Int64.shift_left (i64_of_pos p) 1) 1L
let dec_of_n = function N0 -> "0" | Npos p -> Printf.sprintf "%Lu" (i64_of_pos p)

let hex l = Stdlib.String.concat "" (Stdlib.List.map (fun b -> Printf.sprintf "%x." (int_of_n b)) l)
let str_of_ns l =
  let b = Buffer.create 16 in
  Stdlib.List.iter (fun c -> Buffer.add_char b (Char.chr (int_of_n c))) l;
  Buffer.contents b

let kind_name = function
  | KIdentifier -> "Identifier" | KAbstractLiteral -> "AbstractLiteral" | KStringLiteral -> "StringLiteral"
  | KBitString -> "BitString" | KCharacter -> "Character" | KText -> "Text"
  | KColon -> "Colon" | KColonEq -> "ColonEq" | KTick -> "Tick" | KMinus -> "Minus" | KSemiColon -> "SemiColon"
  | KLeftPar -> "LeftPar" | KRightPar -> "RightPar" | KPlus -> "Plus" | KDot -> "Dot" | KConcat -> "Concat"
  | KComma -> "Comma" | KEQ -> "EQ" | KRightArrow -> "RightArrow" | KLT -> "LT" | KLTE -> "LTE" | KBOX -> "BOX"
  | KLtLt -> "LtLt" | KGT -> "GT" | KGTE -> "GTE" | KGtGt -> "GtGt" | KDiv -> "Div" | KNE -> "NE"
  | KTimes -> "Times" | KPow -> "Pow" | KQue -> "Que" | KQueQue -> "QueQue" | KQueEQ -> "QueEQ" | KQueNE -> "QueNE"
  | KQueLT -> "QueLT" | KQueLTE -> "QueLTE" | KQueGT -> "QueGT" | KQueGTE -> "QueGTE"
  | KCirc -> "Circ" | KCommAt -> "CommAt" | KBar -> "Bar" | KLeftSquare -> "LeftSquare"
  | KRightSquare -> "RightSquare" | KGraveAccent -> "GraveAccent"
  | KKw n -> "kw:" ^ str_of_ns n

let value_str = function
  | VNone -> "N"
  | VIdent t -> "I" ^ hex t
  | VString t -> "S" ^ hex t
  | VBitString (t, len, base, v) ->
    Printf.sprintf "B%s/%s/%d/%s" (hex t) (match len with Some n -> dec_of_n n | None -> "-") (int_of_n base) (hex v)
  | VAbsInt (t, n) -> Printf.sprintf "A%s/i%s" (hex t) (dec_of_n n)
  | VAbsReal t -> Printf.sprintf "A%s/r" (hex t)
  | VChar c -> Printf.sprintf "C%d" (int_of_n c)
  | VText t -> "T" ^ hex t

let pos (l, c) = Printf.sprintf "%d:%d" (int_of_n l) (int_of_n c)
let range s e = pos s ^ "-" ^ pos e
let comment c = Printf.sprintf "%s:%d:%s" (range c.c_s c.c_e) (if c.c_multi then 1 else 0) (hex c.c_val)
let token t =
  Printf.sprintf "%s,%s,%s,%s,%s" (kind_name t.t_kind) (value_str t.t_val) (range t.t_s t.t_e)
    (Stdlib.String.concat "+" (Stdlib.List.map comment t.t_lead))
    (match t.t_trail with Some c -> comment c | None -> "-")
let diag = function Reader.TErr (s, e, code) -> Printf.sprintf "E,%d,%s" (int_of_n code) (range s e)

let () =
  let old = Array.length Sys.argv > 1 && Sys.argv.(1) = "old" in
  if Array.length Sys.argv > 1 && Sys.argv.(1) = "keywords" then
    Stdlib.List.iter (fun k -> print_endline (str_of_ns k)) keywords_2008
  else
    iter_lines (fun ln ->
      let tag, rest =
        match Stdlib.String.index_opt ln ' ' with
        | Some i -> Stdlib.String.sub ln 0 i, Stdlib.String.sub ln (i + 1) (Stdlib.String.length ln - i - 1)
        | None -> ln, "" in
      if tag = "B" then print_endline "||SKIP" else
      let cs = ns_of_string rest in
      (* E <m> <m header numbers> <code points>: a text reached through an edit history; the model is a
         function of the final text only *)
      let cs = if tag = "E" then
          (match cs with
           | m :: r -> let rec drop n l = if n <= 0 then l else (match l with [] -> [] | _ :: t -> drop (n - 1) t) in
                       drop (int_of_n m) r
           | [] -> [])
        else cs in
      let o =
        if tag = "L" then lex_latin1_file cs
        else if old then lex_all_old cs
        else lex_all cs in
      match o with
      | Done (ts, ds) ->
        print_string (Stdlib.String.concat ";" (Stdlib.List.map token ts));
        print_char '|';
        print_string (Stdlib.String.concat ";" (Stdlib.List.map diag ds));
        print_char '|';
        print_string (Stdlib.String.concat " " (Stdlib.List.map dec_of_n (flat_outcome o)));
        print_newline ()
      | Aborted Reader.OutOfFuel -> print_endline "||HANG:OutOfFuel"
      | Aborted Reader.Crash -> print_endline "||CRASH")
