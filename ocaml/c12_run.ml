(* C12 runner: the extracted model of the formatter's buffer (RH.Lex.Render) and of the tokenizer.
   stdin: one case per line, `-` (skipped case) or `<input tokens>|<code points of the formatter's output>`
     input tokens = `;`-joined  kind,value,sl:sc-el:ec,leading comments joined by +,trailing comment or -
                    (the format of the C11/C12 harness)
   For each case the runner
     1. reconstructs a TRACE of buffer operations (OTok t / SWs / SBreak / SBreaks n / SInc / SDec) that
        explains the output: the blanks and line breaks between the token renderings are turned into
        separator operations, the indentation level is inferred from the line breaks inside leading
        comments (this matcher is glue code; its result is validated by step 2);
     2. replays the trace through the extracted `render_ops` and compares with the output, byte for byte (R);
     3. evaluates the extracted separator discipline `ops_sep_ok` on the trace (S), `pieces_supported` (P: every
        token is of a kind covered by the Coq round-trip theorem) and, for outputs up to the size limit,
        `relex_same` (L: the model tokenizer on the rendered text gives back the same kinds, values and comments);
     4. prints the model tokenizer's tokens of the output (for the lexer correspondence).
   stdout: `R=.|S=.|P=.|L=.|ops=<n>|unsupported=<n>|<detail>|<model tokens of the output or ->|<Coq term or empty>`
   (with C12_COQ_TERMS set, small cases carry the Coq term `(ops, output, R, S, L)` for the in-Coq cross-check)
   argv[1] (optional): size limit in characters for step L/4 (default 60000). *)
open Util
open BinNums
open Datatypes
open LangLexer
open Render

let rec i64_of_pos = function
  | Coq_xH -> 1L
  | Coq_xO p -> Int64.shift_left (i64_of_pos p) 1
  | Coq_xI p -> Int64.logor (Int64.shift_left (i64_of_pos p) 1) 1L
let dec_of_n = function N0 -> "0" | Npos p -> Printf.sprintf "%Lu" (i64_of_pos p)
(* unsigned 64-bit decimal -> N *)
let n_of_dec (s : string) : coq_N =
  let v = Int64.of_string ("0u" ^ s) in
  let rec go (i : int) (acc : positive option) =
    if i > 63 then acc
    else
      let bit = Int64.logand (Int64.shift_right_logical v (63 - i)) 1L = 1L in
      let acc' = match acc, bit with
        | None, false -> None
        | None, true -> Some Coq_xH
        | Some p, false -> Some (Coq_xO p)
        | Some p, true -> Some (Coq_xI p) in
      go (i + 1) acc' in
  match go 0 None with None -> N0 | Some p -> Npos p

let hex l = Stdlib.String.concat "" (Stdlib.List.map (fun b -> Printf.sprintf "%x." (int_of_n b)) l)
let unhex (s : string) : coq_N list =
  Stdlib.List.filter_map (fun x -> if x = "" then None else Some (n_of_int (int_of_string ("0x" ^ x))))
    (Stdlib.String.split_on_char '.' s)
let str_of_ns l =
  let b = Buffer.create 16 in
  Stdlib.List.iter (fun c -> Buffer.add_char b (Char.chr (int_of_n c))) l;
  Buffer.contents b
let ns_of_str (s : string) = Stdlib.List.init (Stdlib.String.length s) (fun i -> n_of_int (Char.code s.[i]))

let kind_name = function
  | KIdentifier -> "Identifier" | KAbstractLiteral -> "AbstractLiteral" | KStringLiteral -> "StringLiteral"
  | KBitString -> "BitString" | KCharacter -> "Character" | KText -> "Text"
  | KColon -> "Colon" | KColonEq -> "ColonEq" | KTick -> "Tick" | KMinus -> "Minus" | KSemiColon -> "SemiColon"
  | KLeftPar -> "LeftPar" | KRightPar -> "RightPar" | KPlus -> "Plus" | KDot -> "Dot" | KConcat -> "Concat"
  | KComma -> "Comma" | KEQ -> "EQ" | KRightArrow -> "RightArrow" | KLT -> "LT" | KLTE -> "LTE" | KBOX -> "BOX"
  | KLtLt -> "LtLt" | KGT -> "GT" | KGTE -> "GTE" | KGtGt -> "GtGt" | KDiv -> "Div" | KNE -> "NE"
  | KTimes -> "Times" | KPow -> "Pow" | KQue -> "Que" | KQueQue -> "QueQue" | KQueEQ -> "QueEQ" | KQueNE -> "QueNE"
  | KQueLT -> "QueLT" | KQueLTE -> "QueLTE" | KQueGT -> "QueGT" | KQueGTE -> "QueGTE"
  | KCirc -> "Circ" | KCommAt -> "CommAt" | KBar -> "Bar" | KLeftSquare -> "LeftSquare"
  | KRightSquare -> "RightSquare" | KGraveAccent -> "GraveAccent"
  | KKw n -> "kw:" ^ str_of_ns n
let all_kinds = [KIdentifier; KAbstractLiteral; KStringLiteral; KBitString; KCharacter; KText; KColon; KColonEq; KTick;
  KMinus; KSemiColon; KLeftPar; KRightPar; KPlus; KDot; KConcat; KComma; KEQ; KRightArrow; KLT; KLTE; KBOX; KLtLt; KGT;
  KGTE; KGtGt; KDiv; KNE; KTimes; KPow; KQue; KQueQue; KQueEQ; KQueNE; KQueLT; KQueLTE; KQueGT; KQueGTE; KCirc; KCommAt;
  KBar; KLeftSquare; KRightSquare; KGraveAccent]
let kind_of_name (s : string) : kind =
  if Stdlib.String.length s > 3 && Stdlib.String.sub s 0 3 = "kw:" then
    KKw (ns_of_str (Stdlib.String.sub s 3 (Stdlib.String.length s - 3)))
  else
    try Stdlib.List.find (fun k -> kind_name k = s) all_kinds
    with Not_found -> failwith ("unknown kind " ^ s)

let value_str = function
  | VNone -> "N"
  | VIdent t -> "I" ^ hex t
  | VString t -> "S" ^ hex t
  | VBitString (t, len, base, v) ->
    Printf.sprintf "B%s/%s/%d/%s" (hex t) (match len with Some n -> dec_of_n n | None -> "-") (int_of_n base) (hex v)
  | VAbsInt (t, n) -> Printf.sprintf "A%s/i%s" (hex t) (dec_of_n n)
  | VAbsReal t -> Printf.sprintf "A%s/r" (hex t)
  | VChar c -> Printf.sprintf "C%d" (int_of_n c)
  | VText t -> "T" ^ hex t
let value_of_str (s : string) : value =
  let body = Stdlib.String.sub s 1 (Stdlib.String.length s - 1) in
  match s.[0] with
  | 'N' -> VNone
  | 'I' -> VIdent (unhex body)
  | 'S' -> VString (unhex body)
  | 'C' -> VChar (n_of_int (int_of_string body))
  | 'T' -> VText (unhex body)
  | 'A' ->
    (match Stdlib.String.split_on_char '/' body with
     | [t; v] -> if v = "r" then VAbsReal (unhex t)
       else VAbsInt (unhex t, n_of_dec (Stdlib.String.sub v 1 (Stdlib.String.length v - 1)))
     | _ -> failwith "bad abstract literal")
  | 'B' ->
    (match Stdlib.String.split_on_char '/' body with
     | [t; len; base; v] ->
       VBitString (unhex t, (if len = "-" then None else Some (n_of_dec len)), n_of_int (int_of_string base), unhex v)
     | _ -> failwith "bad bit string")
  | _ -> failwith ("bad value " ^ s)

let pos (l, c) = Printf.sprintf "%d:%d" (int_of_n l) (int_of_n c)
let range s e = pos s ^ "-" ^ pos e
let comment c = Printf.sprintf "%s:%d:%s" (range c.c_s c.c_e) (if c.c_multi then 1 else 0) (hex c.c_val)
let token t =
  Printf.sprintf "%s,%s,%s,%s,%s" (kind_name t.t_kind) (value_str t.t_val) (range t.t_s t.t_e)
    (Stdlib.String.concat "+" (Stdlib.List.map comment t.t_lead))
    (match t.t_trail with Some c -> comment c | None -> "-")

(* "sl:sc-el:ec" *)
let parse_range (s : string) =
  match Stdlib.String.split_on_char '-' s with
  | [a; b] ->
    let p x = match Stdlib.String.split_on_char ':' x with
      | [l; c] -> (n_of_int (int_of_string l), n_of_int (int_of_string c))
      | _ -> failwith "bad position" in
    (p a, p b)
  | _ -> failwith ("bad range " ^ s)
(* "sl:sc-el:ec:multi:hex" *)
let parse_comment (s : string) : comment =
  match Stdlib.String.split_on_char ':' s with
  | [sl; sc_el; ec; multi; h] ->
    let (s0, e0) = parse_range (sl ^ ":" ^ sc_el ^ ":" ^ ec) in
    { c_val = unhex h; c_s = s0; c_e = e0; c_multi = (multi = "1") }
  | _ -> failwith ("bad comment " ^ s)
let parse_token (s : string) : token =
  match Stdlib.String.split_on_char ',' s with
  | [k; v; r; lead; trail] ->
    let (s0, e0) = parse_range r in
    { t_kind = kind_of_name k; t_val = value_of_str v; t_s = s0; t_e = e0;
      t_lead = (if lead = "" then [] else Stdlib.List.map parse_comment (Stdlib.String.split_on_char '+' lead));
      t_trail = (if trail = "-" then None else Some (parse_comment trail)) }
  | _ -> failwith ("bad token " ^ s)

(* ---------------- Coq terms (for the in-Coq cross-check of a sample) ---------------- *)
let coq_ns l = "[" ^ Stdlib.String.concat "; " (Stdlib.List.map (fun b -> string_of_int (int_of_n b)) l) ^ "]"
let coq_kind = function
  | KKw n -> "(KKw " ^ coq_ns n ^ ")"
  | k -> "K" ^ kind_name k
let coq_value = function
  | VNone -> "VNone"
  | VIdent t -> "(VIdent " ^ coq_ns t ^ ")"
  | VString t -> "(VString " ^ coq_ns t ^ ")"
  | VBitString (t, len, base, v) ->
    Printf.sprintf "(VBitString %s %s %d %s)" (coq_ns t) (match len with Some n -> "(Some " ^ dec_of_n n ^ ")" | None -> "None")
      (int_of_n base) (coq_ns v)
  | VAbsInt (t, n) -> Printf.sprintf "(VAbsInt %s %s)" (coq_ns t) (dec_of_n n)
  | VAbsReal t -> "(VAbsReal " ^ coq_ns t ^ ")"
  | VChar c -> Printf.sprintf "(VChar %d)" (int_of_n c)
  | VText t -> "(VText " ^ coq_ns t ^ ")"
let coq_pos (l, c) = Printf.sprintf "(%d, %d)" (int_of_n l) (int_of_n c)
let coq_comment c =
  Printf.sprintf "{| c_val := %s; c_s := %s; c_e := %s; c_multi := %b |}" (coq_ns c.c_val) (coq_pos c.c_s) (coq_pos c.c_e) c.c_multi
let coq_token t =
  Printf.sprintf "{| t_kind := %s; t_val := %s; t_s := %s; t_e := %s; t_lead := [%s]; t_trail := %s |}"
    (coq_kind t.t_kind) (coq_value t.t_val) (coq_pos t.t_s) (coq_pos t.t_e)
    (Stdlib.String.concat "; " (Stdlib.List.map coq_comment t.t_lead))
    (match t.t_trail with Some c -> "(Some " ^ coq_comment c ^ ")" | None -> "None")
let coq_op = function
  | OTok t -> "OTok " ^ coq_token t
  | OSep SWs -> "OSep SWs" | OSep SBreak -> "OSep SBreak" | OSep SInc -> "OSep SInc" | OSep SDec -> "OSep SDec"
  | OSep (SBreaks n) -> "OSep (SBreaks " ^ dec_of_n n ^ ")"

(* ---------------- the matcher ---------------- *)
exception Mismatch of string

let sops_for_level (cur : int) (want : int) : sop list =
  if want >= cur then Stdlib.List.init (want - cur) (fun _ -> SInc) else Stdlib.List.init (cur - want) (fun _ -> SDec)

(* run ops on a buffer that carries only (extra, indentation); returns emitted text and the new flags *)
let run_fresh (extra : bool) (ind : int) (ops : op list) : (int list * bool * int) option =
  let b = { b_rev = []; b_extra = extra; b_ind = n_of_int ind } in
  match run_ops b ops with
  | None -> None
  | Some b' ->
    let txt = Stdlib.List.concat_map (fun p -> Stdlib.List.map int_of_n (piece_text p)) (Stdlib.List.rev b'.b_rev) in
    Some (txt, b'.b_extra, int_of_n b'.b_ind)

let matches (out : int array) (at : int) (txt : int list) : bool =
  let n = Array.length out in
  let rec go i = function
    | [] -> true
    | c :: r -> i < n && out.(i) = c && go (i + 1) r in
  go at txt

(* the separator operations that write the blank text out[i..j) *)
let gap_ops (out : int array) (i : int) (j : int) (extra : bool) (ind : int) : op list * int =
  let ops = ref [] in
  let ind = ref ind in
  let extra = ref extra in
  let k = ref i in
  let add o = ops := o :: !ops in
  (* blanks before the first line break *)
  while !k < j && out.(!k) = 32 do
    if !extra then raise (Mismatch "blank after a trailing comment");
    add (OSep SWs); incr k
  done;
  while !k < j do
    let n = ref 0 in
    while !k < j && out.(!k) = 10 do incr n; incr k done;
    let sp = ref 0 in
    while !k < j && out.(!k) = 32 do incr sp; incr k done;
    if !n = 0 then raise (Mismatch "unexpected character in a gap");
    let lvl = !sp / 4 in
    let implicit = !extra && !n = 1 && !sp mod 4 = 0 && !k = j in
    Stdlib.List.iter (fun s -> add (OSep s)) (sops_for_level !ind lvl);
    ind := lvl;
    if not implicit then begin
      add (OSep (if !n = 1 then SBreak else SBreaks (n_of_int !n)));
      extra := false;
      for _ = 1 to !sp mod 4 do add (OSep SWs) done
    end
  done;
  (Stdlib.List.rev !ops, !ind)

let reconstruct (toks : token list) (out : int array) : op list =
  let n = Array.length out in
  let ops = ref [] in
  let at = ref 0 in
  let extra = ref false in
  let ind = ref 0 in
  let is_blank c = c = 32 || c = 10 in
  Stdlib.List.iteri (fun idx t ->
    let j = ref !at in
    while !j < n && is_blank out.(!j) do incr j done;
    let (gops, ind') = gap_ops out !at !j !extra !ind in
    (* the gap itself *)
    let (gtxt, extra1, ind1) =
      match run_fresh !extra !ind gops with
      | Some x -> x
      | None -> raise (Mismatch "gap operations fail") in
    ignore ind';
    (* the token, at the current or at an inferred indentation level *)
    let attempt lvl =
      let pre = Stdlib.List.map (fun s -> OSep s) (sops_for_level ind1 lvl) in
      match run_fresh extra1 ind1 (pre @ [OTok t]) with
      | Some (txt, e2, i2) when matches out !at (gtxt @ txt) -> Some (pre, Stdlib.List.length gtxt + Stdlib.List.length txt, e2, i2)
      | _ -> None in
    let candidates =
      let base = [ind1] in
      (* indentation of the line after the first leading comment *)
      let inferred =
        match t.t_lead with
        | [] -> []
        | c :: _ ->
          let skip = Stdlib.List.length (piece_text (fmt_comment c)) in
          let k = ref (!j + skip) in
          while !k < n && out.(!k) = 10 do incr k done;
          let sp = ref 0 in
          while !k < n && out.(!k) = 32 do incr sp; incr k done;
          [!sp / 4] in
      base @ inferred @ [0; 1; 2; 3; 4; 5; 6; 7; 8] in
    let rec first = function
      | [] -> raise (Mismatch (Printf.sprintf "token %d (%s) is not rendered at offset %d of the output" idx (kind_name t.t_kind) !j))
      | l :: r -> (match attempt l with Some x -> x | None -> first r) in
    let (pre, len, e2, i2) = first candidates in
    ops := Stdlib.List.rev_append (gops @ pre @ [OTok t]) !ops;
    at := !at + len; extra := e2; ind := i2) toks;
  (* the tail *)
  let j = ref !at in
  while !j < n && is_blank out.(!j) do incr j done;
  if !j <> n then raise (Mismatch (Printf.sprintf "text after the last token at offset %d" !j));
  let (gops, _) = gap_ops out !at n !extra !ind in
  Stdlib.List.rev (Stdlib.List.rev_append gops !ops)

let () =
  let limit = if Array.length Sys.argv > 1 then int_of_string Sys.argv.(1) else 60000 in
  iter_lines (fun ln ->
    if ln = "-" || ln = "" then print_endline "-"
    else begin
      try
        let bar = Stdlib.String.index ln '|' in
        let toks_s = Stdlib.String.sub ln 0 bar in
        let out_s = Stdlib.String.sub ln (bar + 1) (Stdlib.String.length ln - bar - 1) in
        let toks = if toks_s = "" then [] else Stdlib.List.map parse_token (Stdlib.String.split_on_char ';' toks_s) in
        let out_i = Array.of_list (ints_of_string out_s) in
        let out_n = Stdlib.List.map n_of_int (Array.to_list out_i) in
        let t0 = Sys.time () in
        let tick name = if Sys.getenv_opt "C12_PROF" <> None then Printf.eprintf "%s %.2f\n%!" name (Sys.time () -. t0) in
        tick "parsed";
        let ops = reconstruct toks out_i in
        tick "reconstruct";
        let r = match render_ops ops with
          | Some txt -> Stdlib.List.length txt = Array.length out_i && Stdlib.List.for_all2 (fun a b -> int_of_n a = b) txt (Array.to_list out_i)
          | None -> false in
        tick "render";
        let ids_ok = Stdlib.List.length (ops_tokens ops) = Stdlib.List.length toks in
        let s = ops_sep_ok ops in
        tick "sep_ok";
        let unsupported = Stdlib.List.length (Stdlib.List.filter (fun t -> not (supported_kind t)) toks) in
        let small = Array.length out_i <= limit in
        let lexed = if small then Some (lex_all out_n) else None in
        let l = match lexed with
          | Some (Done (ts, [])) -> if same_stream_b toks ts then "1" else "0"
          | Some _ -> "0"
          | None -> "-" in
        let mt = match lexed with
          | Some (Done (ts, _)) -> Stdlib.String.concat ";" (Stdlib.List.map token ts)
          | Some (Aborted _) -> "ABORT"
          | None -> "-" in
        let term =
          if Sys.getenv_opt "C12_COQ_TERMS" <> None && Array.length out_i <= 400 && l <> "-" then
            Printf.sprintf "([%s], %s, %b, %b, %b)" (Stdlib.String.concat "; " (Stdlib.List.map coq_op ops)) (coq_ns out_n)
              (r && ids_ok) s (l = "1")
          else "" in
        Printf.printf "R=%d|S=%d|P=%d|L=%s|ops=%d|unsupported=%d||%s|%s\n" (if r && ids_ok then 1 else 0) (if s then 1 else 0)
          (if unsupported = 0 then 1 else 0) l (Stdlib.List.length ops) unsupported mt term
      with
      | Mismatch m -> Printf.printf "R=0|S=-|P=-|L=-|ops=0|unsupported=0|%s|-|\n" m
      | Failure m -> Printf.printf "R=0|S=-|P=-|L=-|ops=0|unsupported=0|runner failure: %s|-|\n" m
    end)
