(* C08 runner: reads the cases written by harness/src/bin/c08 (one project after the other):
     P idx name            start of a project
     T id kind target      entity table row (kind: 0 none 1 ImplicitOf 2 InstanceOf 3 DeclaredBy 4 DerivedFrom)
     U file                start of a design unit (file id of its tokens)
     w|W f l1 c1 l2 c2     search_with_pos; upper case: guarded events follow up to the matching `)`
     r|R f l1 c1 l2 c2 e   search_pos_with_ref (e = entity id or -)
     D e kind dp ; ep      search_decl (dp/ep = `f l1 c1 l2 c2` or -)
     Q C f l c             item_at_cursor query        -> `N` | `S f l1 c1 l2 c2 e`
     Q A e                 find_all_references query   -> `L f:l1:c1:l2:c2 ...`
     Q D e                 AnyEnt::declaration()       -> `D id`
     K                     well-formedness             -> `K <wf_forest_fast> <wf_forest | ->`
     E                     end of the project          -> `E`
   One output line per Q/K/E line. *)
open Util
open BinNums
open Events

let table : (int, int * int) Hashtbl.t = Hashtbl.create 1024
let ent_cache : (int, ent) Hashtbl.t = Hashtbl.create 1024

let rec mk_ent depth id : ent =
  let rel =
    if depth = 0 then RelNone
    else
      match Hashtbl.find_opt table id with
      | None -> RelNone
      | Some (k, t) ->
        (match k with
         | 1 -> ImplicitOf (mk_ent (depth - 1) t)
         | 2 -> InstanceOf (mk_ent (depth - 1) t)
         | 3 -> DeclaredBy (mk_ent (depth - 1) t)
         | 4 -> DerivedFrom (mk_ent (depth - 1) t)
         | _ -> RelNone)
  in
  Ent (n_of_int id, rel)

let ent_of id =
  match Hashtbl.find_opt ent_cache id with
  | Some e -> e
  | None -> let e = mk_ent 4 id in Hashtbl.add ent_cache id e; e

let pos l c = { line = n_of_int l; chr = n_of_int c }
let srcpos f l1 c1 l2 c2 = { sp_file = n_of_int f; sp_start = pos l1 c1; sp_end = pos l2 c2 }
let ios = int_of_string
let srcpos_of = function
  | [f; a; b; c; d] -> srcpos (ios f) (ios a) (ios b) (ios c) (ios d)
  | _ -> failwith "bad position"
let opt_srcpos = function
  | ["-"] -> None
  | l -> Some (srcpos_of l)
let show_srcpos sep p =
  Stdlib.String.concat sep
    (Stdlib.List.map string_of_int
       [int_of_n p.sp_file; int_of_n p.sp_start.line; int_of_n p.sp_start.chr; int_of_n p.sp_end.line; int_of_n p.sp_end.chr])

(* forest under construction: finished units (reversed), the current unit as a stack of frames *)
type frame = { mk : ev list -> ev; mutable items : ev list (* reversed *) }
let units : (coq_N * ev list) list ref = ref []
let cur_file = ref (-1)
let stack : frame list ref = ref []
let top_items : ev list ref = ref []
let forest : (coq_N * ev list) list option ref = ref None

let push_ev e =
  match !stack with
  | f :: _ -> f.items <- e :: f.items
  | [] -> top_items := e :: !top_items

let close_unit () =
  if !cur_file >= 0 then begin
    while !stack <> [] do
      (match !stack with
       | f :: r -> stack := r; push_ev (f.mk (Stdlib.List.rev f.items))
       | [] -> ())
    done;
    units := (n_of_int !cur_file, Stdlib.List.rev !top_items) :: !units;
    top_items := [];
    cur_file := -1
  end

let get_forest () =
  match !forest with
  | Some f -> f
  | None ->
    close_unit ();
    let f = Stdlib.List.rev !units in
    forest := Some f; f

let reset () =
  Hashtbl.reset table; Hashtbl.reset ent_cache;
  units := []; cur_file := -1; stack := []; top_items := []; forest := None

let rec split_at_semicolon acc = function
  | ";" :: r -> (Stdlib.List.rev acc, r)
  | x :: r -> split_at_semicolon (x :: acc) r
  | [] -> (Stdlib.List.rev acc, [])

let count_leaves f = Stdlib.List.length (all_leaves f)

let () =
  iter_lines (fun ln ->
    match split_on ' ' ln with
    | "P" :: _ -> reset ()
    | ["T"; id; k; t] -> Hashtbl.replace table (ios id) (ios k, ios t)
    | ["U"; f] -> close_unit (); cur_file := ios f
    | "w" :: p -> push_ev (WithPos (srcpos_of p, []))
    | "W" :: p -> let sp = srcpos_of p in stack := { mk = (fun g -> WithPos (sp, g)); items = [] } :: !stack
    | ["r"; f; a; b; c; d; e] ->
      push_ev (Ref (srcpos_of [f; a; b; c; d], (if e = "-" then None else Some (ent_of (ios e))), []))
    | ["R"; f; a; b; c; d; e] ->
      let sp = srcpos_of [f; a; b; c; d] in
      let t = if e = "-" then None else Some (ent_of (ios e)) in
      stack := { mk = (fun g -> Ref (sp, t, g)); items = [] } :: !stack
    | [")"] ->
      (match !stack with
       | f :: r -> stack := r; push_ev (f.mk (Stdlib.List.rev f.items))
       | [] -> failwith "unbalanced )")
    | "D" :: e :: k :: rest ->
      let (dp, ep) = split_at_semicolon [] rest in
      push_ev (Decl ((if e = "-" then None else Some (ent_of (ios e))), opt_srcpos dp, opt_srcpos ep, n_of_int (ios k)))
    | ["Q"; "C"; f; l; c] ->
      (match Searchers.item_at_cursor (get_forest ()) (n_of_int (ios f)) (pos (ios l) (ios c)) with
       | None -> print_endline "N"
       | Some (p, e) ->
         print_string "S "; print_string (show_srcpos " " p); print_char ' ';
         print_endline (string_of_int (int_of_n (ent_id e))))
    | ["Q"; "D"; e] ->
      print_endline ("D " ^ string_of_int (int_of_n (ent_id (declaration (ent_of (ios e))))))
    | ["Q"; "A"; e] ->
      let l = Searchers.find_all_references (get_forest ()) (ent_of (ios e)) in
      print_char 'L';
      Stdlib.List.iter (fun p -> print_char ' '; print_string (show_srcpos ":" p)) l;
      print_newline ()
    | ["K"] ->
      let f = get_forest () in
      let fast = WfFast.wf_forest_fast f in
      let slow = if count_leaves f <= 2500 then (if Searchers.wf_forest f then "1" else "0") else "-" in
      print_endline ("K " ^ (if fast then "1" else "0") ^ " " ^ slow)
    | ["E"] -> print_endline "E"; reset ()
    | [""] | [] -> ()
    | _ -> print_endline ("BADLINE " ^ ln))
