(* C03 runner: replays the unit bookkeeping of a project history on the extracted model of the design root
   (Kernel/Arena.v) and prints the arena id the model assigns to every design unit.
   Input lines:  N            new case (empty root)
                 L <l>        DesignRoot::ensure_library
                 A <l> <k>    LockedUnit::new + add_design_unit  (unit k of library l; std.standard = 0 0)
                 R <l> <k>    remove_source of that unit
                 Q            print `l:k:id` for every unit slot (slot order), ids as the model allocates them *)
open Util
open Arena
let () =
  let r = ref empty_root in
  iter_lines (fun ln ->
    match split_on ' ' (Stdlib.String.trim ln) with
    | ["N"] -> r := empty_root
    | ["L"; l] -> r := ensure_library !r (n_of_int (int_of_string l)) (n_of_int 0)
    | ["A"; l; k] -> r := add_unit !r (OUnit (n_of_int (int_of_string l), n_of_int (int_of_string k)))
    | ["R"; l; k] -> r := remove_unit !r (OUnit (n_of_int (int_of_string l), n_of_int (int_of_string k)))
    | ["Q"] ->
      let items = Stdlib.List.filter_map (fun s ->
        match s.s_owner with
        | OUnit (l, k) -> Some (Printf.sprintf "%d:%d:%d" (int_of_n l) (int_of_n k) (int_of_n (own_id s)))
        | OLib _ -> None) !r.r_slots in
      print_endline (Stdlib.String.concat " " items)
    | [""] -> ()
    | _ -> print_endline "BADLINE")
