(* C01 runner: replays the dependency bookkeeping of one edit history on the extracted model
   (Kernel/Reset.v, Kernel/Incr.v).  One command per line, one answer line per command.

   uid    = l:k:p:s     (library, kind 0..6 = entity configuration package package_instance context
                         architecture package_body, primary name, secondary name; s ignored for k<5)
   slot   = l:p:s       (s = -1: primary unit)
   pairs  = key>user separated by blanks

   new                            forget everything (empty project)
   maps|U pairs|L pairs|M pairs   install users_of / users_of_library_all / missing_unit
   step|removed uids|added uids   apply the batch (Library::remove_source / add_design_unit) and run the
                                  first half of DesignRoot::analyze (Incr.prepare = reset + list of units
                                  without result); with `stepold` the pre-24ed74b reset is used.
                                  answer: added=..|removed=..|reset=..|rremoved=..|U=..|L=..|M=..|todo=..|analyzed=..
   commit                         the units of `todo` count as analysed from now on
   cyc|U pairs                    for every edge (unit, user) the verdict of make_use_of(user, unit) on the
                                  given users_of; answer: cyc=<users with a cycle verdict>|closure=<their
                                  transitive users (get_all_affected)>                                     *)
open Util
open World
open Reset
open Incr

let pkind_of = function 0 -> PEntity | 1 -> PConfiguration | 2 -> PPackage | 3 -> PPackageInstance | _ -> PContext
let uid_of_string s =
  match Stdlib.List.map int_of_string (split_on ':' s) with
  | [l; k; p; sn] ->
    if k < 5 then { u_lib = n_of_int l; u_key = KPrimary (pkind_of k, n_of_int p) }
    else { u_lib = n_of_int l; u_key = KSecondary ((if k = 5 then SArchitecture else SPackageBody), n_of_int p, n_of_int sn) }
  | _ -> failwith ("bad uid " ^ s)
let string_of_uid u =
  let l = int_of_n u.u_lib in
  match u.u_key with
  | KPrimary (k, n) ->
    let kc = (match k with PEntity -> 0 | PConfiguration -> 1 | PPackage -> 2 | PPackageInstance -> 3 | PContext -> 4) in
    Printf.sprintf "%d:%d:%d:0" l kc (int_of_n n)
  | KSecondary (k, p, n) ->
    Printf.sprintf "%d:%d:%d:%d" l (match k with SArchitecture -> 5 | SPackageBody -> 6) (int_of_n p) (int_of_n n)
let slot_of_string s =
  match Stdlib.List.map int_of_string (split_on ':' s) with
  | [l; p; sn] -> { s_lib = n_of_int l; s_prim = n_of_int p; s_sec = (if sn < 0 then None else Some (n_of_int sn)) }
  | _ -> failwith ("bad slot " ^ s)
let string_of_slot s =
  Printf.sprintf "%d:%d:%d" (int_of_n s.s_lib) (int_of_n s.s_prim) (match s.s_sec with None -> -1 | Some n -> int_of_n n)
let words s = Stdlib.List.filter (fun x -> x <> "") (split_on ' ' s)
let pair_of f g s = match split_on '>' s with [a; b] -> (f a, g b) | _ -> failwith ("bad pair " ^ s)
let uids s = Stdlib.List.map uid_of_string (words s)
let show_list f l = Stdlib.String.concat " " (Stdlib.List.sort compare (Stdlib.List.map f l))
let show_pairs f l = show_list (fun (k, u) -> f k ^ ">" ^ string_of_uid u) l

let dummy_prog = Done (false, N0)
let dummy_entry = (Res (false, N0), [])
let state = ref empty_st
let pending = ref None

let step fixed ln_removed ln_added =
  let rem = uids ln_removed and adds = Stdlib.List.map (fun u -> (u, dummy_prog)) (uids ln_added) in
  let s1 = apply_batch !state (rem, adds) in
  match prepare fixed s1 with
  | None -> print_endline "OUTOFFUEL"
  | Some ((rr, memo1), todo) ->
    pending := Some (s1, rr, memo1, todo);
    let m = rr.rr_maps in
    Printf.printf "added=%s|removed=%s|reset=%s|rremoved=%s|U=%s|L=%s|M=%s|todo=%s|analyzed=%s\n%!"
      (show_list string_of_uid s1.added) (show_list string_of_uid s1.removed)
      (show_list string_of_uid rr.rr_all) (show_list string_of_uid rr.rr_removed)
      (show_pairs string_of_uid m.users_of)
      (show_pairs (fun l -> string_of_int (int_of_n l)) m.users_all)
      (show_pairs string_of_slot m.missing)
      (show_list string_of_uid todo)
      (show_list string_of_uid (analyzed_units true s1.units rr todo))

let () =
  iter_lines (fun ln ->
    match split_on '|' ln with
    | ["new"] -> state := empty_st; pending := None; print_endline "ok"
    | ["maps"; u; l; m] ->
      let mp = { users_of = Stdlib.List.map (pair_of uid_of_string uid_of_string) (words u);
                 users_all = Stdlib.List.map (pair_of (fun x -> n_of_int (int_of_string x)) uid_of_string) (words l);
                 missing = Stdlib.List.map (pair_of slot_of_string uid_of_string) (words m) } in
      let s = !state in
      state := { s with sast = { a_memo = s.sast.a_memo; a_maps = mp } };
      print_endline "ok"
    | ["step"; r; a] -> step true r a
    | ["stepold"; r; a] -> step false r a
    | ["commit"] ->
      (match !pending with
       | None -> print_endline "NOPENDING"
       | Some (s1, rr, memo1, todo) ->
         let memo = Stdlib.List.map (fun u -> (u, dummy_entry)) todo @ memo1 in
         state := { units = s1.units; added = []; removed = []; sast = { a_memo = memo; a_maps = rr.rr_maps }; lintc = s1.lintc };
         pending := None; print_endline "ok")
    | ["cyc"; u] ->
      let e = Stdlib.List.map (pair_of uid_of_string uid_of_string) (words u) in
      let mp = { users_of = e; users_all = []; missing = [] } in
      let cyc = Stdlib.List.filter_map (fun (unit_, user) ->
          match make_use_of mp user unit_ with
          | Some (_, ok) -> if ok then None else Some user
          | None -> Some user) e in
      let cyc = Stdlib.List.sort_uniq compare cyc in
      (match get_all_affected e cyc with
       | Some cl -> Printf.printf "cyc=%s|closure=%s\n%!" (show_list string_of_uid cyc) (show_list string_of_uid cl)
       | None -> print_endline "OUTOFFUEL")
    | _ -> print_endline "BADCMD")
