#!/bin/sh
# Extracts the Coq models to ocaml/gen/*.ml and builds the runner executables (ocaml/*_run.ml).
set -e
cd "$(dirname "$0")"
mkdir -p gen
stamp=gen/.stamp
need=0
[ -f $stamp ] || need=1
if [ $need -eq 0 ]; then
  for f in Extract.v $(find ../coq -name '*.vo'); do
    if [ "$f" -nt $stamp ]; then need=1; break; fi
  done
fi
if [ $need -eq 1 ]; then
  rm -f gen/*.ml gen/*.mli
  (cd gen && coqc -Q ../../coq RH ../Extract.v >/dev/null && rm -f ../Extract.vo ../Extract.glob ../.Extract.aux ../Extract.vos ../Extract.vok)
  touch $stamp
fi
targets=""
if [ $# -eq 0 ]; then
  for f in *_run.ml; do targets="$targets ${f%.ml}.native"; done
else
  for t in "$@"; do targets="$targets $t.native"; done
fi
ocamlbuild -quiet -use-ocamlfind -I gen -build-dir ../.cache/ocamlbuild -cflags -w,-a -j 8 $targets
