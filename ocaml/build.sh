#!/bin/sh
# usage: ocaml/build.sh <exe>...      (default: every *_run.ml)
# For each <exe>: extracts ocaml/extract/<exe>.v into ocaml/gen/<exe>/ (when a .vo or the extraction
# file is newer than the last extraction) and builds ocaml/<exe>.ml (+ util.ml) with ocamlbuild into
# .cache/ocamlbuild/<exe>/<exe>.native.  Independent per executable: safe to run in parallel.
set -e
cd "$(dirname "$0")"
if [ $# -eq 0 ]; then
  set -- $(for f in *_run.ml; do echo "${f%.ml}"; done)
fi
for exe in "$@"; do
  gen=gen/$exe
  mkdir -p "$gen"
  # make sure every Coq module the extraction file requires is compiled (a fresh checkout only
  # builds the dependency cone of the claimed Props files)
  deps=$(coqdep -Q ../coq RH extract/$exe.v 2>/dev/null | tr ' ' '\n' | grep '^\.\./coq/.*\.vo$' | sed 's|^\.\./coq/||' | sort -u | tr '\n' ' ')
  if [ -n "$deps" ]; then
    ../coq/build.sh $deps >/dev/null || { echo "coq build of extraction dependencies failed: $deps"; exit 1; }
  fi
  stamp=$gen/.stamp
  need=0
  [ -f "$stamp" ] || need=1
  if [ $need -eq 0 ]; then
    for f in extract/$exe.v $(find ../coq -name '*.vo'); do
      if [ "$f" -nt "$stamp" ]; then need=1; break; fi
    done
  fi
  if [ $need -eq 1 ]; then
    rm -f "$gen"/*.ml "$gen"/*.mli
    cp extract/$exe.v "$gen/Extract_$exe.v"
    (cd "$gen" && coqc -Q ../../../coq RH "Extract_$exe.v" >/dev/null && rm -f Extract_$exe.* .Extract_$exe.aux)
    touch "$stamp"
  fi
  ocamlbuild -quiet -use-ocamlfind -I "$gen" -build-dir "../.cache/ocamlbuild/$exe" -cflags -w,-a $exe.native
done
