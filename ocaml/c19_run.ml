(* C19 runner.  One history per line:
     TAG|STEP#STEP#...
     STEP  = LAYER+LAYER+...:GROUP;GROUP;...   LAYER = tp1,tp2,tp3 (one configuration file; the layers are merged with the
             model of Config::append in this order); tpN: 0 = library N defined, not third party; 1 = third party; 2 = not defined
     GROUP = lib,name,analyzed,hasprim/ENTS/UNITS
     ENTS  = id:kind:parent:rel:relto:pos ...   ('-' = none; rel = D | O | N)
     UNITS = unit,unit,...   unit = events `D<id>` `R<id>` `D-` `R-` separated by blanks; the first unit is the
             primary unit iff hasprim = 1
   Prints  TAG|STEPOUT#...  with STEPOUT = out=<pos.id ...>/lib,name:wf:<ids of find_unused_declarations>;...
   (`out` = diagnostics emitted by the model of UnusedDeclarationsLinter::lint over the history, sorted). *)
open Util
open DeadCode

let kind_of_string = function
  | "pkg" -> KDesignPackage | "upkg" -> KDesignUninstPackage | "design" -> KDesignOther
  | "conc" -> KConcurrent | "seq" -> KSequential | "loop" -> KLoopParameter | "elem" -> KElementDeclaration
  | "enum" -> KEnumLiteral | "isub" -> KInterfaceSubprogram | "sdecl" -> KSubprogramDecl | "over" -> KOverloadedOther
  | "obj" -> KObject false | "iobj" -> KObject true | "comp" -> KComponent | "prot" -> KTypeProtected
  | "type" -> KTypeOther | "other" | "unknown" -> KOther
  | s -> failwith ("kind " ^ s)

exception Cyclic

type raw = { rid : int; rkind : string; rparent : int option; rrel : string; rrelto : int option; rpos : int option }

let opt_int s = if s = "-" then None else Some (int_of_string s)
let words s = Stdlib.List.filter (fun x -> x <> "") (split_on ' ' s)

let parse_ents s =
  let tbl = Hashtbl.create 64 in
  Stdlib.List.iter (fun w ->
    match split_on ':' w with
    | [i; k; p; r; rt; pos] ->
      let i = int_of_string i in
      Hashtbl.replace tbl i { rid = i; rkind = k; rparent = opt_int p; rrel = r; rrelto = opt_int rt; rpos = opt_int pos }
    | _ -> failwith ("ent " ^ w)) (words s);
  tbl

let build_ents tbl =
  let memo = Hashtbl.create 64 in
  let rec build visiting i =
    match Hashtbl.find_opt memo i with
    | Some e -> e
    | None ->
      if Stdlib.List.mem i visiting then raise Cyclic;
      let r = (match Hashtbl.find_opt tbl i with Some r -> r | None -> failwith ("missing ent " ^ string_of_int i)) in
      let v = i :: visiting in
      let parent = (match r.rparent with Some p -> Some (build v p) | None -> None) in
      let rel = (match r.rrel, r.rrelto with
          | "D", Some o -> DeclaredBy (build v o)
          | "O", _ -> RelOther
          | _ -> RelNone) in
      let e = Ent (n_of_int i, kind_of_string r.rkind, parent, rel,
                   (match r.rpos with Some p -> Some (n_of_int p) | None -> None)) in
      Hashtbl.replace memo i e; e
  in
  (fun i -> build [] i)

let parse_unit get s =
  Stdlib.List.map (fun w ->
      let c = w.[0] and rest = Stdlib.String.sub w 1 (Stdlib.String.length w - 1) in
      let e = if rest = "-" then None else Some (get (int_of_string rest)) in
      if c = 'D' then EvDecl e else EvRef e) (words s)

type grp = { glib : int; gname : int; ganalyzed : bool; ggroup : group; gwf : bool }

let parse_group s =
  match split_on '/' s with
  | [hdr; ents; units] ->
    (match split_on ',' hdr with
     | [lib; name; an; hp] ->
       let tbl = parse_ents ents in
       let get = build_ents tbl in
       (try
          let us = Stdlib.List.map (parse_unit get) (if units = "" then [] else split_on ',' units) in
          let g = if hp = "1" then (match us with p :: r -> { primary = Some p; secondaries = r } | [] -> { primary = None; secondaries = [] })
            else { primary = None; secondaries = us } in
          { glib = int_of_string lib; gname = int_of_string name; ganalyzed = (an = "1"); ggroup = g; gwf = true }
        with Cyclic ->
          { glib = int_of_string lib; gname = int_of_string name; ganalyzed = (an = "1");
            ggroup = { primary = None; secondaries = [] }; gwf = false })
     | _ -> failwith "group header")
  | _ -> failwith ("group " ^ s)

let tp_of = function "0" -> Some false | "1" -> Some true | _ -> None

let () =
  iter_lines (fun ln ->
    match split_on '|' ln with
    | [tag; hist] ->
      let steps = Stdlib.List.map (fun st ->
          match split_on ':' st with
          | cfg :: rest ->
            let groups_s = Stdlib.String.concat ":" rest in
            let layer_of l =
              Stdlib.List.concat (Stdlib.List.mapi (fun i v -> match tp_of v with Some b -> [ (n_of_int (i + 1), b) ] | None -> []) (split_on ',' l)) in
            let cm = Stdlib.List.fold_left (fun acc l -> config_append acc (layer_of l)) [] (split_on '+' cfg) in
            let groups = Stdlib.List.filter_map (fun g -> if g = "" then None else Some (parse_group g)) (split_on ';' groups_s) in
            (cm, groups)
          | [] -> failwith "step") (split_on '#' hist) in
      let model_steps = Stdlib.List.map (fun (cm, groups) ->
          let find l n = Stdlib.List.find_opt (fun g -> g.glib = l && g.gname = n) groups in
          let lib l = { lib_primary = (fun n -> match find l (int_of_n n) with Some g -> g.ggroup.primary | None -> None);
                        lib_secondaries = (fun n -> match find l (int_of_n n) with Some g -> g.ggroup.secondaries | None -> []) } in
          let root = (fun l -> let l = int_of_n l in if l >= 1 && l <= 3 then Some (lib l) else None) in
          let cfg = (fun l -> cm_get cm l) in
          let analyzed = Stdlib.List.concat_map (fun g ->
              if g.ganalyzed then [ (n_of_int g.glib, n_of_int g.gname); (n_of_int g.glib, n_of_int g.gname) ] else []) groups in
          ((root, cfg), analyzed)) steps in
      let outs = lint_history [] model_steps in
      let show_out out =
        let l = Stdlib.List.map (fun (p, i) -> Printf.sprintf "%d.%d" (int_of_n p) (int_of_n i)) out in
        Stdlib.String.concat " " (Stdlib.List.sort compare l) in
      let step_strs = Stdlib.List.map2 (fun out (_, groups) ->
          let gs = Stdlib.List.map (fun g ->
              let wf = g.gwf && wf_events_b (group_events g.ggroup) in
              let un = Stdlib.List.map (fun e -> int_of_n (eid e)) (find_unused_declarations g.ggroup) in
              Printf.sprintf "%d,%d:%d:%s" g.glib g.gname (if wf then 1 else 0)
                (Stdlib.String.concat " " (Stdlib.List.map string_of_int (Stdlib.List.sort compare un)))) groups in
          "out=" ^ show_out out ^ "/" ^ Stdlib.String.concat ";" gs) outs steps in
      print_string tag; print_char '|'; print_string (Stdlib.String.concat "#" step_strs); print_newline ()
    | _ -> print_endline "BADCASE")
