(* C05/C06 runner (extracted generator + printer + rewrites + faults).  stdin: one request per line
     case <pid> <tag> <nrewrites> <depth> <nfaults> <rseed> <faultclass|any> | <c1> <c2> ...
   For the program generated from the choices c1.. prints
     - the program itself                                   (pid.b)
     - nrewrites variants, each a composition of up to `depth` applicable rewrites   (pid.r<k>)
     - nfaults planted variants                              (pid.f<k>)
   stdout: bundle for harness/src/bin/c05.rs (P/F lines) interleaved with
     M <pid> <key> <value...>        facts: fellback, rewrites, valid, fault, expect, blame, faulty_file
     U <pid> <file> <key> : <dep keys...>   design unit of a file and the units it refers to (for a planted
                                     program: read off the ORIGINAL program; plants never add or remove units)
     S <pid> <nid> <file> <line> <col> <len>   position of the token of the node to blame
   Tags: variant k of a program with tag t is printed with tag t*64+k, so all library names are distinct. *)
open Util
let char_of_ascii (a : Ascii.ascii) : char =
  match a with
  | Ascii.Ascii (b0, b1, b2, b3, b4, b5, b6, b7) ->
    let v b k = if b then 1 lsl k else 0 in
    Char.chr (v b0 0 + v b1 1 + v b2 2 + v b3 3 + v b4 4 + v b5 5 + v b6 6 + v b7 7)
let string_of_coq (s : String.string) : Stdlib.String.t =
  let b = Buffer.create 64 in
  let rec go = function
    | String.EmptyString -> ()
    | String.String (c, r) -> Buffer.add_char b (char_of_ascii c); go r in
  go s; Buffer.contents b

let rng = ref 1
let next_rand () =
  rng := (!rng * 1103515245 + 12345) land 0x3fffffff;
  (!rng lsr 8)
let rand n = if n <= 0 then 0 else (next_rand ()) mod n
let pick l = match l with [] -> None | _ -> Some (Stdlib.List.nth l (rand (Stdlib.List.length l)))

let key_str ((l, n), s) = Printf.sprintf "%d.%d.%d" (int_of_n l) (int_of_n n) (int_of_n s)

(* prints program p under id pid; want: node ids whose positions are reported; returns unit -> file map *)
let emit_program ?(units_of : Syntax.program option) pid tag (p : Syntax.program) (want : int list) =
  Printf.printf "P %s\n" pid;
  let files = Print.print_program (n_of_int tag) p in
  Stdlib.List.iter (fun ((lib, file), toks) ->
    let (text, sites) = Print.layout toks in
    let text = string_of_coq text in
    let file = string_of_coq file in
    let lines = Stdlib.String.split_on_char '\n' text in
    let lines = match Stdlib.List.rev lines with "" :: r -> Stdlib.List.rev r | _ -> lines in
    Printf.printf "F %s %s %d\n" (string_of_coq lib) file (Stdlib.List.length lines);
    Stdlib.List.iter (fun l -> print_string l; print_char '\n') lines;
    Stdlib.List.iter (fun (nid, ((line, col), len)) ->
      let i = int_of_n nid in
      if Stdlib.List.mem i want then
        Printf.printf "S %s %d %s %d %d %d\n" pid i file (int_of_n line) (int_of_n col) (int_of_n len)) sites
  ) files;
  (* units: file name = lib<tag>_<l>_<k>.vhd in unit order *)
  Stdlib.List.iter (fun (lb : Syntax.library) ->
    Stdlib.List.iteri (fun k u ->
      let file = Printf.sprintf "lib%d_%d_%d.vhd" tag (int_of_n lb.Syntax.l_name) k in
      Printf.printf "U %s %s %s :" pid file (key_str (Faults.unit_key lb.Syntax.l_name u));
      Stdlib.List.iter (fun d -> Printf.printf " %s" (key_str d)) (Faults.unit_deps lb.Syntax.l_name u);
      print_char '\n') lb.Syntax.l_units) (match units_of with Some q -> q | None -> p)

let file_of_nid tag (p : Syntax.program) (nid : int) : string =
  let res = ref "?" in
  Stdlib.List.iter (fun (lb : Syntax.library) ->
    Stdlib.List.iteri (fun k u ->
      if Stdlib.List.exists (fun x -> int_of_n x = nid) (Syntax.nids_dunit u) then
        res := Printf.sprintf "lib%d_%d_%d.vhd" tag (int_of_n lb.Syntax.l_name) k) lb.Syntax.l_units) p;
  !res

let cls_name (c : Sem.cls) = match c with
  | Sem.Undeclared -> "Undeclared" | Sem.Duplicate -> "Duplicate" | Sem.TypeMismatch -> "TypeMismatch"
  | Sem.NoOverload -> "NoOverload" | Sem.UnknownField -> "UnknownField" | Sem.UnknownItem -> "UnknownItem"
  | Sem.UnknownLib -> "UnknownLib" | Sem.UnknownUnit -> "UnknownUnit" | Sem.UnknownArch -> "UnknownArch"
  | Sem.UnknownFormal -> "UnknownFormal" | Sem.MissingAssoc -> "MissingAssoc" | Sem.KindMismatch -> "KindMismatch"
  | Sem.Ambiguous -> "Ambiguous" | Sem.Conservative -> "Conservative" | Sem.Other -> "Other"
let fclass_name (f : Faults.fclass) = match f with
  | Faults.FUndeclared -> "undeclared" | Faults.FDuplicate -> "duplicate" | Faults.FWrongLiteral -> "wrong_literal"
  | Faults.FWrongObject -> "wrong_object" | Faults.FNoOverload -> "no_overload" | Faults.FUnknownField -> "unknown_field"
  | Faults.FUnknownItem -> "unknown_item" | Faults.FUnknownLib -> "unknown_library" | Faults.FUnknownUnit -> "unknown_unit"
  | Faults.FUnknownArch -> "unknown_architecture" | Faults.FUnknownFormal -> "unknown_formal"
  | Faults.FMissingAssoc -> "missing_association" | Faults.FSigVar -> "signal_variable"
let site_str (s : Faults.fsite) = match s with
  | Faults.SZap n -> Printf.sprintf "zap:%d" (int_of_n n)
  | Faults.SDup n -> Printf.sprintf "dup:%d" (int_of_n n)
  | Faults.SRoot (n, _) -> Printf.sprintf "root:%d" (int_of_n n)
  | Faults.SArg (n, k, _) -> Printf.sprintf "arg:%d:%d" (int_of_n n) (int_of_nat k)
  | Faults.SDrop (n, port, x) -> Printf.sprintf "drop:%d:%s:%d" (int_of_n n) (if port then "port" else "generic") (int_of_n x)
  | Faults.SFlip n -> Printf.sprintf "flip:%d" (int_of_n n)
  | Faults.SStmt (n, Syntax.SCall (_, Syntax.ANil), _) -> Printf.sprintf "stmt:%d:call_without_actuals" (int_of_n n)
  | Faults.SStmt (n, Syntax.SCall (_, _), _) -> Printf.sprintf "stmt:%d:other_callee" (int_of_n n)
  | Faults.SStmt (n, _, k) -> Printf.sprintf "stmt:%d:case_choice:%d" (int_of_n n) (int_of_n k)
  | Faults.SRootAt (n, _, c) -> Printf.sprintf "aggregate_element:%d:%d" (int_of_n n) (int_of_n (Sem.head_nid c))

let coq_expr (e : Syntax.expr) : string = match e with
  | Syntax.EInt (i, v) -> Printf.sprintf "(EInt %d %d)" (int_of_n i) (int_of_n v)
  | Syntax.EBit (i, b) -> Printf.sprintf "(EBit %d %b)" (int_of_n i) b
  | Syntax.ENam (Syntax.NId o) -> Printf.sprintf "(ENam (NId (Occ %d %d)))" (int_of_n o.Syntax.o_nid) (int_of_n o.Syntax.o_id)
  | _ -> "?"
let site_coq (s : Faults.fsite) = match s with
  | Faults.SZap n -> Printf.sprintf "SZap %d" (int_of_n n)
  | Faults.SDup n -> Printf.sprintf "SDup %d" (int_of_n n)
  | Faults.SRoot (n, e) -> Printf.sprintf "SRoot %d %s" (int_of_n n) (coq_expr e)
  | Faults.SArg (n, k, e) -> Printf.sprintf "SArg %d %d%%nat %s" (int_of_n n) (int_of_nat k) (coq_expr e)
  | Faults.SDrop (n, port, x) -> Printf.sprintf "SDrop %d %b %d" (int_of_n n) port (int_of_n x)
  | Faults.SFlip n -> Printf.sprintf "SFlip %d" (int_of_n n)
  | Faults.SStmt (_, _, _) -> "?"
  | Faults.SRootAt (_, _, _) -> "?"

let rewrite_str (r : Rewrites.rewrite) = match r with
  | Rewrites.RSwap s -> Printf.sprintf "swap:%d" (int_of_n s)
  | Rewrites.RNamed s -> Printf.sprintf "named:%d" (int_of_n s)
  | Rewrites.RPositional s -> Printf.sprintf "positional:%d" (int_of_n s)
  | Rewrites.RSelected (s, x) -> Printf.sprintf "selected:%d:%d" (int_of_n s) (int_of_n x)
  | Rewrites.RUseItems s -> Printf.sprintf "useitems:%d" (int_of_n s)
  | Rewrites.RWrap (s, l) -> Printf.sprintf "wrap:%d:%d" (int_of_n s) (int_of_n l)
  | Rewrites.RAddDecl (s, x, k) -> Printf.sprintf "adddecl:%d:%d:%d" (int_of_n s) (int_of_n x) (int_of_n k)
  | Rewrites.RAddLocal (s, x, k, y) -> Printf.sprintf "addlocal:%d:%d:%d:%d" (int_of_n s) (int_of_n x) (int_of_n k) (int_of_n y)

let fresh_ident (p : Syntax.program) : int =
  1 + Stdlib.List.fold_left (fun m x -> max m (int_of_n x)) 8 (Rewrites.idents_program p)

(* one random rewrite candidate *)
let assoc_phrase_ids (p : Syntax.program) : BinNums.coq_N list =
  Stdlib.List.filter_map (fun (i : Walk.pinfo) ->
    match i.Walk.pi_ph with
    | Walk.PStmt (Syntax.SCall (_, Syntax.ACons (_, _, _))) -> Some i.Walk.pi_id
    | Walk.PConc (Syntax.CInstE (_, _, _, _, _, _)) | Walk.PConc (Syntax.CInstC (_, _, _, _)) -> Some i.Walk.pi_id
    | ph -> (match Faults.phrase_root ph with Some (Syntax.ECall (_, _)) -> Some i.Walk.pi_id | _ -> None))
    (Walk.walk_program p)
let random_rewrite (p : Syntax.program) : Rewrites.rewrite option =
  let kind = rand 8 in
  let nn x = n_of_int x in
  match kind with
  | 0 -> (match pick (Faults.dup_sites p @ Rewrites.add_sites p) with Some s -> Some (Rewrites.RSwap s) | None -> None)
  | 1 -> (match pick (assoc_phrase_ids p) with Some s -> Some (Rewrites.RNamed s) | None -> None)
  | 2 -> (match pick (assoc_phrase_ids p) with Some s -> Some (Rewrites.RPositional s) | None -> None)
  | 3 | 7 ->
    let cands = Stdlib.List.filter (fun i -> Rewrites.use_occs_of_phrase i <> []) (Walk.walk_program p) in
    (match pick cands with
     | Some i -> (match pick (Rewrites.use_occs_of_phrase i) with
         | Some x -> Some (Rewrites.RSelected (i.Walk.pi_id, x)) | None -> None)
     | None -> None)
  | 4 -> (match pick (Rewrites.use_all_sites p) with Some s -> Some (Rewrites.RUseItems s) | None -> None)
  | 5 -> (match pick (Rewrites.conc_ids p) with Some s -> Some (Rewrites.RWrap (s, nn (fresh_ident p))) | None -> None)
  | _ -> (match pick (Rewrites.add_sites p) with Some s -> Some (Rewrites.RAddDecl (s, nn (fresh_ident p), nn (rand 4))) | None -> None)

(* nesting plan: concurrent statement s is wrapped into two nested blocks, then a declaration that overloads a
   designator of an enclosing region (an enumeration type re-using a literal, an integer type = implicit operators,
   a subprogram with an outer name and a profile of its own) is put into the INNER block; every step is an ordinary
   rewrite checked by `applicable` *)
let nest_plan (p : Syntax.program) : (Syntax.program * Rewrites.rewrite list) option =
  let nn x = n_of_int x in
  let concs = Stdlib.List.filter (fun (i : Walk.pinfo) -> match i.Walk.pi_ph with
      | Walk.PConc (Syntax.CBlock (_, _, _)) -> false | Walk.PConc _ -> true | _ -> false) (Walk.walk_program p) in
  match pick concs with
  | None -> None
  | Some i ->
    let s = i.Walk.pi_id in
    let r1 = Rewrites.RWrap (s, nn (fresh_ident p)) in
    if not (Rewrites.applicable r1 p) then None else
    let p1 = Rewrites.apply_rewrite r1 p in
    let r2 = Rewrites.RWrap (s, nn (fresh_ident p1)) in
    if not (Rewrites.applicable r2 p1) then None else
    let inner = BinNat.N.add (Walk.max_nid p1) (nn 1) in
    let p2 = Rewrites.apply_rewrite r2 p1 in
    let used = (match i.Walk.pi_ph with
        | Walk.PConc c -> Stdlib.List.map (fun ((_, _), x) -> int_of_n x) (Faults.oc_conc c) | _ -> []) in
    let lits = Stdlib.List.filter (fun x -> Stdlib.List.mem (int_of_n x) used) (Rewrites.lit_idents p2) in
    let subs = Stdlib.List.filter (fun x -> Stdlib.List.mem (int_of_n x) used) (Faults.sub_idents p2) in
    let cands =
      Stdlib.List.map (fun y -> (0, y)) lits @ Stdlib.List.map (fun y -> (2, y)) subs @
      Stdlib.List.map (fun y -> (3, y)) subs @ [(1, nn 0)] in
    let rec try_c k =
      if k = 0 then Some (p2, [r1; r2]) else
      match pick cands with
      | Some (kk, y) ->
        let r3 = Rewrites.RAddLocal (inner, nn (fresh_ident p2), nn kk, y) in
        if Rewrites.applicable r3 p2 then Some (Rewrites.apply_rewrite r3 p2, [r1; r2; r3]) else try_c (k - 1)
      | None -> Some (p2, [r1; r2]) in
    try_c 4

let rec rewrite_chain (p : Syntax.program) (depth : int) (tries : int) (acc : Rewrites.rewrite list) =
  if depth = 0 || tries = 0 then (p, Stdlib.List.rev acc)
  else match random_rewrite p with
    | Some r when Rewrites.applicable r p -> rewrite_chain (Rewrites.apply_rewrite r p) (depth - 1) (tries - 1) (r :: acc)
    | _ -> rewrite_chain p depth (tries - 1) acc

let fclass_of_name s = Stdlib.List.find_opt (fun f -> fclass_name f = s) Faults.all_fclasses

(* Fault sites.  For the syntactic classes the extracted `site_candidates` is used directly.  For the phrase classes the
   candidates of `Faults.site_candidates` are enumerated lazily here from the same extracted pieces (root_phrases /
   walk_program, lit_candidates, obj_candidates) and filtered with the extracted `eligible_at` on the phrase information
   of ONE walk of the program (the specification `eligible` walks the program again for every candidate). *)
type fctx = { prog : Syntax.program; walk : Walk.pinfo list; roots : Walk.pinfo list; lits : Syntax.expr list; objs : Syntax.expr list;
              subs : Syntax.expr list; aggs : Walk.pinfo list; opaggs : Walk.pinfo list; cases : Walk.pinfo list; m : BinNums.coq_N }
let make_fctx (p : Syntax.program) : fctx =
  let w = Walk.walk_program p in
  { prog = p; walk = w; subs = Faults.sub_candidates p;
    (* root expressions that contain an aggregate: itself, or as an operand of an operator *)
    aggs = Stdlib.List.filter (fun i -> match Faults.phrase_root i.Walk.pi_ph with
        | Some e -> Faults.agg_variants (Syntax.EInt (n_of_int 0, n_of_int 0)) e <> [] | None -> false) w;
    opaggs = Stdlib.List.filter (fun i -> match Faults.phrase_root i.Walk.pi_ph with
        | Some (Syntax.EAgg (_, _)) -> false
        | Some e -> Faults.agg_variants (Syntax.EInt (n_of_int 0, n_of_int 0)) e <> [] | None -> false) w;
    cases = Stdlib.List.filter (fun i -> match i.Walk.pi_ph with Walk.PStmt (Syntax.SCase (_, _, _, _)) -> true | _ -> false) w;
    (* value roots: without the conditions of if / while (Faults.value_root_phrases) *)
    roots = Stdlib.List.filter (fun i -> (match Faults.phrase_root i.Walk.pi_ph with Some _ -> true | None -> false)
                                         && not (Faults.is_condition i)) w;
    lits = Faults.lit_candidates p; objs = Faults.obj_candidates p; m = Walk.max_nid p }
let rec args_len = function Syntax.ANil -> 0 | Syntax.ACons (_, _, r) -> 1 + args_len r
let phrase_candidate (c : fctx) (f : Faults.fclass) : (Faults.fsite * Walk.pinfo) option =
  match f with
  | Faults.FWrongLiteral when rand 4 = 0 && c.cases <> [] ->
    (* an enumeration literal (of another type) as a case choice *)
    (match pick c.cases with
     | Some i -> (match pick (Faults.choice_candidates (Faults.fresh_nid c.prog) (Faults.lit_ids c.prog) i) with
         | Some st -> Some (st, i) | None -> None)
     | None -> None)
  | Faults.FWrongObject when rand 4 = 0 && c.cases <> [] ->
    (match pick c.cases with
     | Some i -> (match pick (Faults.choice_candidates (Faults.fresh_nid c.prog) (Faults.obj_idents c.prog) i) with
         | Some st -> Some (st, i) | None -> None)
     | None -> None)
  | Faults.FWrongLiteral when rand 3 = 0 && c.opaggs <> [] ->
    (* inside an aggregate that is an operand of an operator *)
    (match pick c.opaggs with
     | Some i -> (match pick (Faults.agg_candidates c.lits i) with Some st -> Some (st, i) | None -> None)
     | None -> None)
  | Faults.FWrongObject when rand 3 = 0 && c.opaggs <> [] ->
    (match pick c.opaggs with
     | Some i -> (match pick (Faults.agg_candidates c.objs i) with Some st -> Some (st, i) | None -> None)
     | None -> None)
  | Faults.FWrongLiteral when rand 2 = 0 && c.aggs <> [] ->
    (* one element of an aggregate, at any depth *)
    (match pick c.aggs with
     | Some i -> (match pick (Faults.agg_candidates c.lits i) with Some st -> Some (st, i) | None -> None)
     | None -> None)
  | Faults.FWrongObject when rand 2 = 0 && c.aggs <> [] ->
    (match pick c.aggs with
     | Some i -> (match pick (Faults.agg_candidates c.objs i) with Some st -> Some (st, i) | None -> None)
     | None -> None)
  | Faults.FWrongLiteral ->
    (match pick c.roots, pick c.lits with Some i, Some e -> Some (Faults.SRoot (i.Walk.pi_id, e), i) | _ -> None)
  | Faults.FWrongObject ->
    (match pick c.roots, pick c.objs with Some i, Some e -> Some (Faults.SRoot (i.Walk.pi_id, e), i) | _ -> None)
  | Faults.FNoOverload when rand 3 = 0 ->
    (* the name of a subprogram where a value is expected *)
    (match pick c.roots, pick c.subs with Some i, Some e -> Some (Faults.SRoot (i.Walk.pi_id, e), i) | _ -> None)
  | Faults.FNoOverload when rand 2 = 0 ->
    (* a procedure call without actuals / with another callee *)
    let pcalls = Stdlib.List.filter (fun i -> match i.Walk.pi_ph with Walk.PStmt (Syntax.SCall (_, _)) -> true | _ -> false) c.walk in
    (match pick pcalls with
     | Some i -> (match pick (Faults.call_candidates c.prog i) with Some st -> Some (st, i) | None -> None)
     | None -> None)
  | Faults.FNoOverload ->
    let calls = Stdlib.List.filter (fun i -> match Faults.phrase_root i.Walk.pi_ph with Some (Syntax.ECall (_, _)) -> true | _ -> false) c.roots in
    (match pick calls, pick (c.lits @ c.objs) with
     | Some i, Some e ->
       (match Faults.phrase_root i.Walk.pi_ph with
        | Some (Syntax.ECall (_, a)) -> Some (Faults.SArg (i.Walk.pi_id, nat_of_int (rand (args_len a)), e), i)
        | _ -> None)
     | _ -> None)
  | Faults.FMissingAssoc ->
    let insts = Stdlib.List.filter (fun i -> match i.Walk.pi_ph with
        | Walk.PConc (Syntax.CInstE (_, _, _, _, _, _)) | Walk.PConc (Syntax.CInstC (_, _, _, _)) -> true | _ -> false) c.walk in
    (match pick insts with
     | Some i ->
       let (gm, pm) = (match i.Walk.pi_ph with
           | Walk.PConc (Syntax.CInstE (_, _, _, _, gm, pm)) | Walk.PConc (Syntax.CInstC (_, _, gm, pm)) -> (gm, pm)
           | _ -> ([], [])) in
       let cands = Stdlib.List.map (fun x -> Faults.SDrop (i.Walk.pi_id, false, x)) (Faults.amap_formals gm)
                 @ Stdlib.List.map (fun x -> Faults.SDrop (i.Walk.pi_id, true, x)) (Faults.amap_formals pm) in
       (match pick cands with Some st -> Some (st, i) | None -> None)
     | None -> None)
  | Faults.FSigVar ->
    let asg = Stdlib.List.filter (fun i -> match i.Walk.pi_ph with
        | Walk.PStmt (Syntax.SSig (_, _, _)) | Walk.PStmt (Syntax.SVar (_, _, _)) -> true | _ -> false) c.walk in
    (match pick asg with Some i -> Some (Faults.SFlip i.Walk.pi_id, i) | None -> None)
  | _ -> None
let is_phrase_class (f : Faults.fclass) = match f with
  | Faults.FWrongLiteral | Faults.FWrongObject | Faults.FNoOverload | Faults.FMissingAssoc | Faults.FSigVar -> true
  | _ -> false

let random_fault (p : Syntax.program) (c : fctx) (want : Faults.fclass option) : (Faults.fclass * Faults.fsite) option =
  let rec go tries =
    if tries = 0 then None else
    let f = match want with Some f -> f | None -> (match pick Faults.all_fclasses with Some f -> f | None -> Faults.FUndeclared) in
    if is_phrase_class f then
      (match phrase_candidate c f with
       | Some (st, i) when Faults.eligible_at f st c.m i -> Some (f, st)
       | _ -> go (tries - 1))
    else
      (match pick (Faults.site_candidates f p) with
       | Some st -> Some (f, st)
       | None -> go (tries - 1)) in
  go 40

(* syntactic position of a plant site (for the table of known findings): the kind of a zapped occurrence, refined by
   the kind of design unit it is in *)
let okind_name (k : Faults.okind) = match k with
  | Faults.OUse -> "use" | Faults.OLibPrefix -> "library_prefix" | Faults.OField -> "field" | Faults.OItem -> "item"
  | Faults.OLibClause -> "library_clause" | Faults.OUnit -> "unit" | Faults.OArch -> "architecture"
  | Faults.OFormal -> "formal" | Faults.OOther -> "other"
let unit_kind_of_nid (p : Syntax.program) (nid : int) : string =
  let res = ref "?" in
  Stdlib.List.iter (fun (lb : Syntax.library) ->
    Stdlib.List.iter (fun (u : Syntax.dunit) ->
      if Stdlib.List.exists (fun x -> int_of_n x = nid) (Syntax.nids_dunit u) then
        res := (match u.Syntax.u_body with
            | Syntax.UPkg (_, _) -> "package" | Syntax.UBody (_, _) -> "package_body" | Syntax.UEnt (_, _, _) -> "entity"
            | Syntax.UArch (_, _, _, _) -> "architecture" | Syntax.UCfg (_, _, _) -> "configuration"
            | Syntax.UCtx (_, _) -> "context" | Syntax.UGen (_, _, _) -> "generic_package"
            | Syntax.UInst (_, _, _, _) -> "package_instance")) lb.Syntax.l_units) p;
  !res
let site_kind (p : Syntax.program) (st : Faults.fsite) : string =
  match st with
  | Faults.SZap s ->
    let k = (match Stdlib.List.find_opt (fun ((n, _), _) -> int_of_n n = int_of_n s) (Faults.occs_program p) with
        | Some ((_, k), _) -> okind_name k | None -> "?") in
    let u = unit_kind_of_nid p (int_of_n s) in
    if k = "architecture" && u = "configuration" then "block_config_architecture" else k ^ "_in_" ^ u
  | Faults.SDup s -> "declaration_in_" ^ unit_kind_of_nid p (int_of_n s)
  | _ -> "phrase_in_" ^ unit_kind_of_nid p (int_of_n (Faults.site_nid st))

let handle_case pid tag nrew depth nfaults rseed fwant choices =
  rng := rseed * 7919 + 13;
  let fell = Gen.gen_fell_back choices in
  let p = Gen.gen_program choices in
  let base = pid ^ ".b" in
  Printf.printf "M %s fellback %b\n" base fell;
  Printf.printf "M %s nodup_nids %b\n" base (Walk.nodup_nids p);
  emit_program base (tag * 64) p [];
  for k = 1 to nrew do
    let (q, rs) =
      (* every second variant starts with the nesting plan *)
      if k mod 2 = 0 then
        (match nest_plan p with
         | Some (q, rs) -> let (q', rs') = rewrite_chain q 1 8 [] in (q', rs @ rs')
         | None -> rewrite_chain p depth (depth * 16) [])
      else rewrite_chain p depth (depth * 16) [] in
    if rs <> [] then begin
      let id = Printf.sprintf "%s.r%d" pid k in
      Printf.printf "M %s rewrites %s\n" id (Stdlib.String.concat "," (Stdlib.List.map rewrite_str rs));
      Printf.printf "M %s valid %b\n" id (Sem.valid_b q);
      emit_program id (tag * 64 + k) q []
    end
  done;
  let fc = if nfaults > 0 then Some (make_fctx p) else None in
  for k = 1 to nfaults do
    match (match fc with Some c -> random_fault p c fwant | None -> None) with
    | Some (f, st) ->
      let q = Faults.plant st p in
      let id = Printf.sprintf "%s.f%d" pid k in
      let (en, ec) = Faults.expect f st p in
      Printf.printf "M %s fault %s %s\n" id (fclass_name f) (site_str st);
      Printf.printf "M %s site_kind %s\n" id (site_kind p st);
      Printf.printf "M %s site_coq %s\n" id (site_coq st);
      Printf.printf "M %s expect %d %s\n" id (int_of_n en) (cls_name ec);
      (match Sem.blame_program q with
       | Some (bn, bc) -> Printf.printf "M %s blame %d %s\n" id (int_of_n bn) (cls_name bc)
       | None -> Printf.printf "M %s blame none none\n" id);
      Printf.printf "M %s faulty_file %s\n" id (file_of_nid (tag * 64 + 32 + k) q (int_of_n en));
      emit_program ~units_of:p id (tag * 64 + 32 + k) q [int_of_n en]
    | None -> ()
  done

let () =
  iter_lines (fun ln ->
    match split_on '|' ln with
    | [hd; cs] ->
      (match Stdlib.List.filter (fun x -> x <> "") (split_on ' ' hd) with
       | ["case"; pid; tag; nrew; depth; nfaults; rseed; fwant] ->
         let choices = Stdlib.List.map (fun c -> n_of_int (int_of_string c)) (Stdlib.List.filter (fun x -> x <> "") (split_on ' ' cs)) in
         handle_case pid (int_of_string tag) (int_of_string nrew) (int_of_string depth) (int_of_string nfaults)
           (int_of_string rseed) (fclass_of_name fwant) choices
       | _ -> print_endline "BADREQ")
    | _ -> print_endline "BADREQ")
