(* C05/C06 runner (extracted generator + printer).  stdin: one request per line
     gen <pid> <tag> <c1> <c2> ...          print the generated program
   stdout: bundle for harness/src/bin/c05.rs (P/F lines) interleaved with
     M <pid> <key> <value>                   facts about the program (fellback, ...)
     S <pid> <nid> <file> <line> <col> <len> site table of every tagged token *)
open Util
let char_of_ascii (a : Ascii.ascii) : char =
  match a with
  | Ascii.Ascii (b0, b1, b2, b3, b4, b5, b6, b7) ->
    let v b k = if b then 1 lsl k else 0 in
    Char.chr (v b0 0 + v b1 1 + v b2 2 + v b3 3 + v b4 4 + v b5 5 + v b6 6 + v b7 7)
let string_of_coq (s : String.string) : Stdlib.String.t =
  let b = Buffer.create 64 in
  let rec go = function
    | String.EmptyString -> ()
    | String.String (c, r) -> Buffer.add_char b (char_of_ascii c); go r in
  go s; Buffer.contents b

let emit_program pid tag (p : Syntax.program) =
  Printf.printf "P %s\n" pid;
  let files = Print.print_program (n_of_int tag) p in
  Stdlib.List.iter (fun ((lib, file), toks) ->
    let (text, sites) = Print.layout toks in
    let text = string_of_coq text in
    let lines = Stdlib.String.split_on_char '\n' text in
    let lines = match Stdlib.List.rev lines with "" :: r -> Stdlib.List.rev r | _ -> lines in
    Printf.printf "F %s %s %d\n" (string_of_coq lib) (string_of_coq file) (Stdlib.List.length lines);
    Stdlib.List.iter (fun l -> print_string l; print_char '\n') lines;
    Stdlib.List.iter (fun (nid, ((line, col), len)) ->
      Printf.printf "S %s %d %s %d %d %d\n" pid (int_of_n nid) (string_of_coq file) (int_of_n line) (int_of_n col) (int_of_n len)) sites
  ) files

let () =
  iter_lines (fun ln ->
    match Stdlib.List.filter (fun x -> x <> "") (split_on ' ' ln) with
    | "gen" :: pid :: tag :: cs ->
      let choices = Stdlib.List.map (fun c -> n_of_int (int_of_string c)) cs in
      let fell = Gen.gen_fell_back choices in
      let p = Gen.gen_program choices in
      Printf.printf "M %s fellback %b\n" pid fell;
      emit_program pid (int_of_string tag) p
    | _ -> print_endline "BADREQ")
