#!/usr/bin/env python3
"""Regenerates MANIFEST.json from checks/registry.json (single place where claims are recorded)."""
import json, os
here = os.path.dirname(os.path.abspath(__file__))
reg = json.load(open(os.path.join(here, "checks", "registry.json")))
props = [json.loads(l)["id"] for l in open(os.path.join(here, "properties.jsonl"))]
checks = []
na = []
for p in props:
    r = reg["checks"].get(p)
    if r and r.get("claimed"):
        checks.append({
            "property_id": p,
            "quick_cmd": "./check %s --tier quick" % p,
            "thorough_cmd": "./check %s --tier thorough" % p,
            "evidence_file": "/verif/evidence/%s.json" % p,
            "replay_cmd_template": "./check %s --replay {path}" % p,
            "engine": "coq-proof+correspondence",
            "level_claimed": {"category": r["category"], "text": r["text"], "design_ref": r.get("design_ref", "DESIGN.md section 4 (%s)" % p)},
            "level_note": r["note"],
            "technique": r["technique"],
        })
    else:
        na.append({"property_id": p, "reason": (r or {}).get("reason", "no check built yet in this round; see DESIGN.md section 4 for the planned model, theorems and correspondence")})
m = {
    "version": 1,
    "setup_cmd": "cd /verif && ./check --setup",
    "hooks": {
        "guard": "--cfg vhdl_ls_rust_hdl_verif",
        "enable": "RUSTFLAGS=\"--cfg vhdl_ls_rust_hdl_verif\" cargo build --release --offline (path dependencies on /repo/vhdl_lang, /repo/vhdl_syntax; vhdl_ls built in /repo with the same flag)",
        "baseline_off_cmd": "cd /repo && cargo test --workspace --no-fail-fast --offline",
        "source_commits": reg["hook_commits"],
        "add_only": True,
    },
    "engines": [{
        "name": "coq-proof+correspondence",
        "path": "/verif/coq, /verif/ocaml, /verif/harness, /verif/check",
        "serves_properties": [c["property_id"] for c in checks],
        "kind_free_text": "Coq 8.16.1 theorems over hand-written executable Gallina models (coq/), extracted to OCaml (ocaml/) and compared on every run with the implementation built from /repo's working tree by a Rust harness (harness/); python driver ./check",
    }],
    "checks": checks,
    "notes": reg.get("notes", ""),
    "not_applicable": na,
}
json.dump(m, open(os.path.join(here, "MANIFEST.json"), "w"), indent=1)
print("claimed:", [c["property_id"] for c in checks])
