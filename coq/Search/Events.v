(* Search/Events.v — traversal events of `vhdl_lang/src/ast/search.rs` and the entity relations
   of `vhdl_lang/src/named_entity.rs` that the searchers consult.  Definitions only.

   The 1 600 lines of `impl Search for ...` are not modelled.  What is modelled is the protocol
   between a traversal and a `Searcher`: a traversal is a sequence of calls

     searcher.search_pos_with_ref(ctx, pos, reference)      ~  Ref pos target guarded
     searcher.search_decl(ctx, FoundDeclaration)            ~  Decl ent decl_pos end_ident_pos kind
     searcher.search_with_pos(ctx, pos)                     ~  WithPos span guarded

   and every call may be answered `NotFinished`, `Finished(NotFound)` or `Finished(Found)`.
   `Finished(Found)` ends the whole traversal (`return_if_found!` at every level).  What
   `Finished(NotFound)` does depends on the call site:
     * `return_if_finished!(searcher.search_with_pos(..))` leaves the current `search` function:
       the rest of that function — the `guarded` list — is skipped, the caller continues;
     * `searcher.search_xxx(..).or_not_found()` continues with the next statement: `guarded = []`.
   One `search_pos_with_ref` site (user attribute names in `search_pos_name`) uses
   `return_if_finished!`, so `Ref` carries a guarded list as well; the extraction through the public
   `Searcher` API finds the guarded lists by answering `Finished(NotFound)` at each call in turn.
   `Group` is a plain grouping node (a design unit body, a declarative part); no call. *)
From Coq Require Import List NArith Bool.
Import ListNotations.
Open Scope N_scope.

(* ---- data/source.rs: Position (derive(Ord): lexicographic on line, character), Range, SrcPos ---- *)
Record position := mkPos { line : N; chr : N }.

Definition pos_eqb (a b : position) : bool := (line a =? line b) && (chr a =? chr b).
Definition pos_leb (a b : position) : bool :=
  (line a <? line b) || ((line a =? line b) && (chr a <=? chr b)).
Definition pos_ltb (a b : position) : bool :=
  (line a <? line b) || ((line a =? line b) && (chr a <? chr b)).

(* SrcPos = source file (its identity is the file id) + range *)
Record srcpos := mkSrcPos { sp_file : N; sp_start : position; sp_end : position }.

Definition range_eqb (a b : srcpos) : bool :=
  pos_eqb (sp_start a) (sp_start b) && pos_eqb (sp_end a) (sp_end b).
Definition srcpos_eqb (a b : srcpos) : bool := (sp_file a =? sp_file b) && range_eqb a b.

(* ---- named_entity.rs: AnyEnt { id, related, .. }, enum Related ---- *)
Inductive ent : Type :=
| Ent (id : N) (rel : related)
with related : Type :=
| RelNone
| ImplicitOf (e : ent)
| InstanceOf (e : ent)
| DeclaredBy (e : ent)
| DerivedFrom (e : ent).

Definition ent_id (e : ent) : N := match e with Ent i _ => i end.
Definition ent_related (e : ent) : related := match e with Ent _ r => r end.

(* fn declaration(&self): one step along DeclaredBy, not a chain *)
Definition declaration (e : ent) : ent :=
  match ent_related e with
  | DeclaredBy other => other
  | _ => e
  end.

(* fn is_declared_by(&self, other) *)
Definition is_declared_by (e other : ent) : bool :=
  match ent_related e with
  | DeclaredBy x => ent_id x =? ent_id other
  | _ => false
  end.

(* fn is_instance_of(&self, other) *)
Definition is_instance_of (e other : ent) : bool :=
  match ent_related e with
  | InstanceOf x => ent_id x =? ent_id other
  | _ => false
  end.

(* search.rs: pub fn is_reference(ent, other).  Since the `fix:` commit 28f6f63 the instance test is taken
   modulo `declaration()`: an instance (InstanceOf decl) is also related to what is DeclaredBy decl
   (subprogram body, full declaration of a deferred constant). *)
Definition is_reference (e other : ent) : bool :=
  if ent_id e =? ent_id other then true
  else if is_instance_of e (declaration other) || is_instance_of other (declaration e) then true
  else if is_declared_by e other || is_declared_by other e then true
  else false.

(* the code before 28f6f63: references through a package instance missed the body side *)
Definition is_reference_old (e other : ent) : bool :=
  if ent_id e =? ent_id other then true
  else if is_instance_of e other || is_instance_of other e then true
  else if is_declared_by e other || is_declared_by other e then true
  else false.

(* `is_reference` with the DeclaredBy test dropped: a seeded defect, kept for a refutation *)
Definition is_reference_no_declared_by (e other : ent) : bool :=
  if ent_id e =? ent_id other then true
  else if is_instance_of e (declaration other) || is_instance_of other (declaration e) then true
  else false.

(* Two entity records that no function of this development can tell apart: same id, same kind of
   relation, same id of the related entity (all functions above look one step deep). *)
Definition related_same (a b : related) : bool :=
  match a, b with
  | RelNone, RelNone => true
  | ImplicitOf x, ImplicitOf y => ent_id x =? ent_id y
  | InstanceOf x, InstanceOf y => ent_id x =? ent_id y
  | DeclaredBy x, DeclaredBy y => ent_id x =? ent_id y
  | DerivedFrom x, DerivedFrom y => ent_id x =? ent_id y
  | _, _ => false
  end.
Definition ent_same (a b : ent) : bool :=
  (ent_id a =? ent_id b) && related_same (ent_related a) (ent_related b).

(* ---- traversal events ---- *)
Inductive ev : Type :=
| Ref (p : srcpos) (target : option ent) (guarded : list ev)
| Decl (e : option ent) (decl_pos : option srcpos) (end_pos : option srcpos) (kind : N)
| WithPos (span : srcpos) (guarded : list ev)
| Group (l : list ev).

(* One design unit: the file its tokens come from and its events in traversal order.
   A forest lists the units in the order of `DesignRoot::search`. *)
Definition unit_evs := (N * list ev)%type.
Definition forest := list unit_evs.

(* ---- positions an event reports for a resolved entity (the "leaves") ---- *)
Definition opt_leaf (p : option srcpos) (e : ent) : list (srcpos * ent) :=
  match p with Some q => [(q, e)] | None => [] end.

Fixpoint leaves_ev (e : ev) : list (srcpos * ent) :=
  match e with
  | Ref p t g =>
      (match t with Some x => [(p, x)] | None => [] end) ++ flat_map leaves_ev g
  | Decl None _ _ _ => []
  | Decl (Some x) dp ep _ => opt_leaf dp x ++ opt_leaf ep x
  | WithPos _ g => flat_map leaves_ev g
  | Group l => flat_map leaves_ev l
  end.
Definition leaves (l : list ev) : list (srcpos * ent) := flat_map leaves_ev l.

Definition all_leaves (f : forest) : list (srcpos * ent) := flat_map (fun u => leaves (snd u)) f.
Definition leaves_of_file (f : forest) (file : N) : list (srcpos * ent) :=
  flat_map (fun u => if fst u =? file then leaves (snd u) else []) f.
