(* Search/Searchers.v — the `Searcher` protocol as a fold over event trees, and the searchers of
   `vhdl_lang/src/ast/search.rs` written as in Rust, early exits included.  Definitions only.

     ItemAtCursor        (Project::item_at_cursor, find_declaration, find_definition, hover, ...)
     FindAllReferences   (Project::find_all_references)
     FindAllEnt, FindEnt (document symbols, find_definition_of)
     SemanticTokenCollector (Project::find_all_entity_references)

   and the drivers of `analysis/root.rs`: `DesignRoot::search` (all units, stops at Found),
   `search_source` (the units of one file), `item_at_cursor` (units of one file, stops at the first
   unit that produced a result), `find_all_references`, `find_definition_of`. *)
From Coq Require Import List NArith Bool.
Import ListNotations.
From RH Require Import Search.Events.
Open Scope N_scope.

(* enum SearchState { Finished(SearchResult), NotFinished };  Finished true = Finished(Found) *)
Inductive search_state := Finished (found : bool) | NotFinished.

Section Fold.
  Variable S : Type.

  (* trait Searcher: the three callbacks; each may update the searcher (&mut self) *)
  Record searcher := mkSearcher {
    on_ref : S -> srcpos -> option ent -> S * search_state;
    on_decl : S -> option ent -> option srcpos -> option srcpos -> N -> S * search_state;
    on_with : S -> srcpos -> S * search_state
  }.

  Variable sr : searcher.

  (* `for x in list { return_if_found!(x.search(..)) }`; result true = Found *)
  Definition search_seq (f : ev -> S -> S * bool) : list ev -> S -> S * bool :=
    fix go (l : list ev) (s : S) : S * bool :=
      match l with
      | [] => (s, false)
      | x :: r => let '(s1, found) := f x s in if found then (s1, true) else go r s1
      end.

  Fixpoint search_ev (e : ev) (s : S) {struct e} : S * bool :=
    match e with
    | Ref p t g =>
        let '(s1, st) := on_ref sr s p t in
        match st with
        | Finished r => (s1, r)          (* Found: stop everything.  NotFound: `return_if_finished!`
                                            leaves the function (skips g); `.or_not_found()` sites have g = [] *)
        | NotFinished => search_seq search_ev g s1
        end
    | Decl e dp ep k =>
        let '(s1, st) := on_decl sr s e dp ep k in
        match st with
        | Finished r => (s1, r)          (* always used as `.or_not_found()` *)
        | NotFinished => (s1, false)
        end
    | WithPos sp g =>
        let '(s1, st) := on_with sr s sp in
        match st with
        | Finished r => (s1, r)
        | NotFinished => search_seq search_ev g s1
        end
    | Group l => search_seq search_ev l s
    end.

  Definition search_list : list ev -> S -> S * bool := search_seq search_ev.

  (* DesignRoot::search: every unit of every library, `return_if_found!` after each unit *)
  Fixpoint search_root (f : forest) (s : S) : S * bool :=
    match f with
    | [] => (s, false)
    | u :: r => let '(s1, found) := search_list (snd u) s in
                if found then (s1, true) else search_root r s1
    end.

  (* DesignRoot::search_source: the units of one source file *)
  Fixpoint search_source (f : forest) (file : N) (s : S) : S * bool :=
    match f with
    | [] => (s, false)
    | u :: r =>
        if fst u =? file then
          let '(s1, found) := search_list (snd u) s in
          if found then (s1, true) else search_source r file s1
        else search_source r file s
    end.
End Fold.

Arguments mkSearcher {S}.
Arguments on_ref {S}.
Arguments on_decl {S}.
Arguments on_with {S}.
Arguments search_seq {S}.
Arguments search_ev {S}.
Arguments search_list {S}.
Arguments search_root {S}.
Arguments search_source {S}.

(* ---------------- ItemAtCursor ---------------- *)
(* fn is_inside: pos.start() <= cursor && cursor <= pos.end()  (the file of `pos` is not looked at) *)
Definition inside (c : position) (p : srcpos) : bool :=
  pos_leb (sp_start p) c && pos_leb c (sp_end p).
Definition strictly_inside (c : position) (p : srcpos) : bool :=
  pos_ltb (sp_start p) c && pos_ltb c (sp_end p).

Definition iac_state := option (srcpos * ent).      (* field `result` *)

(* fn search_decl_pos *)
Definition iac_decl_pos (c : position) (s : iac_state) (p : srcpos) (e : ent) : iac_state * search_state :=
  if inside c p then (Some (p, e), Finished true) else (s, NotFinished).

Definition item_at_cursor_searcher (c : position) : searcher iac_state :=
  mkSearcher
    (* search_pos_with_ref *)
    (fun s p t =>
       if inside c p then
         match t with
         | Some e => (Some (p, e), Finished true)
         | None => (s, Finished false)
         end
       else (s, NotFinished))
    (* search_decl *)
    (fun s e dp ep _ =>
       match e with
       | Some x =>
           let '(s1, st) := match dp with
                            | Some p => iac_decl_pos c s p x
                            | None => (s, NotFinished)
                            end in
           match st with
           | Finished r => (s1, Finished r)
           | NotFinished =>
               match ep with
               | Some p => iac_decl_pos c s1 p x
               | None => (s1, NotFinished)
               end
           end
       | None => (s, NotFinished)
       end)
    (* search_with_pos *)
    (fun s p => if inside c p then (s, NotFinished) else (s, Finished false)).

(* DesignRoot::item_at_cursor(source, cursor): one searcher over the units of `source`; after each
   unit `if searcher.result.is_some() { return searcher.result }` *)
Fixpoint iac_units (c : position) (f : forest) (file : N) (s : iac_state) : iac_state :=
  match f with
  | [] => None
  | u :: r =>
      if fst u =? file then
        let s1 := fst (search_list (item_at_cursor_searcher c) (snd u) s) in
        match s1 with
        | Some _ => s1
        | None => iac_units c r file s1
        end
      else iac_units c r file s
  end.
Definition item_at_cursor (f : forest) (file : N) (c : position) : option (srcpos * ent) :=
  iac_units c f file None.

(* ---------------- FindAllReferences ---------------- *)
(* `references` in push order; the model keeps the list reversed while folding *)
Definition find_all_references_searcher (isref : ent -> ent -> bool) (e : ent) : searcher (list srcpos) :=
  mkSearcher
    (fun acc p t =>
       match t with
       | Some other => if isref e other then (p :: acc, NotFinished) else (acc, NotFinished)
       | None => (acc, NotFinished)
       end)
    (fun acc d dp ep _ =>
       match d with
       | Some other =>
           if isref e other then
             let acc1 := match dp with Some p => p :: acc | None => acc end in
             let acc2 := match ep with Some p => p :: acc1 | None => acc1 end in
             (acc2, NotFinished)
           else (acc, NotFinished)
       | None => (acc, NotFinished)
       end)
    (fun acc _ => (acc, NotFinished)).

(* DesignRoot::find_all_references(ent) *)
Definition find_all_references_with (isref : ent -> ent -> bool) (f : forest) (e : ent) : list srcpos :=
  rev (fst (search_root (find_all_references_searcher isref e) f [])).
Definition find_all_references : forest -> ent -> list srcpos := find_all_references_with is_reference.

(* ---------------- FindAllEnt / FindEnt ---------------- *)
Definition find_all_ent_searcher (cond : ent -> bool) : searcher (list ent) :=
  mkSearcher
    (fun acc _ _ => (acc, NotFinished))
    (fun acc d _ _ _ =>
       match d with
       | Some x => if cond x then (x :: acc, NotFinished) else (acc, NotFinished)
       | None => (acc, NotFinished)
       end)
    (fun acc _ => (acc, NotFinished)).
Definition find_all_ent (cond : ent -> bool) (l : list ev) : list ent :=
  rev (fst (search_list (find_all_ent_searcher cond) l [])).

Definition find_ent_searcher (cond : ent -> bool) : searcher (option ent) :=
  mkSearcher
    (fun s _ _ => (s, NotFinished))
    (fun s d _ _ _ =>
       match d with
       | Some x => if cond x then (Some x, Finished true) else (s, NotFinished)
       | None => (s, NotFinished)
       end)
    (fun s _ => (s, NotFinished)).

(* DesignRoot::find_definition_of for the kinds that have a separate definition (protected type,
   subprogram declaration, deferred constant): the first declared entity that is DeclaredBy `decl`,
   else `decl` itself.  (For the other kinds the definition is the declaration.) *)
Definition find_definition_of (f : forest) (decl : ent) : ent :=
  match fst (search_root (find_ent_searcher (fun x => is_declared_by x decl)) f None) with
  | Some x => x
  | None => decl
  end.

(* ---------------- SemanticTokenCollector ---------------- *)
Definition semantic_token_searcher (file : N) : searcher (list (srcpos * ent)) :=
  mkSearcher
    (fun acc p t => match t with Some x => ((p, x) :: acc, NotFinished) | None => (acc, NotFinished) end)
    (fun acc d dp _ _ =>
       match d, dp with
       | Some x, Some p => if sp_file p =? file then ((p, x) :: acc, NotFinished) else (acc, NotFinished)
       | _, _ => (acc, NotFinished)
       end)
    (fun acc _ => (acc, NotFinished)).
Definition find_all_entity_references (f : forest) (file : N) : list (srcpos * ent) :=
  rev (fst (search_source (semantic_token_searcher file) f file [])).

(* ---------------- well-formedness of a forest (what the pruning relies on) ---------------- *)
(* range of q inside range of sp (files not compared: `is_inside` does not compare them either) *)
Definition contains (sp q : srcpos) : bool :=
  pos_leb (sp_start sp) (sp_start q) && pos_leb (sp_end q) (sp_end sp).
(* the open interiors do not meet *)
Definition interior_disjoint (a b : srcpos) : bool :=
  pos_leb (sp_end a) (sp_start b) || pos_leb (sp_end b) (sp_start a).

(* (G) every resolved position below a `search_with_pos(span)` lies inside the span; below an unresolved
   reference used with `return_if_finished!` no resolved position meets the reference's position *)
Fixpoint guards_ok (e : ev) : bool :=
  match e with
  | Ref p t g =>
      (match t with
       | Some _ => true
       | None => forallb (fun l => interior_disjoint p (fst l)) (flat_map leaves_ev g)
       end) && forallb guards_ok g
  | Decl _ _ _ _ => true
  | WithPos sp g => forallb (fun l => contains sp (fst l)) (flat_map leaves_ev g) && forallb guards_ok g
  | Group l => forallb guards_ok l
  end.

(* (F) a unit reports positions of its own file only *)
Definition unit_ok (u : unit_evs) : bool :=
  forallb guards_ok (snd u) && forallb (fun l => sp_file (fst l) =? fst u) (leaves (snd u)).

(* (D) two resolved positions of one file are disjoint, or the same range with the same target *)
Definition compat (a b : srcpos * ent) : bool :=
  negb (sp_file (fst a) =? sp_file (fst b))
  || interior_disjoint (fst a) (fst b)
  || (range_eqb (fst a) (fst b) && ent_same (snd a) (snd b)).

Fixpoint pairwise (A : Type) (r : A -> A -> bool) (l : list A) : bool :=
  match l with
  | [] => true
  | a :: t => forallb (r a) t && pairwise A r t
  end.
Arguments pairwise {A}.

Definition wf_forest (f : forest) : bool :=
  forallb unit_ok f && pairwise compat (all_leaves f).
