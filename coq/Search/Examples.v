(* Search/Examples.v — small closed forests used by the examples and counterexamples of Props/C08.v.
   Definitions only. *)
From Coq Require Import List NArith Bool.
Import ListNotations.
From RH Require Import Search.Events Search.Searchers.
Open Scope N_scope.

Definition ex_e1 : ent := Ent 1 RelNone.

Definition ex_p1 : srcpos := mkSrcPos 0 (mkPos 0 5) (mkPos 0 8).

Definition ex_narrow : forest :=
  [(0, [WithPos (mkSrcPos 0 (mkPos 0 0) (mkPos 0 1)) [Ref ex_p1 (Some ex_e1) []]])].

Definition ex_refguard : forest :=
  [(0, [Ref (mkSrcPos 0 (mkPos 0 4) (mkPos 0 9)) None [Ref ex_p1 (Some ex_e1) []]])].

Definition ex_e2 : ent := Ent 2 RelNone.

Definition ex_clash : forest := [(0, [Ref ex_p1 (Some ex_e2) []; Ref ex_p1 (Some ex_e1) []])].

Definition ex_decl : ent := Ent 10 RelNone.

Definition ex_body : ent := Ent 11 (DeclaredBy ex_decl).

Definition ex_pd : srcpos := mkSrcPos 0 (mkPos 1 11) (mkPos 1 14).

Definition ex_pb : srcpos := mkSrcPos 1 (mkPos 3 11) (mkPos 3 14).

Definition ex_pe : srcpos := mkSrcPos 1 (mkPos 6 15) (mkPos 6 18).

Definition ex_subprogram : forest :=
  [(0, [Decl (Some ex_decl) (Some ex_pd) None 14]);
   (1, [Decl (Some ex_body) (Some ex_pb) (Some ex_pe) 16;
        WithPos (mkSrcPos 1 (mkPos 5 4) (mkPos 5 20))
          [WithPos (mkSrcPos 1 (mkPos 5 11) (mkPos 5 14)) [Ref (mkSrcPos 1 (mkPos 5 11) (mkPos 5 14)) (Some ex_decl) []]]])].
