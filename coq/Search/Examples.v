(* Search/Examples.v — small closed forests used by the examples and counterexamples of Props/C08.v.
   Definitions only. *)
From Coq Require Import List NArith Bool.
Import ListNotations.
From RH Require Import Search.Events Search.Searchers.
Open Scope N_scope.

Definition ex_e1 : ent := Ent 1 RelNone.

Definition ex_p1 : srcpos := mkSrcPos 0 (mkPos 0 5) (mkPos 0 8).

Definition ex_narrow : forest :=
  [(0, [WithPos (mkSrcPos 0 (mkPos 0 0) (mkPos 0 1)) [Ref ex_p1 (Some ex_e1) []]])].

Definition ex_refguard : forest :=
  [(0, [Ref (mkSrcPos 0 (mkPos 0 4) (mkPos 0 9)) None [Ref ex_p1 (Some ex_e1) []]])].

Definition ex_e2 : ent := Ent 2 RelNone.

Definition ex_clash : forest := [(0, [Ref ex_p1 (Some ex_e2) []; Ref ex_p1 (Some ex_e1) []])].

Definition ex_decl : ent := Ent 10 RelNone.

Definition ex_body : ent := Ent 11 (DeclaredBy ex_decl).

Definition ex_pd : srcpos := mkSrcPos 0 (mkPos 1 11) (mkPos 1 14).

Definition ex_pb : srcpos := mkSrcPos 1 (mkPos 3 11) (mkPos 3 14).

Definition ex_pe : srcpos := mkSrcPos 1 (mkPos 6 15) (mkPos 6 18).

Definition ex_subprogram : forest :=
  [(0, [Decl (Some ex_decl) (Some ex_pd) None 14]);
   (1, [Decl (Some ex_body) (Some ex_pb) (Some ex_pe) 16;
        WithPos (mkSrcPos 1 (mkPos 5 4) (mkPos 5 20))
          [WithPos (mkSrcPos 1 (mkPos 5 11) (mkPos 5 14)) [Ref (mkSrcPos 1 (mkPos 5 11) (mkPos 5 14)) (Some ex_decl) []]]])].

(* generic package: function declaration D, body B (DeclaredBy D) with end designator and a use inside
   the body; a use through a package instance resolves to I (InstanceOf D) in another file *)
Definition ex_gd : ent := Ent 20 RelNone.
Definition ex_gb : ent := Ent 21 (DeclaredBy ex_gd).
Definition ex_gi : ent := Ent 22 (InstanceOf ex_gd).
Definition ex_g_pd : srcpos := mkSrcPos 0 (mkPos 2 11) (mkPos 2 15).
Definition ex_g_pb : srcpos := mkSrcPos 0 (mkPos 6 11) (mkPos 6 15).
Definition ex_g_pe : srcpos := mkSrcPos 0 (mkPos 9 15) (mkPos 9 19).
Definition ex_g_in : srcpos := mkSrcPos 0 (mkPos 8 11) (mkPos 8 15).
Definition ex_g_use : srcpos := mkSrcPos 1 (mkPos 4 30) (mkPos 4 34).
Definition ex_generic : forest :=
  [(0, [Decl (Some ex_gd) (Some ex_g_pd) None 14]);
   (0, [Decl (Some ex_gb) (Some ex_g_pb) (Some ex_g_pe) 16;
        WithPos (mkSrcPos 0 (mkPos 8 11) (mkPos 8 18)) [Ref ex_g_in (Some ex_gd) []]]);
   (1, [WithPos (mkSrcPos 1 (mkPos 4 25) (mkPos 4 37)) [Ref ex_g_use (Some ex_gi) []]])].
