(* Search/WfFast.v — an n·log n evaluation of the disjointness clause of `wf_forest`:
   sort the resolved positions by (file, start, end) with the standard library merge sort and compare
   neighbours only.  `SearchProofs.wf_forest_fast_sound` shows that it implies the quadratic
   definition `Searchers.wf_forest`; the run-time checker of C08 is this function.
   (The only proof in this file is the totality of the order the `Sort` functor asks for.) *)
From Coq Require Import List NArith Bool Orders Mergesort Lia.
Import ListNotations.
From RH Require Import Search.Events Search.Searchers.
Open Scope N_scope.

Definition leaf := (srcpos * ent)%type.

(* lexicographic on (file, start, end) *)
Definition leaf_leb (a b : leaf) : bool :=
  let p := fst a in
  let q := fst b in
  if sp_file p <? sp_file q then true
  else if sp_file q <? sp_file p then false
  else if pos_ltb (sp_start p) (sp_start q) then true
  else if pos_ltb (sp_start q) (sp_start p) then false
  else pos_leb (sp_end p) (sp_end q).

Module LeafOrder <: TotalLeBool.
  Definition t := leaf.
  Definition leb := leaf_leb.
  Theorem leb_total : forall a b, leb a b = true \/ leb b a = true.
  Proof.
    intros [p x] [q y]; unfold leb, leaf_leb, pos_ltb, pos_leb; cbn [fst].
    destruct (sp_file p <? sp_file q) eqn:F1; [now left|].
    destruct (sp_file q <? sp_file p) eqn:F2; [now right|].
    destruct (sp_start p) as [l1 c1], (sp_start q) as [l2 c2], (sp_end p) as [l3 c3], (sp_end q) as [l4 c4];
      cbn [line chr].
    destruct (l1 <? l2) eqn:A1, (l2 <? l1) eqn:A2, (l1 =? l2) eqn:A3, (l2 =? l1) eqn:A4,
             (c1 <? c2) eqn:B1, (c2 <? c1) eqn:B2,
             (l3 <? l4) eqn:C1, (l4 <? l3) eqn:C2, (l3 =? l4) eqn:C3, (l4 =? l3) eqn:C4,
             (c3 <=? c4) eqn:D1, (c4 <=? c3) eqn:D2; cbn; auto;
      rewrite ?N.ltb_lt, ?N.ltb_ge, ?N.eqb_eq, ?N.eqb_neq, ?N.leb_le, ?N.leb_gt in *; lia.
  Qed.
End LeafOrder.

Module LeafSort := Sort LeafOrder.

(* neighbours in the sorted list *)
Definition adjacent_ok (a b : leaf) : bool :=
  negb (sp_file (fst a) =? sp_file (fst b))
  || pos_leb (sp_end (fst a)) (sp_start (fst b))
  || (range_eqb (fst a) (fst b) && ent_same (snd a) (snd b)).

Fixpoint chain_ok (l : list leaf) : bool :=
  match l with
  | a :: t => match t with
              | b :: _ => adjacent_ok a b && chain_ok t
              | [] => true
              end
  | [] => true
  end.

Definition pairwise_fast (l : list leaf) : bool := chain_ok (LeafSort.sort l).

Definition wf_forest_fast (f : forest) : bool :=
  forallb unit_ok f && pairwise_fast (all_leaves f).
