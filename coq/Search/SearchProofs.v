(* Search/SearchProofs.v — proofs about the searchers of Search/Searchers.v (used by Props/C08.v).

   Contents:
     1. entity relations (is_reference_sym, is_reference_declaration)
     2. induction principle for the nested type `ev`, unfolding lemmas for the fold
     3. FindAllReferences never stops: find_all_references_spec
     4. ItemAtCursor: soundness (item_at_cursor_sound, cursor_in_references) and
        completeness under the guards (iac_units_complete)
     5. clause 2: references_resolve_back
     6. the sort-based checker: wf_forest_fast_sound, checker_sound
     7. closed facts about the example forests of Search/Examples.v *)
From Coq Require Import List NArith Bool Lia Permutation Sorted Orders Mergesort.
Import ListNotations.
From RH Require Import Search.Events Search.Searchers Search.WfFast Search.Examples.
Open Scope N_scope.
#[local] Arguments N.add : simpl never.
#[local] Arguments N.sub : simpl never.
#[local] Arguments N.mul : simpl never.
#[local] Arguments N.eqb : simpl never.
#[local] Arguments N.ltb : simpl never.
#[local] Arguments N.leb : simpl never.
#[local] Arguments N.min : simpl never.
#[local] Arguments N.max : simpl never.

(* ---------------- entity relations ---------------- *)
Lemma is_reference_sym : forall a b, is_reference a b = is_reference b a.
Proof.
  intros a b. unfold is_reference.
  rewrite (N.eqb_sym (ent_id b) (ent_id a)).
  rewrite (orb_comm (is_instance_of b (declaration a))), (orb_comm (is_declared_by b a)).
  reflexivity.
Qed.

Lemma is_declared_by_declaration : forall e,
  (ent_id (declaration e) =? ent_id e) = false -> is_declared_by e (declaration e) = true.
Proof.
  intros [i r] E. unfold declaration, is_declared_by in *. cbn [ent_related ent_id] in *.
  destruct r as [|x|x|x|x]; cbn [ent_id] in E; try (rewrite N.eqb_refl in E; discriminate E).
  apply N.eqb_refl.
Qed.

Lemma is_reference_declaration : forall e, is_reference (declaration e) e = true.
Proof.
  intros e. unfold is_reference.
  destruct (ent_id (declaration e) =? ent_id e) eqn:E1; [reflexivity|].
  destruct (is_instance_of (declaration e) (declaration e) || is_instance_of e (declaration (declaration e)));
    [reflexivity|].
  rewrite (is_declared_by_declaration e E1), orb_true_r. reflexivity.
Qed.

(* ---------------- induction principle for the nested type ---------------- *)
Section EvInd.
  Variable P : ev -> Prop.
  Hypothesis HRef : forall p t g, Forall P g -> P (Ref p t g).
  Hypothesis HDecl : forall e dp ep k, P (Decl e dp ep k).
  Hypothesis HWith : forall sp g, Forall P g -> P (WithPos sp g).
  Hypothesis HGroup : forall l, Forall P l -> P (Group l).

  Fixpoint ev_ind' (e : ev) : P e :=
    let go := fix go (l : list ev) : Forall P l :=
                match l with
                | [] => Forall_nil P
                | x :: r => Forall_cons x (ev_ind' x) (go r)
                end in
    match e with
    | Ref p t g => HRef p t g (go g)
    | Decl d dp ep k => HDecl d dp ep k
    | WithPos sp g => HWith sp g (go g)
    | Group l => HGroup l (go l)
    end.
End EvInd.

(* ---------------- unfolding lemmas ---------------- *)
Lemma search_seq_nil : forall (S : Type) (f : ev -> S -> S * bool) s, search_seq f [] s = (s, false).
Proof. reflexivity. Qed.

Lemma search_seq_cons : forall (S : Type) (f : ev -> S -> S * bool) x r s,
  search_seq f (x :: r) s = let '(s1, found) := f x s in if found then (s1, true) else search_seq f r s1.
Proof. reflexivity. Qed.

Lemma search_ev_ref : forall (S : Type) (sr : searcher S) p t g s,
  search_ev sr (Ref p t g) s =
  let '(s1, st) := on_ref sr s p t in
  match st with Finished r => (s1, r) | NotFinished => search_list sr g s1 end.
Proof. reflexivity. Qed.

Lemma search_ev_decl : forall (S : Type) (sr : searcher S) e dp ep k s,
  search_ev sr (Decl e dp ep k) s =
  let '(s1, st) := on_decl sr s e dp ep k in
  match st with Finished r => (s1, r) | NotFinished => (s1, false) end.
Proof. reflexivity. Qed.

Lemma search_ev_with : forall (S : Type) (sr : searcher S) sp g s,
  search_ev sr (WithPos sp g) s =
  let '(s1, st) := on_with sr s sp in
  match st with Finished r => (s1, r) | NotFinished => search_list sr g s1 end.
Proof. reflexivity. Qed.

Lemma search_ev_group : forall (S : Type) (sr : searcher S) l s,
  search_ev sr (Group l) s = search_list sr l s.
Proof. reflexivity. Qed.

Lemma search_list_nil : forall (S : Type) (sr : searcher S) s, search_list sr [] s = (s, false).
Proof. reflexivity. Qed.

Lemma search_list_cons : forall (S : Type) (sr : searcher S) x r s,
  search_list sr (x :: r) s =
  let '(s1, found) := search_ev sr x s in if found then (s1, true) else search_list sr r s1.
Proof. reflexivity. Qed.

Lemma leaves_cons : forall x r, leaves (x :: r) = leaves_ev x ++ leaves r.
Proof. reflexivity. Qed.

Lemma leaves_ev_ref : forall p t g,
  leaves_ev (Ref p t g) = (match t with Some x => [(p, x)] | None => [] end) ++ leaves g.
Proof. reflexivity. Qed.
Lemma leaves_ev_with : forall sp g, leaves_ev (WithPos sp g) = leaves g.
Proof. reflexivity. Qed.
Lemma leaves_ev_group : forall l, leaves_ev (Group l) = leaves l.
Proof. reflexivity. Qed.

(* ---------------- FindAllReferences ---------------- *)
Section Far.
  Variable isref : ent -> ent -> bool.
  Variable e : ent.

  Definition qual (l : list (srcpos * ent)) : list srcpos :=
    map fst (filter (fun x => isref e (snd x)) l).

  Lemma qual_app : forall a b, qual (a ++ b) = qual a ++ qual b.
  Proof. intros a b. unfold qual. rewrite filter_app, map_app. reflexivity. Qed.

  Let sr := find_all_references_searcher isref e.
  Let PF (x : ev) := forall acc, search_ev sr x acc = (rev (qual (leaves_ev x)) ++ acc, false).

  Lemma far_list_of : forall l, Forall PF l ->
    forall acc, search_list sr l acc = (rev (qual (leaves l)) ++ acc, false).
  Proof.
    intros l HF. induction HF as [|x r Hx Hr IH]; intros acc.
    - reflexivity.
    - rewrite search_list_cons, (Hx acc), IH, leaves_cons, qual_app, rev_app_distr, app_assoc.
      reflexivity.
  Qed.

  Lemma far_ev : forall x, PF x.
  Proof.
    induction x as [p t g IH|d dp ep k|sp g IH|l IH] using ev_ind'; intros acc.
    - rewrite search_ev_ref, leaves_ev_ref, qual_app, rev_app_distr, <- app_assoc.
      unfold sr at 1. cbn [on_ref find_all_references_searcher].
      destruct t as [x|].
      + unfold qual at 2. cbn [filter snd].
        destruct (isref e x); rewrite (far_list_of g IH); reflexivity.
      + rewrite (far_list_of g IH). reflexivity.
    - rewrite search_ev_decl. unfold sr. cbn [on_decl find_all_references_searcher leaves_ev].
      destruct d as [x|]; [|reflexivity].
      unfold qual.
      destruct dp as [p1|], ep as [p2|]; cbn [opt_leaf app filter snd];
        destruct (isref e x); reflexivity.
    - rewrite search_ev_with, leaves_ev_with. unfold sr at 1.
      cbn [on_with find_all_references_searcher].
      apply (far_list_of g IH).
    - rewrite search_ev_group, leaves_ev_group. apply (far_list_of l IH).
  Qed.

  Lemma far_list : forall l acc, search_list sr l acc = (rev (qual (leaves l)) ++ acc, false).
  Proof.
    intros l. apply far_list_of. apply Forall_forall. intros x _. apply far_ev.
  Qed.

  Lemma far_root : forall f acc, search_root sr f acc = (rev (qual (all_leaves f)) ++ acc, false).
  Proof.
    induction f as [|u r IH]; intros acc.
    - reflexivity.
    - cbn [search_root]. rewrite far_list, IH.
      unfold all_leaves. cbn [flat_map]. rewrite qual_app, rev_app_distr, app_assoc. reflexivity.
  Qed.

  Lemma far_with_eq : forall f, find_all_references_with isref f e = qual (all_leaves f).
  Proof.
    intros f. unfold find_all_references_with. fold sr. rewrite far_root. cbn [fst].
    rewrite app_nil_r, rev_involutive. reflexivity.
  Qed.
End Far.

Lemma find_all_references_spec : forall f e p,
  In p (find_all_references f e) <-> exists t, In (p, t) (all_leaves f) /\ is_reference e t = true.
Proof.
  intros f e p. unfold find_all_references. rewrite far_with_eq. unfold qual.
  rewrite in_map_iff. split.
  - intros [[q t] [Hq Hin]]. cbn [fst] in Hq. subst q.
    apply filter_In in Hin. cbn [snd] in Hin. exists t. exact Hin.
  - intros [t [Hin Hr]]. exists (p, t). split; [reflexivity|].
    apply filter_In. split; [exact Hin|exact Hr].
Qed.

(* ---------------- position arithmetic ---------------- *)
Ltac b2p :=
  repeat (rewrite ?orb_true_iff, ?orb_false_iff, ?andb_true_iff, ?andb_false_iff,
                  ?negb_true_iff, ?negb_false_iff,
                  ?N.ltb_lt, ?N.ltb_ge, ?N.leb_le, ?N.leb_gt, ?N.eqb_eq, ?N.eqb_neq in * ).

Ltac pos_unfold :=
  unfold strictly_inside, inside, contains, interior_disjoint, range_eqb, pos_eqb, pos_leb, pos_ltb in *;
  cbn [sp_start sp_end sp_file line chr fst snd] in *.

Lemma strictly_inside_inside : forall c p, strictly_inside c p = true -> inside c p = true.
Proof.
  intros [cl cc] [f [l1 c1] [l2 c2]] H. pos_unfold. b2p. lia.
Qed.

Lemma contains_inside : forall c sp p,
  contains sp p = true -> inside c p = true -> inside c sp = true.
Proof.
  intros [cl cc] [f [l1 c1] [l2 c2]] [f' [l3 c3] [l4 c4]] H1 H2. pos_unfold. b2p. lia.
Qed.

Lemma disjoint_not_inside : forall c q p,
  interior_disjoint q p = true -> strictly_inside c p = true -> inside c q = false.
Proof.
  intros c q p H1 H2. destruct (inside c q) eqn:I; [exfalso|reflexivity].
  destruct c as [cl cc], q as [f [l1 c1] [l2 c2]], p as [f' [l3 c3] [l4 c4]].
  pos_unfold. b2p. lia.
Qed.

Lemma disjoint_not_inside' : forall c q p,
  interior_disjoint p q = true -> strictly_inside c p = true -> inside c q = false.
Proof.
  intros c q p H1 H2. apply (disjoint_not_inside c q p); [|exact H2].
  unfold interior_disjoint in *. rewrite orb_comm. exact H1.
Qed.

(* ---------------- ItemAtCursor: soundness ---------------- *)
Section Iac.
  Variable c : position.
  Let sr := item_at_cursor_searcher c.

  Definition iac_inv (L : list (srcpos * ent)) (res : iac_state * bool) : Prop :=
    res = (None, false)
    \/ exists p e, res = (Some (p, e), true) /\ In (p, e) L /\ inside c p = true.

  Lemma iac_inv_incl : forall L L' res, incl L L' -> iac_inv L res -> iac_inv L' res.
  Proof.
    intros L L' res Hi [H|(p & e & H & Hin & Hc)]; [left; exact H|].
    right. exists p, e. split; [exact H|]. split; [apply Hi; exact Hin|exact Hc].
  Qed.

  Let PI (x : ev) := iac_inv (leaves_ev x) (search_ev sr x None).

  Lemma iac_list_of : forall l, Forall PI l -> iac_inv (leaves l) (search_list sr l None).
  Proof.
    intros l HF. induction HF as [|x r Hx Hr IH].
    - left. reflexivity.
    - rewrite search_list_cons, leaves_cons.
      destruct Hx as [Hx|(p & e & Hx & Hin & Hc)]; rewrite Hx.
      + apply (iac_inv_incl (leaves r)); [apply incl_appr, incl_refl|exact IH].
      + right. exists p, e. split; [reflexivity|]. split; [|exact Hc].
        apply in_or_app. left. exact Hin.
  Qed.

  Lemma iac_ev : forall x, PI x.
  Proof.
    induction x as [p t g IH|d dp ep k|sp g IH|l IH] using ev_ind'; unfold PI.
    - rewrite search_ev_ref, leaves_ev_ref. unfold sr at 1.
      cbn [on_ref item_at_cursor_searcher].
      destruct (inside c p) eqn:I.
      + destruct t as [x|].
        * right. exists p, x. split; [reflexivity|]. split; [left; reflexivity|exact I].
        * left. reflexivity.
      + apply (iac_inv_incl (leaves g)); [apply incl_appr, incl_refl|].
        apply iac_list_of. exact IH.
    - rewrite search_ev_decl. unfold sr. cbn [on_decl item_at_cursor_searcher leaves_ev].
      destruct d as [x|]; [|left; reflexivity].
      destruct dp as [p1|], ep as [p2|]; unfold iac_decl_pos; cbn [opt_leaf app].
      + destruct (inside c p1) eqn:I1.
        * right. exists p1, x. split; [reflexivity|]. split; [left; reflexivity|exact I1].
        * destruct (inside c p2) eqn:I2.
          -- right. exists p2, x. split; [reflexivity|].
             split; [right; left; reflexivity|exact I2].
          -- left. reflexivity.
      + destruct (inside c p1) eqn:I1.
        * right. exists p1, x. split; [reflexivity|]. split; [left; reflexivity|exact I1].
        * left. reflexivity.
      + destruct (inside c p2) eqn:I2.
        * right. exists p2, x. split; [reflexivity|]. split; [left; reflexivity|exact I2].
        * left. reflexivity.
      + left. reflexivity.
    - rewrite search_ev_with, leaves_ev_with. unfold sr at 1.
      cbn [on_with item_at_cursor_searcher].
      destruct (inside c sp) eqn:I.
      + apply iac_list_of. exact IH.
      + left. reflexivity.
    - rewrite search_ev_group, leaves_ev_group. apply iac_list_of. exact IH.
  Qed.

  Lemma iac_list : forall l, iac_inv (leaves l) (search_list sr l None).
  Proof. intros l. apply iac_list_of. apply Forall_forall. intros x _. apply iac_ev. Qed.

  Lemma iac_units_cons : forall u r file s,
    iac_units c (u :: r) file s =
    if fst u =? file then
      match fst (search_list sr (snd u) s) with
      | Some x => Some x
      | None => iac_units c r file None
      end
    else iac_units c r file s.
  Proof.
    intros u r file s. cbn [iac_units]. fold sr.
    destruct (fst u =? file); [|reflexivity].
    destruct (fst (search_list sr (snd u) s)); reflexivity.
  Qed.

  Lemma leaves_of_file_cons : forall u r file,
    leaves_of_file (u :: r) file =
    (if fst u =? file then leaves (snd u) else []) ++ leaves_of_file r file.
  Proof. reflexivity. Qed.

  Lemma iac_units_sound : forall f file p e,
    iac_units c f file None = Some (p, e) ->
    In (p, e) (leaves_of_file f file) /\ inside c p = true.
  Proof.
    induction f as [|u r IH]; intros file p e H.
    - discriminate H.
    - rewrite iac_units_cons in H. rewrite leaves_of_file_cons.
      destruct (fst u =? file) eqn:F.
      + destruct (iac_list (snd u)) as [E|(q & t & E & Hin & Hc)]; rewrite E in H; cbn [fst] in H.
        * destruct (IH file p e H) as [H1 H2]. split; [|exact H2].
          apply in_or_app. right. exact H1.
        * inversion H; subst q t. split; [|exact Hc]. apply in_or_app. left. exact Hin.
      + cbn [app]. apply IH. exact H.
  Qed.

  (* ---------------- ItemAtCursor: completeness under the guards ---------------- *)
  Let PC (x : ev) := guards_ok x = true -> forall p t,
    In (p, t) (leaves_ev x) -> strictly_inside c p = true -> snd (search_ev sr x None) = true.

  Lemma iac_complete_list_of : forall l, Forall PC l -> forallb guards_ok l = true ->
    forall p t, In (p, t) (leaves l) -> strictly_inside c p = true ->
    snd (search_list sr l None) = true.
  Proof.
    intros l HF. induction HF as [|x r Hx Hr IH]; intros G p t Hin Hs.
    - destruct Hin.
    - cbn [forallb] in G. apply andb_true_iff in G. destruct G as [G1 G2].
      rewrite leaves_cons in Hin. rewrite search_list_cons.
      apply in_app_or in Hin. destruct Hin as [Hin|Hin].
      + specialize (Hx G1 p t Hin Hs).
        destruct (search_ev sr x None) as [s1 found]. cbn [snd] in Hx. subst found. reflexivity.
      + destruct (iac_ev x) as [E|(q & t' & E & _ & _)]; unfold sr in E |- *; rewrite E.
        * apply (IH G2 p t Hin Hs).
        * reflexivity.
  Qed.

  Lemma forallb_In : forall (A : Type) (f : A -> bool) l x, forallb f l = true -> In x l -> f x = true.
  Proof. intros A f l x H Hin. rewrite forallb_forall in H. apply H. exact Hin. Qed.

  Lemma iac_complete_ev : forall x, PC x.
  Proof.
    induction x as [q tt g IH|d dp ep k|sp g IH|l IH] using ev_ind'; unfold PC; intros G p t Hin Hs.
    - cbn [guards_ok] in G. apply andb_true_iff in G. destruct G as [G1 G2].
      rewrite leaves_ev_ref in Hin. rewrite search_ev_ref. unfold sr at 1.
      cbn [on_ref item_at_cursor_searcher].
      destruct (inside c q) eqn:I.
      + destruct tt as [x|]; [reflexivity|]. exfalso.
        cbn [app] in Hin.
        pose proof (forallb_In _ _ _ _ G1 Hin) as D. cbn [fst] in D.
        rewrite (disjoint_not_inside c q p D Hs) in I. discriminate I.
      + apply in_app_or in Hin. destruct Hin as [Hin|Hin].
        * destruct tt as [x|]; [|destruct Hin].
          destruct Hin as [Hin|[]]. inversion Hin; subst q x.
          rewrite (strictly_inside_inside c p Hs) in I. discriminate I.
        * apply (iac_complete_list_of g IH G2 p t Hin Hs).
    - rewrite search_ev_decl. unfold sr. cbn [on_decl item_at_cursor_searcher].
      cbn [leaves_ev] in Hin.
      destruct d as [x|]; [|destruct Hin].
      pose proof (strictly_inside_inside c p Hs) as Hi.
      destruct dp as [p1|], ep as [p2|]; unfold iac_decl_pos; cbn [opt_leaf app] in Hin.
      + destruct Hin as [Hin|[Hin|[]]]; inversion Hin; subst.
        * rewrite Hi. reflexivity.
        * destruct (inside c p1); [reflexivity|]. rewrite Hi. reflexivity.
      + destruct Hin as [Hin|[]]; inversion Hin; subst. rewrite Hi. reflexivity.
      + destruct Hin as [Hin|[]]; inversion Hin; subst. rewrite Hi. reflexivity.
      + destruct Hin.
    - cbn [guards_ok] in G. apply andb_true_iff in G. destruct G as [G1 G2].
      rewrite leaves_ev_with in Hin. rewrite search_ev_with. unfold sr at 1.
      cbn [on_with item_at_cursor_searcher].
      pose proof (forallb_In _ _ _ _ G1 Hin) as C. cbn [fst] in C.
      rewrite (contains_inside c sp p C (strictly_inside_inside c p Hs)).
      apply (iac_complete_list_of g IH G2 p t Hin Hs).
    - cbn [guards_ok] in G. rewrite leaves_ev_group in Hin. rewrite search_ev_group.
      apply (iac_complete_list_of l IH G p t Hin Hs).
  Qed.

  Lemma iac_complete_list : forall l, forallb guards_ok l = true ->
    forall p t, In (p, t) (leaves l) -> strictly_inside c p = true ->
    snd (search_list sr l None) = true.
  Proof.
    intros l. apply iac_complete_list_of. apply Forall_forall. intros x _. apply iac_complete_ev.
  Qed.

  Lemma iac_units_complete : forall f file p t,
    forallb unit_ok f = true -> In (p, t) (leaves_of_file f file) -> strictly_inside c p = true ->
    exists r, iac_units c f file None = Some r.
  Proof.
    induction f as [|u r IH]; intros file p t W Hin Hs.
    - destruct Hin.
    - cbn [forallb] in W. apply andb_true_iff in W. destruct W as [W1 W2].
      rewrite leaves_of_file_cons in Hin. rewrite iac_units_cons.
      destruct (fst u =? file) eqn:F.
      + destruct (iac_list (snd u)) as [E|(q & t' & E & _ & _)].
        * rewrite E. cbn [fst]. apply in_app_or in Hin. destruct Hin as [Hin|Hin].
          -- exfalso. unfold unit_ok in W1. apply andb_true_iff in W1. destruct W1 as [W1 _].
             pose proof (iac_complete_list (snd u) W1 p t Hin Hs) as Hc.
             rewrite E in Hc. discriminate Hc.
          -- apply (IH file p t W2 Hin Hs).
        * rewrite E. cbn [fst]. exists (q, t'). reflexivity.
      + cbn [app] in Hin. apply (IH file p t W2 Hin Hs).
  Qed.
End Iac.

Lemma item_at_cursor_sound : forall f file c p e,
  item_at_cursor f file c = Some (p, e) -> In (p, e) (leaves_of_file f file) /\ inside c p = true.
Proof. intros f file c p e H. apply iac_units_sound. exact H. Qed.

Lemma leaves_of_file_all : forall f file x, In x (leaves_of_file f file) -> In x (all_leaves f).
Proof.
  induction f as [|u r IH]; intros file x H.
  - destruct H.
  - rewrite leaves_of_file_cons in H. unfold all_leaves. cbn [flat_map].
    apply in_or_app. apply in_app_or in H. destruct H as [H|H].
    + left. destruct (fst u =? file); [exact H|destruct H].
    + right. apply (IH file x H).
Qed.

Lemma cursor_in_references : forall f file c p e,
  item_at_cursor f file c = Some (p, e) -> In p (find_all_references f (declaration e)).
Proof.
  intros f file c p e H. apply item_at_cursor_sound in H. destruct H as [H _].
  apply find_all_references_spec. exists e. split.
  - apply (leaves_of_file_all f file). exact H.
  - apply is_reference_declaration.
Qed.

(* ---------------- ent_same ---------------- *)
Lemma related_same_sym : forall a b, related_same a b = related_same b a.
Proof. intros [|x|x|x|x] [|y|y|y|y]; cbn [related_same]; try reflexivity; apply N.eqb_sym. Qed.

Lemma related_same_trans : forall a b c,
  related_same a b = true -> related_same b c = true -> related_same a c = true.
Proof.
  intros [|x|x|x|x] [|y|y|y|y] [|z|z|z|z]; cbn [related_same]; intros H1 H2;
    try discriminate; try reflexivity;
    apply N.eqb_eq in H1; apply N.eqb_eq in H2; apply N.eqb_eq; congruence.
Qed.

Lemma ent_same_sym : forall a b, ent_same a b = ent_same b a.
Proof.
  intros a b. unfold ent_same. rewrite N.eqb_sym, related_same_sym. reflexivity.
Qed.

Lemma ent_same_trans : forall a b c,
  ent_same a b = true -> ent_same b c = true -> ent_same a c = true.
Proof.
  intros a b c H1 H2. unfold ent_same in *.
  apply andb_true_iff in H1. apply andb_true_iff in H2. destruct H1 as [H1 R1], H2 as [H2 R2].
  apply andb_true_iff. split.
  - apply N.eqb_eq in H1. apply N.eqb_eq in H2. apply N.eqb_eq. congruence.
  - apply (related_same_trans _ _ _ R1 R2).
Qed.

Lemma is_reference_ent_same : forall e a b,
  ent_same a b = true -> is_reference e a = is_reference e b.
Proof.
  intros [ie re] [ia ra] [ib rb] H. unfold ent_same in H. cbn [ent_id ent_related] in H.
  apply andb_true_iff in H. destruct H as [H R]. apply N.eqb_eq in H. subst ib.
  unfold is_reference, is_instance_of, is_declared_by, declaration. cbn [ent_id ent_related].
  destruct ra as [|x|x|x|x], rb as [|y|y|y|y]; cbn [related_same] in R; try discriminate R;
    try reflexivity; apply N.eqb_eq in R; cbn [ent_id ent_related]; rewrite ?R; try reflexivity;
    destruct re as [|z|z|z|z]; cbn [ent_id ent_related]; rewrite ?R; reflexivity.
Qed.

(* ---------------- positions ---------------- *)
Lemma pos_eqb_eq : forall a b, pos_eqb a b = true -> a = b.
Proof.
  intros [l1 c1] [l2 c2] H. unfold pos_eqb in H. cbn [line chr] in H.
  apply andb_true_iff in H. destruct H as [H1 H2].
  apply N.eqb_eq in H1. apply N.eqb_eq in H2. subst. reflexivity.
Qed.

Lemma pos_eqb_sym : forall a b, pos_eqb a b = pos_eqb b a.
Proof. intros a b. unfold pos_eqb. rewrite (N.eqb_sym (line a)), (N.eqb_sym (chr a)). reflexivity. Qed.

Lemma range_eqb_sym : forall a b, range_eqb a b = range_eqb b a.
Proof.
  intros a b. unfold range_eqb.
  rewrite (pos_eqb_sym (sp_start a)), (pos_eqb_sym (sp_end a)). reflexivity.
Qed.

Lemma srcpos_eq : forall p q,
  sp_file p = sp_file q -> range_eqb p q = true -> p = q.
Proof.
  intros [f s e] [f' s' e'] H1 H2. unfold range_eqb in H2. cbn [sp_file sp_start sp_end] in *.
  apply andb_true_iff in H2. destruct H2 as [H2 H3].
  apply pos_eqb_eq in H2. apply pos_eqb_eq in H3. subst. reflexivity.
Qed.

Lemma compat_sym : forall a b, compat a b = compat b a.
Proof.
  intros a b. unfold compat, interior_disjoint.
  rewrite (N.eqb_sym (sp_file (fst a))), (range_eqb_sym (fst a)), (ent_same_sym (snd a)).
  rewrite (orb_comm (pos_leb (sp_end (fst a)) (sp_start (fst b)))). reflexivity.
Qed.

(* ---------------- pairwise as ForallOrdPairs ---------------- *)
Lemma pairwise_FOP : forall (A : Type) (r : A -> A -> bool) l,
  pairwise r l = true <-> ForallOrdPairs (fun a b => r a b = true) l.
Proof.
  intros A r l. induction l as [|a t IH].
  - split; [intros _; constructor|reflexivity].
  - cbn [pairwise]. rewrite andb_true_iff, IH, forallb_forall, <- Forall_forall. split.
    + intros [H1 H2]. constructor; assumption.
    + intros H. inversion H; subst. split; assumption.
Qed.

Lemma FOP_perm : forall (A : Type) (R : A -> A -> Prop),
  (forall a b, R a b -> R b a) ->
  forall l l', Permutation l l' -> ForallOrdPairs R l -> ForallOrdPairs R l'.
Proof.
  intros A R Rsym l l' HP. induction HP as [|x l l' HP IH|x y l|l l' l'' HP1 IH1 HP2 IH2]; intros H.
  - exact H.
  - inversion H as [|a t H1 H2]; subst. constructor.
    + rewrite Forall_forall in *. intros z Hz. apply H1. apply (Permutation_in z (Permutation_sym HP) Hz).
    + apply IH. exact H2.
  - inversion H as [|a t H1 H2]; subst. inversion H2 as [|a' t' H3 H4]; subst.
    inversion H1 as [|a'' t'' H5 H6]; subst.
    constructor.
    + constructor; [apply Rsym; exact H5|exact H3].
    + constructor; [exact H6|exact H4].
  - apply IH2, IH1, H.
Qed.

(* ---------------- units report their own file ---------------- *)
Lemma all_leaves_cons : forall u r, all_leaves (u :: r) = leaves (snd u) ++ all_leaves r.
Proof. reflexivity. Qed.

Lemma all_leaves_file : forall f p t,
  forallb unit_ok f = true -> In (p, t) (all_leaves f) -> In (p, t) (leaves_of_file f (sp_file p)).
Proof.
  induction f as [|u r IH]; intros p t W H.
  - destruct H.
  - cbn [forallb] in W. apply andb_true_iff in W. destruct W as [W1 W2].
    rewrite all_leaves_cons in H. rewrite leaves_of_file_cons.
    apply in_or_app. apply in_app_or in H. destruct H as [H|H].
    + left. unfold unit_ok in W1. apply andb_true_iff in W1. destruct W1 as [_ W1].
      pose proof (forallb_In _ _ _ _ W1 H) as E. cbn [fst] in E.
      rewrite N.eqb_sym in E. rewrite E. exact H.
    + right. apply (IH p t W2 H).
Qed.

Lemma leaves_of_file_file : forall f file q t,
  forallb unit_ok f = true -> In (q, t) (leaves_of_file f file) -> sp_file q = file.
Proof.
  induction f as [|u r IH]; intros file q t W H.
  - destruct H.
  - cbn [forallb] in W. apply andb_true_iff in W. destruct W as [W1 W2].
    rewrite leaves_of_file_cons in H. apply in_app_or in H. destruct H as [H|H].
    + destruct (fst u =? file) eqn:F; [|destruct H].
      unfold unit_ok in W1. apply andb_true_iff in W1. destruct W1 as [_ W1].
      pose proof (forallb_In _ _ _ _ W1 H) as E. cbn [fst] in E.
      apply N.eqb_eq in E. apply N.eqb_eq in F. congruence.
    + apply (IH file q t W2 H).
Qed.

(* ---------------- clause 2 ---------------- *)
Lemma overlap_not_disjoint : forall c p q,
  strictly_inside c p = true -> inside c q = true -> interior_disjoint p q = false.
Proof.
  intros c p q H1 H2. destruct (interior_disjoint p q) eqn:D; [|reflexivity].
  rewrite (disjoint_not_inside' c q p D H1) in H2. discriminate H2.
Qed.

Lemma references_resolve_back : forall f e p c,
  wf_forest f = true ->
  In p (find_all_references f e) -> strictly_inside c p = true ->
  exists e', item_at_cursor f (sp_file p) c = Some (p, e') /\ is_reference e e' = true.
Proof.
  intros f e p c W Hin Hs. unfold wf_forest in W. apply andb_true_iff in W. destruct W as [W1 W2].
  apply find_all_references_spec in Hin. destruct Hin as [ty [Hin Hr]].
  pose proof (all_leaves_file f p ty W1 Hin) as HinF.
  destruct (iac_units_complete c f (sp_file p) p ty W1 HinF Hs) as [[q t] Hq].
  pose proof (iac_units_sound c f (sp_file p) q t Hq) as [Hq1 Hq2].
  pose proof (leaves_of_file_file f (sp_file p) q t W1 Hq1) as Hfile.
  pose proof (leaves_of_file_all f (sp_file p) (q, t) Hq1) as HinQ.
  apply pairwise_FOP in W2.
  destruct (ForallOrdPairs_In W2 (p, ty) (q, t) Hin HinQ) as [E|C].
  - inversion E; subst q t. exists ty. split; [exact Hq|exact Hr].
  - assert (C' : compat (p, ty) (q, t) = true).
    { destruct C as [C|C]; [exact C|]. rewrite compat_sym. exact C. }
    unfold compat in C'. cbn [fst snd] in C'.
    rewrite Hfile, N.eqb_refl, (overlap_not_disjoint c p q Hs Hq2) in C'. cbn [negb orb] in C'.
    apply andb_true_iff in C'. destruct C' as [C1 C2].
    pose proof (srcpos_eq p q (eq_sym Hfile) C1) as E. subst q.
    exists t. split; [exact Hq|].
    rewrite <- (is_reference_ent_same e ty t C2). exact Hr.
Qed.


(* the order of WfFast as a proposition on the five numbers of a position *)
Definition lex5 (a b : srcpos) : Prop :=
  sp_file a < sp_file b \/
  (sp_file a = sp_file b /\
   (line (sp_start a) < line (sp_start b) \/
    (line (sp_start a) = line (sp_start b) /\
     (chr (sp_start a) < chr (sp_start b) \/
      (chr (sp_start a) = chr (sp_start b) /\
       (line (sp_end a) < line (sp_end b) \/
        (line (sp_end a) = line (sp_end b) /\ chr (sp_end a) <= chr (sp_end b)))))))).

Lemma leaf_leb_lex5 : forall a b, leaf_leb a b = true <-> lex5 (fst a) (fst b).
Proof.
  intros [[f1 [l1 c1] [l2 c2]] x] [[f2 [l3 c3] [l4 c4]] y].
  unfold leaf_leb, lex5. cbn [fst sp_file sp_start sp_end line chr].
  destruct (f1 <? f2) eqn:F1.
  { b2p. split; [intros _; lia|reflexivity]. }
  destruct (f2 <? f1) eqn:F2.
  { b2p. split; [discriminate|lia]. }
  destruct (pos_ltb (mkPos l1 c1) (mkPos l3 c3)) eqn:S1.
  { pos_unfold. b2p. split; [intros _; lia|reflexivity]. }
  destruct (pos_ltb (mkPos l3 c3) (mkPos l1 c1)) eqn:S2.
  { pos_unfold. b2p. split; [discriminate|lia]. }
  pos_unfold. b2p. lia.
Qed.

Lemma leaf_leb_trans : forall a b c, leaf_leb a b = true -> leaf_leb b c = true -> leaf_leb a c = true.
Proof.
  intros a b c H1 H2. rewrite leaf_leb_lex5 in *. unfold lex5 in *. lia.
Qed.

Lemma adjacent_compat : forall a b, adjacent_ok a b = true -> compat a b = true.
Proof.
  intros a b H. unfold adjacent_ok, compat, interior_disjoint in *.
  destruct (negb (sp_file (fst a) =? sp_file (fst b))); [reflexivity|]. cbn [orb] in *.
  destruct (pos_leb (sp_end (fst a)) (sp_start (fst b))); [reflexivity|]. cbn [orb] in *.
  rewrite H. apply orb_true_r.
Qed.

Lemma leaf_leb_file : forall a b, leaf_leb a b = true -> sp_file (fst a) <= sp_file (fst b).
Proof. intros a b H. rewrite leaf_leb_lex5 in H. unfold lex5 in H. lia. Qed.

Lemma leaf_leb_start : forall a b, leaf_leb a b = true -> sp_file (fst a) = sp_file (fst b) ->
  pos_leb (sp_start (fst a)) (sp_start (fst b)) = true.
Proof.
  intros a b H E. rewrite leaf_leb_lex5 in H. unfold lex5 in H.
  destruct (fst a) as [f1 [l1 c1] e1], (fst b) as [f2 [l2 c2] e2]. pos_unfold. b2p. lia.
Qed.

Lemma pos_leb_trans : forall a b c, pos_leb a b = true -> pos_leb b c = true -> pos_leb a c = true.
Proof. intros [l1 c1] [l2 c2] [l3 c3] H1 H2. pos_unfold. b2p. lia. Qed.

Lemma chain_step : forall a a1 b,
  leaf_leb a a1 = true -> adjacent_ok a a1 = true ->
  leaf_leb a1 b = true -> compat a1 b = true -> compat a b = true.
Proof.
  intros [p x] [p1 x1] [q y] L1 A L2 C.
  pose proof (leaf_leb_file _ _ L1) as F1. pose proof (leaf_leb_file _ _ L2) as F2.
  unfold adjacent_ok in A. unfold compat in C |- *. cbn [fst snd] in *.
  destruct (sp_file p =? sp_file q) eqn:E; [|reflexivity].
  apply N.eqb_eq in E.
  assert (E1 : sp_file p = sp_file p1) by lia.
  assert (E2 : sp_file p1 = sp_file q) by lia.
  pose proof (leaf_leb_start _ _ L2 E2) as S2. cbn [fst] in S2.
  rewrite E1, N.eqb_refl in A. rewrite E2, N.eqb_refl in C. cbn [negb orb] in *.
  apply orb_true_iff in A. destruct A as [A|A].
  - unfold interior_disjoint. rewrite (pos_leb_trans _ _ _ A S2). reflexivity.
  - apply andb_true_iff in A. destruct A as [A A'].
    unfold range_eqb in A. apply andb_true_iff in A. destruct A as [A1 A2].
    apply pos_eqb_eq in A1. apply pos_eqb_eq in A2.
    unfold interior_disjoint, range_eqb in *. rewrite A1, A2.
    apply orb_true_iff in C. destruct C as [C|C].
    + rewrite C. reflexivity.
    + apply andb_true_iff in C. destruct C as [C C'].
      rewrite C, (ent_same_trans _ _ _ A' C'). apply orb_true_r.
Qed.

Lemma pairwise_cons : forall (A : Type) (r : A -> A -> bool) a t,
  pairwise r (a :: t) = forallb (r a) t && pairwise r t.
Proof. reflexivity. Qed.

Lemma sorted_chain : forall l,
  StronglySorted (fun a b => is_true (leaf_leb a b)) l -> chain_ok l = true ->
  pairwise compat l = true.
Proof.
  induction l as [|a t IH]; intros S C.
  - reflexivity.
  - inversion S as [|a' t0 S' Fa]; subst a' t0.
    destruct t as [|a1 t'].
    + reflexivity.
    + cbn [chain_ok] in C. apply andb_true_iff in C. destruct C as [C1 C2].
      specialize (IH S' C2).
      rewrite pairwise_cons. apply andb_true_iff. split; [|exact IH].
      inversion Fa as [|a0 t0 L1 _]; subst a0 t0. unfold is_true in L1.
      inversion S' as [|a0 t0 _ Fa1]; subst a0 t0.
      rewrite pairwise_cons in IH. apply andb_true_iff in IH. destruct IH as [IH1 _].
      apply forallb_forall. intros b [Hb|Hb].
      * subst b. apply adjacent_compat. exact C1.
      * rewrite Forall_forall in Fa1. pose proof (Fa1 b Hb) as L2. unfold is_true in L2.
        apply (chain_step a a1 b L1 C1 L2). apply (forallb_In _ _ _ _ IH1 Hb).
Qed.

Lemma pairwise_fast_sound : forall l, pairwise_fast l = true -> pairwise compat l = true.
Proof.
  intros l H. unfold pairwise_fast in H.
  assert (T : Transitive (fun x x0 : leaf => is_true (leaf_leb x x0))).
  { intros a b c H1 H2. unfold is_true in *. apply (leaf_leb_trans a b c H1 H2). }
  pose proof (sorted_chain _ (LeafSort.StronglySorted_sort l T) H) as P.
  apply pairwise_FOP. apply pairwise_FOP in P.
  apply (FOP_perm _ _ (fun a b Hab => eq_trans (compat_sym b a) Hab)
                  _ _ (Permutation_sym (LeafSort.Permuted_sort l)) P).
Qed.

Lemma wf_forest_fast_sound : forall f, wf_forest_fast f = true -> wf_forest f = true.
Proof.
  intros f H. unfold wf_forest_fast in H. unfold wf_forest.
  apply andb_true_iff in H. destruct H as [H1 H2].
  rewrite H1, (pairwise_fast_sound _ H2). reflexivity.
Qed.

Lemma checker_sound : forall f, wf_forest_fast f = true ->
  (forall file c p e, item_at_cursor f file c = Some (p, e) ->
                      In p (find_all_references f (declaration e)))
  /\ (forall e p c, In p (find_all_references f e) -> strictly_inside c p = true ->
                    exists e', item_at_cursor f (sp_file p) c = Some (p, e') /\ is_reference e e' = true).
Proof.
  intros f H. apply wf_forest_fast_sound in H. split.
  - intros file c p e. apply cursor_in_references.
  - intros e p c. apply (references_resolve_back f e p c H).
Qed.

(* ---------------- examples ---------------- *)
(* ---------------- FindEnt / find_definition_of ---------------- *)
Section FindEnt.
  Variable cond : ent -> bool.
  Let sr := find_ent_searcher cond.
  Let Q (s : option ent) : Prop := match s with Some x => cond x = true | None => True end.
  Let PQ (x : ev) := forall s, Q s -> Q (fst (search_ev sr x s)).

  Lemma find_ent_list_of : forall l, Forall PQ l -> forall s, Q s -> Q (fst (search_list sr l s)).
  Proof.
    intros l HF. induction HF as [|x r Hx Hr IH]; intros s Hs.
    - exact Hs.
    - rewrite search_list_cons. specialize (Hx s Hs).
      destruct (search_ev sr x s) as [s1 fnd]. cbn [fst] in Hx.
      destruct fnd; [exact Hx|]. apply IH. exact Hx.
  Qed.

  Lemma find_ent_ev : forall x, PQ x.
  Proof.
    induction x as [p t g IH|d dp ep k|sp g IH|l IH] using ev_ind'; intros s Hs.
    - rewrite search_ev_ref. unfold sr at 1. cbn [on_ref find_ent_searcher].
      apply (find_ent_list_of g IH). exact Hs.
    - rewrite search_ev_decl. unfold sr. cbn [on_decl find_ent_searcher].
      destruct d as [x|]; [|exact Hs].
      destruct (cond x) eqn:C; cbn [fst]; [exact C|exact Hs].
    - rewrite search_ev_with. unfold sr at 1. cbn [on_with find_ent_searcher].
      apply (find_ent_list_of g IH). exact Hs.
    - rewrite search_ev_group. apply (find_ent_list_of l IH). exact Hs.
  Qed.

  Lemma find_ent_root : forall f s, Q s -> Q (fst (search_root sr f s)).
  Proof.
    induction f as [|u r IH]; intros s Hs.
    - exact Hs.
    - cbn [search_root].
      assert (H1 : Q (fst (search_list sr (snd u) s))).
      { apply find_ent_list_of; [|exact Hs]. apply Forall_forall. intros x _. apply find_ent_ev. }
      destruct (search_list sr (snd u) s) as [s1 fnd]. cbn [fst] in H1.
      destruct fnd; [exact H1|]. apply IH. exact H1.
  Qed.
End FindEnt.

(* the definition found for a declaration is the declaration itself or an entity DeclaredBy it *)
Lemma find_definition_counterpart : forall f d, is_reference d (find_definition_of f d) = true.
Proof.
  intros f d. unfold find_definition_of.
  pose proof (find_ent_root (fun x => is_declared_by x d) f None I) as H.
  destruct (fst (search_root (find_ent_searcher (fun x => is_declared_by x d)) f None)) as [x|].
  - cbn in H. unfold is_reference. rewrite H. rewrite orb_true_r.
    destruct (ent_id d =? ent_id x); [reflexivity|].
    destruct (is_instance_of d (declaration x) || is_instance_of x (declaration d)); reflexivity.
  - unfold is_reference. rewrite N.eqb_refl. reflexivity.
Qed.

Lemma pruning_needs_wf :
  wf_forest ex_narrow = false
  /\ In ex_p1 (find_all_references ex_narrow ex_e1)
  /\ strictly_inside (mkPos 0 6) ex_p1 = true
  /\ item_at_cursor ex_narrow (sp_file ex_p1) (mkPos 0 6) = None.
Proof.
  split; [vm_compute; reflexivity|]. split; [vm_compute; left; reflexivity|].
  split; vm_compute; reflexivity.
Qed.

Lemma ref_guard_needs_wf :
  wf_forest ex_refguard = false
  /\ In ex_p1 (find_all_references ex_refguard ex_e1)
  /\ item_at_cursor ex_refguard 0 (mkPos 0 6) = None.
Proof.
  split; [vm_compute; reflexivity|]. split; [vm_compute; left; reflexivity|].
  vm_compute; reflexivity.
Qed.

Lemma same_target_needed :
  wf_forest ex_clash = false
  /\ In ex_p1 (find_all_references ex_clash ex_e1)
  /\ item_at_cursor ex_clash 0 (mkPos 0 6) = Some (ex_p1, ex_e2)
  /\ is_reference ex_e1 ex_e2 = false.
Proof.
  split; [vm_compute; reflexivity|]. split; [vm_compute; left; reflexivity|].
  split; vm_compute; reflexivity.
Qed.

Lemma declared_by_needed :
  wf_forest ex_subprogram = true
  /\ item_at_cursor ex_subprogram 1 (mkPos 3 12) = Some (ex_pb, ex_body)
  /\ ~ In ex_pb (find_all_references_with is_reference_no_declared_by ex_subprogram (declaration ex_body)).
Proof.
  split; [vm_compute; reflexivity|]. split; [vm_compute; reflexivity|].
  vm_compute. intros [H|[H|[]]]; discriminate H.
Qed.

Lemma example_wf : wf_forest ex_subprogram = true /\ wf_forest_fast ex_subprogram = true.
Proof. split; vm_compute; reflexivity. Qed.

Lemma example_queries :
  find_all_references ex_subprogram ex_decl
    = [ex_pd; ex_pb; ex_pe; mkSrcPos 1 (mkPos 5 11) (mkPos 5 14)]
  /\ item_at_cursor ex_subprogram 1 (mkPos 5 12) = Some (mkSrcPos 1 (mkPos 5 11) (mkPos 5 14), ex_decl)
  /\ item_at_cursor ex_subprogram 1 (mkPos 6 16) = Some (ex_pe, ex_body)
  /\ item_at_cursor ex_subprogram 0 (mkPos 5 12) = None
  /\ find_definition_of ex_subprogram ex_decl = ex_body.
Proof.
  split; [vm_compute; reflexivity|]. split; [vm_compute; reflexivity|].
  split; [vm_compute; reflexivity|]. split; vm_compute; reflexivity.
Qed.

(* generic package shape (28f6f63): declaration, body and instance have one reference set *)
Lemma instance_body_same_set :
  wf_forest ex_generic = true
  /\ find_all_references ex_generic ex_gd = [ex_g_pd; ex_g_pb; ex_g_pe; ex_g_in; ex_g_use]
  /\ find_all_references ex_generic ex_gb = [ex_g_pd; ex_g_pb; ex_g_pe; ex_g_in; ex_g_use]
  /\ find_all_references ex_generic ex_gi = [ex_g_pd; ex_g_pb; ex_g_pe; ex_g_in; ex_g_use]
  /\ is_reference ex_gb ex_gi = true.
Proof. vm_compute. repeat split; reflexivity. Qed.

Lemma is_reference_old_refuted :
  item_at_cursor ex_generic 1 (mkPos 4 31) = Some (ex_g_use, ex_gi)
  /\ In ex_g_use (find_all_references_with is_reference_old ex_generic ex_gd)
  /\ ~ In ex_g_use (find_all_references_with is_reference_old ex_generic ex_gb)
  /\ ~ In ex_g_pb (find_all_references_with is_reference_old ex_generic ex_gi).
Proof.
  vm_compute. split; [reflexivity|]. split; [tauto|].
  split; intro H; repeat (destruct H as [H|H]; [discriminate H|]); exact H.
Qed.
