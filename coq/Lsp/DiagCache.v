(* Lsp/DiagCache.v — model of the diagnostic publishing glue of vhdl_ls (definitions only).

   Anchors (repaired tree, commit 9ff857c included):
     vhdl_ls/src/vhdl_server/diagnostics.rs   publish_diagnostics, diagnostics_by_uri, flatten_related,
                                              to_lsp_diagnostic
     vhdl_ls/src/vhdl_server/workspace.rs     reload_project (severity change => cached lists cleared, keys kept)
     vhdl_ls/src/vhdl_server.rs               file_name_to_uri (`Url::from_file_path(..).unwrap()`), settings.no_lint,
                                              client_supports_related_information
     vhdl_lang/src/data/diagnostic.rs         Diagnostic (derived ==), drain_related
     vhdl_lang/src/data/error_codes.rs        SeverityMap = EnumMap<ErrorCode, Option<Severity>> (derived ==)

   Abstract parts are Section variables (never axioms):
     uri file code range msg    the types Url, file name (Path), ErrorCode, Range, String
     *_eqb                      their `==`
     file_uri                   `Url::from_file_path(file_name).ok()`; `None` makes `file_name_to_uri` panic  => Crash
     related_msg                `format!("related: {msg}")`
     related_code               ErrorCode::Related
     all_codes                  the (finite) list of all ErrorCode variants: an EnumMap is compared on all of them
     reorder                    iteration order of an FnvHashMap (any permutation of the entries)
   The output of `Project::analyse()` is the argument `raw` of the event `Publish`. *)
From Coq Require Import List Bool NArith Permutation.
Import ListNotations.
Open Scope N_scope.

(* vhdl_lang::Severity *)
Inductive severity := Hint | Info | Warning | Error.

Definition severity_eqb (a b : severity) : bool :=
  match a, b with
  | Hint, Hint | Info, Info | Warning, Warning | Error, Error => true
  | _, _ => false
  end.

Definition opt_severity_eqb (a b : option severity) : bool :=
  match a, b with
  | None, None => true
  | Some x, Some y => severity_eqb x y
  | _, _ => false
  end.

(* lsp_types::DiagnosticSeverity::{ERROR, WARNING, INFORMATION, HINT} = 1, 2, 3, 4 *)
Definition lsp_severity (s : severity) : N :=
  match s with Error => 1 | Warning => 2 | Info => 3 | Hint => 4 end.

(* A panic inside the modelled region kills the server process: explicit outcome, never a default. *)
Inductive outcome (A : Type) := Ok (a : A) | Crash.
Arguments Ok {A} a.
Arguments Crash {A}.

Section Model.
  Variables uri file code range msg : Type.
  Variable uri_eqb : uri -> uri -> bool.
  Variable file_eqb : file -> file -> bool.
  Variable code_eqb : code -> code -> bool.
  Variable range_eqb : range -> range -> bool.
  Variable msg_eqb : msg -> msg -> bool.
  Variable file_uri : file -> option uri.
  Variable related_msg : msg -> msg.
  Variable related_code : code.
  Variable all_codes : list code.

  (* ---------------------------------------------------------------- data *)
  (* vhdl_lang::Diagnostic { pos: SrcPos{source, range}, message, related: Vec<(SrcPos, String)>, code } *)
  Record diag := mkDiag {
    d_file : file; d_range : range; d_msg : msg;
    d_related : list (file * range * msg); d_code : code }.

  (* lsp_types::Diagnostic { range, severity, code, source = "vhdl ls", message, related_information } *)
  Record lsp_diag := mkLsp {
    l_range : range; l_severity : N; l_code : code; l_msg : msg;
    l_related : list (uri * range * msg) }.

  Definition sevmap := code -> option severity.

  (* derived PartialEq of EnumMap<ErrorCode, Option<Severity>>: all entries equal *)
  Definition sev_eqb (a b : sevmap) : bool :=
    forallb (fun c => opt_severity_eqb (a c) (b c)) all_codes.

  Definition related_eqb (x y : file * range * msg) : bool :=
    file_eqb (fst (fst x)) (fst (fst y)) && range_eqb (snd (fst x)) (snd (fst y)) && msg_eqb (snd x) (snd y).

  Fixpoint list_eqb {A} (e : A -> A -> bool) (a b : list A) : bool :=
    match a, b with
    | [], [] => true
    | x :: a', y :: b' => e x y && list_eqb e a' b'
    | _, _ => false
    end.

  (* derived PartialEq of Diagnostic (Source compares by file id = file name) *)
  Definition diag_eqb (x y : diag) : bool :=
    file_eqb (d_file x) (d_file y) && range_eqb (d_range x) (d_range y) && msg_eqb (d_msg x) (d_msg y)
    && list_eqb related_eqb (d_related x) (d_related y) && code_eqb (d_code x) (d_code y).

  Definition diags_eqb : list diag -> list diag -> bool := list_eqb diag_eqb.

  (* ---------------------------------------------------------------- hash maps keyed by Url *)
  Definition assoc (V : Type) := list (uri * V).

  Fixpoint lookup {V} (k : uri) (m : assoc V) : option V :=
    match m with
    | [] => None
    | (k', v) :: r => if uri_eqb k k' then Some v else lookup k r
    end.

  Fixpoint remove {V} (k : uri) (m : assoc V) : assoc V :=
    match m with
    | [] => []
    | (k', v) :: r => if uri_eqb k k' then remove k r else (k', v) :: remove k r
    end.

  (* HashMap::insert: replace the value of an existing key, else add the entry *)
  Fixpoint insert {V} (k : uri) (v : V) (m : assoc V) : assoc V :=
    match m with
    | [] => [(k, v)]
    | (k', v') :: r => if uri_eqb k k' then (k', v) :: r else (k', v') :: insert k v r
    end.

  (* ---------------------------------------------------------------- flatten_related *)
  (* Diagnostic::drain_related: one `Related` diagnostic per related position, message prefixed *)
  Definition drain_related (d : diag) : list diag :=
    map (fun r => mkDiag (fst (fst r)) (snd (fst r)) (related_msg (snd r)) [] related_code) (d_related d).

  Definition without_related (d : diag) : diag :=
    mkDiag (d_file d) (d_range d) (d_msg d) [] (d_code d).

  Fixpoint flatten_related (ds : list diag) : list diag :=
    match ds with
    | [] => []
    | d :: r => drain_related d ++ without_related d :: flatten_related r
    end.

  (* ---------------------------------------------------------------- diagnostics_by_uri *)
  (* entry(uri): Occupied => push at the end, Vacant => new entry *)
  Fixpoint push_by_uri (u : uri) (d : diag) (m : assoc (list diag)) : assoc (list diag) :=
    match m with
    | [] => [(u, [d])]
    | (k, v) :: r => if uri_eqb u k then (k, v ++ [d]) :: r else (k, v) :: push_by_uri u d r
    end.

  Fixpoint by_uri_acc (ds : list diag) (m : assoc (list diag)) : outcome (assoc (list diag)) :=
    match ds with
    | [] => Ok m
    | d :: r =>
        match file_uri (d_file d) with
        | None => Crash                                  (* file_name_to_uri: unwrap *)
        | Some u => by_uri_acc r (push_by_uri u d m)
        end
    end.

  Definition diagnostics_by_uri (ds : list diag) : outcome (assoc (list diag)) := by_uri_acc ds [].

  (* ---------------------------------------------------------------- to_lsp_diagnostic *)
  Fixpoint to_lsp_related (rel : list (file * range * msg)) : outcome (list (uri * range * msg)) :=
    match rel with
    | [] => Ok []
    | (f, r, m) :: rest =>
        match file_uri f with
        | None => Crash                                  (* file_name_to_uri: unwrap *)
        | Some u =>
            match to_lsp_related rest with
            | Crash => Crash
            | Ok l => Ok ((u, r, m) :: l)
            end
        end
    end.

  (* `severity_map[code]?` comes first: a hidden diagnostic is dropped before its related positions are touched *)
  Definition to_lsp_diagnostic (sm : sevmap) (d : diag) : outcome (option lsp_diag) :=
    match sm (d_code d) with
    | None => Ok None
    | Some s =>
        match to_lsp_related (d_related d) with
        | Crash => Crash
        | Ok rel => Ok (Some (mkLsp (d_range d) (lsp_severity s) (d_code d) (d_msg d) rel))
        end
    end.

  (* `.iter().filter_map(|d| to_lsp_diagnostic(d.clone(), &severity_map)).collect()` *)
  Fixpoint render (sm : sevmap) (ds : list diag) : outcome (list lsp_diag) :=
    match ds with
    | [] => Ok []
    | d :: r =>
        match to_lsp_diagnostic sm d with
        | Crash => Crash
        | Ok o =>
            match render sm r with
            | Crash => Crash
            | Ok l => Ok (match o with Some x => x :: l | None => l end)
            end
        end
    end.

  (* ---------------------------------------------------------------- publish_diagnostics *)
  Definition notification := (uri * list lsp_diag)%type.      (* textDocument/publishDiagnostics *)

  Record settings := mkSettings { no_lint : bool; related_information : bool }.
  Record server := mkServer { cache : assoc (list diag); sev : sevmap }.

  Variable reorder : assoc (list diag) -> assoc (list diag).

  (* first loop: over the cache entries; `cur` is `by_uri` (entries are removed as they are consumed).
     Result: the cache entries after the loop, what is left of by_uri, the notifications sent (in order). *)
  Fixpoint pass1 (sm : sevmap) (c cur : assoc (list diag))
    : outcome (assoc (list diag) * assoc (list diag) * list notification) :=
    match c with
    | [] => Ok ([], cur, [])
    | (u, old) :: r =>
        match lookup u cur with
        | None =>
            (* cached but no longer reported: send [] and clear the cached list *)
            match pass1 sm r cur with
            | Crash => Crash
            | Ok (c', cur', ns) => Ok ((u, []) :: c', cur', (u, []) :: ns)
            end
        | Some nw =>
            let cur1 := remove u cur in
            if diags_eqb nw old then
              match pass1 sm r cur1 with
              | Crash => Crash
              | Ok (c', cur', ns) => Ok ((u, old) :: c', cur', ns)
              end
            else
              match render sm nw with
              | Crash => Crash
              | Ok l =>
                  match pass1 sm r cur1 with
                  | Crash => Crash
                  | Ok (c', cur', ns) => Ok ((u, nw) :: c', cur', (u, l) :: ns)
                  end
              end
        end
    end.

  (* second loop: what is left of by_uri are files that were not in the cache *)
  Fixpoint pass2 (sm : sevmap) (rest c : assoc (list diag)) : outcome (assoc (list diag) * list notification) :=
    match rest with
    | [] => Ok (c, [])
    | (u, nw) :: r =>
        match render sm nw with
        | Crash => Crash
        | Ok l =>
            match pass2 sm r (insert u nw c) with
            | Crash => Crash
            | Ok (c', ns) => Ok (c', (u, l) :: ns)
            end
        end
    end.

  Definition prepare (st : settings) (raw : list diag) : list diag :=
    if related_information st then raw else flatten_related raw.

  Definition publish (st : settings) (s : server) (raw : list diag) : outcome (server * list notification) :=
    if no_lint st then Ok (s, [])
    else
      match diagnostics_by_uri (prepare st raw) with
      | Crash => Crash
      | Ok cur =>
          match pass1 (sev s) (reorder (cache s)) cur with
          | Crash => Crash
          | Ok (c1, rest, n1) =>
              match pass2 (sev s) (reorder rest) c1 with
              | Crash => Crash
              | Ok (c2, n2) => Ok (mkServer c2 (sev s), n1 ++ n2)
              end
          end
      end.

  (* reload_project: `if self.severity_map != *config.severities() { clear every cached list }` then assign.
     (repair of finding F6, commit 9ff857c) *)
  Definition clear_values (c : assoc (list diag)) : assoc (list diag) := map (fun kv => (fst kv, [])) c.

  Definition set_severity (s : server) (sm : sevmap) : server :=
    mkServer (if sev_eqb (sev s) sm then cache s else clear_values (cache s)) sm.

  (* the code before the repair: the severity map is replaced, the cache is left alone *)
  Definition set_severity_old (s : server) (sm : sevmap) : server := mkServer (cache s) sm.

  (* ---------------------------------------------------------------- sessions *)
  Inductive event :=
  | Publish (raw : list diag)          (* any handler that ends in publish_diagnostics; raw = project.analyse() *)
  | SetSeverity (sm : sevmap).         (* the prefix of reload_project *)

  (* what the client holds: the last list it was sent for each uri *)
  Definition client := uri -> option (list lsp_diag).
  Definition deliver (cl : client) (n : notification) : client :=
    fun k => if uri_eqb k (fst n) then Some (snd n) else cl k.
  Definition deliver_all (cl : client) (ns : list notification) : client := fold_left deliver ns cl.

  Definition no_client : client := fun _ => None.
  Definition init (sev0 : sevmap) : server * client := (mkServer [] sev0, no_client).

  (* fixed = true: the repaired reload_project; false: the code before commit 9ff857c *)
  Definition step (fixed : bool) (st : settings) (sc : server * client) (e : event) : outcome (server * client) :=
    match e with
    | Publish raw =>
        match publish st (fst sc) raw with
        | Crash => Crash
        | Ok (s', ns) => Ok (s', deliver_all (snd sc) ns)
        end
    | SetSeverity sm => Ok ((if fixed then set_severity else set_severity_old) (fst sc) sm, snd sc)
    end.

  Fixpoint run (fixed : bool) (st : settings) (sc : server * client) (es : list event) : outcome (server * client) :=
    match es with
    | [] => Ok sc
    | e :: r =>
        match step fixed st sc e with
        | Crash => Crash
        | Ok sc' => run fixed st sc' r
        end
    end.

  (* the notification stream, event by event (used by the correspondence run); stops at a Crash *)
  Fixpoint run_trace (fixed : bool) (st : settings) (s : server) (es : list event) : list (outcome (list notification)) :=
    match es with
    | [] => []
    | Publish raw :: r =>
        match publish st s raw with
        | Crash => [Crash]
        | Ok (s', ns) => Ok ns :: run_trace fixed st s' r
        end
    | SetSeverity sm :: r => Ok [] :: run_trace fixed st ((if fixed then set_severity else set_severity_old) s sm) r
    end.

  (* ---------------------------------------------------------------- specification *)
  (* the server's current diagnostics for one file: those of the (prepared) analysis result located in it *)
  Definition in_uri (u : uri) (d : diag) : bool :=
    match file_uri (d_file d) with Some k => uri_eqb k u | None => false end.

  Definition cur_of (st : settings) (raw : list diag) (u : uri) : list diag :=
    filter (in_uri u) (prepare st raw).

  (* what the client holds for a file whose current diagnostics are ds, under the severities sm *)
  Definition view_ok (sm : sevmap) (ds : list diag) (held : option (list lsp_diag)) : Prop :=
    match ds with
    | [] => held = None \/ held = Some []
    | _ :: _ => exists l, render sm ds = Ok l /\ held = Some l
    end.

  (* the configured severities after a history *)
  Fixpoint last_severity (sev0 : sevmap) (es : list event) : sevmap :=
    match es with
    | [] => sev0
    | Publish _ :: r => last_severity sev0 r
    | SetSeverity sm :: r => last_severity sm r
    end.

  (* every file name met by a history can be turned into a Url (absolute path) *)
  Definition diag_files_ok (d : diag) : Prop :=
    file_uri (d_file d) <> None /\ forall r, In r (d_related d) -> file_uri (fst (fst r)) <> None.
  Definition event_files_ok (e : event) : Prop :=
    match e with Publish raw => forall d, In d raw -> diag_files_ok d | SetSeverity _ => True end.
End Model.

Arguments mkDiag {file code range msg}.
Arguments d_file {file code range msg}.
Arguments d_range {file code range msg}.
Arguments d_msg {file code range msg}.
Arguments d_related {file code range msg}.
Arguments d_code {file code range msg}.
Arguments mkLsp {uri code range msg}.
Arguments l_range {uri code range msg}.
Arguments l_severity {uri code range msg}.
Arguments l_code {uri code range msg}.
Arguments l_msg {uri code range msg}.
Arguments l_related {uri code range msg}.
Arguments mkServer {uri file code range msg}.
Arguments cache {uri file code range msg}.
Arguments sev {uri file code range msg}.
Arguments Publish {file code range msg}.
Arguments SetSeverity {file code range msg}.
Arguments sev_eqb {code}.
Arguments diag_eqb {file code range msg}.
Arguments diags_eqb {file code range msg}.
Arguments lookup {uri} uri_eqb {V}.
Arguments remove {uri} uri_eqb {V}.
Arguments insert {uri} uri_eqb {V}.
Arguments flatten_related {file code range msg}.
Arguments diagnostics_by_uri {uri file code range msg}.
Arguments to_lsp_related {uri file range msg}.
Arguments to_lsp_diagnostic {uri file code range msg}.
Arguments render {uri file code range msg}.
Arguments pass1 {uri file code range msg}.
Arguments pass2 {uri file code range msg}.
Arguments prepare {file code range msg}.
Arguments publish {uri file code range msg}.
Arguments clear_values {uri file code range msg}.
Arguments set_severity {uri file code range msg}.
Arguments set_severity_old {uri file code range msg}.
Arguments deliver {uri code range msg}.
Arguments deliver_all {uri code range msg}.
Arguments no_client {uri code range msg}.
Arguments init {uri file code range msg}.
Arguments step {uri file code range msg}.
Arguments run {uri file code range msg}.
Arguments run_trace {uri file code range msg}.
Arguments in_uri {uri file code range msg}.
Arguments cur_of {uri file code range msg}.
Arguments view_ok {uri file code range msg}.
Arguments last_severity {file code range msg}.
Arguments diag_files_ok {uri file code range msg}.
Arguments event_files_ok {uri file code range msg}.

(* ------------------------------------------------------------------ what is assumed of the abstract parts *)
Definition eqb_correct {A : Type} (e : A -> A -> bool) : Prop := forall a b, e a b = true <-> a = b.

(* `==` of the five atom types is equality; `all_codes` lists every ErrorCode; FnvHashMap iteration visits every
   entry exactly once, in some order. *)
Definition params_ok {uri file code range msg : Type}
  (uri_eqb : uri -> uri -> bool) (file_eqb : file -> file -> bool) (code_eqb : code -> code -> bool)
  (range_eqb : range -> range -> bool) (msg_eqb : msg -> msg -> bool) (all_codes : list code)
  (reorder : list (uri * list (@diag file code range msg)) -> list (uri * list (@diag file code range msg))) : Prop :=
  eqb_correct uri_eqb /\ eqb_correct file_eqb /\ eqb_correct code_eqb /\ eqb_correct range_eqb /\
  eqb_correct msg_eqb /\ (forall c, In c all_codes) /\ (forall m, Permutation (reorder m) m).

(* ------------------------------------------------------------------ a concrete instance over N
   used by the examples, by the in-Coq evaluation of sampled sessions and by the refutation of the old code:
   every atom is a number; file 0 has no Url; "related: m" is m + 1000000; code 0 is `Related`. *)
Module NInst.
  Definition n_file_uri (f : N) : option N := if f =? 0 then None else Some f.
  Definition n_related_msg (m : N) : N := m + 1000000.
  Definition n_related_code : N := 0.
  Fixpoint n_codes (n : nat) : list N :=
    match n with O => [] | S k => n_codes k ++ [N.of_nat k] end.
  Definition n_reorder (m : list (N * list (@diag N N N N))) := m.

  Definition ndiag := @diag N N N N.
  Definition nlsp := @lsp_diag N N N N.
  Definition nsev := N -> option severity.
  Definition nevent := @event N N N N.

  (* severity map given as a table (code, Some s / None) over a default *)
  Fixpoint table_sev (t : list (N * option severity)) (dflt : option severity) : nsev :=
    fun c => match t with
             | [] => dflt
             | (k, v) :: r => if c =? k then v else table_sev r dflt c
             end.

  Definition n_publish :=
    @publish N N N N N N.eqb N.eqb N.eqb N.eqb N.eqb n_file_uri n_related_msg n_related_code n_reorder.
  Definition n_run (ncodes : nat) (fixed : bool) :=
    @run N N N N N N.eqb N.eqb N.eqb N.eqb N.eqb n_file_uri n_related_msg n_related_code (n_codes ncodes) n_reorder fixed.
  Definition n_run_trace (ncodes : nat) (fixed : bool) :=
    @run_trace N N N N N N.eqb N.eqb N.eqb N.eqb N.eqb n_file_uri n_related_msg n_related_code (n_codes ncodes) n_reorder fixed.
  Definition n_render := @render N N N N N n_file_uri.
  Definition n_cur_of := @cur_of N N N N N N.eqb n_file_uri n_related_msg n_related_code.
  Definition n_view_ok := @view_ok N N N N N n_file_uri.
  Definition n_init := @init N N N N N.
End NInst.

(* a three-element code type: the smallest instance with a complete `all_codes` (used by the non-vacuity example) *)
Inductive code3 := K_related | K_syntax | K_unused.
Definition code3_eqb (a b : code3) : bool :=
  match a, b with
  | K_related, K_related | K_syntax, K_syntax | K_unused, K_unused => true
  | _, _ => false
  end.
