(* Lsp/Edits.v — application of a SET of LSP `TextEdit`s to a document, as the LSP
   specification prescribes for `WorkspaceEdit.changes`: all ranges refer to the ORIGINAL
   document, ranges never overlap, and a client realises the simultaneous replacement by
   applying the edits back-to-front (descending start).

   A document is the plain string of Text/Splice.v (`list char`, code points, lines end at
   LF); positions are (line, UTF-16 column) and are turned into character offsets with
   `Splice.offset_of`; one edit is applied with `Splice.splice`.

   Besides the edit algebra the file contains the token-level vocabulary used for rename:
   what it means that a range covers exactly one (basic) identifier token whose text is a
   given name up to letter case, and the boolean run-time checker `rename_edits_ok`.
   Definitions only; the proofs are in Lsp/EditsProofs.v. *)
From Coq Require Import List NArith Arith Bool.
Import ListNotations.
From RH Require Import Text.Contents Text.Splice.

(* ------------------------------------------------------------------------------------ *)
(* LSP TextEdit                                                                           *)
(* ------------------------------------------------------------------------------------ *)
Record text_edit := { te_start : pos; te_end : pos; te_new : list char }.
Definition TE (l1 : nat) (c1 : N) (l2 : nat) (c2 : N) (t : list char) : text_edit :=
  {| te_start := P l1 c1; te_end := P l2 c2; te_new := t |}.

(* an edit whose range has been resolved against the original document:
   (start offset, end offset, replacement) *)
Definition oedit := (nat * nat * list char)%type.
Definition oe_start (e : oedit) : nat := fst (fst e).
Definition oe_end (e : oedit) : nat := snd (fst e).
Definition oe_text (e : oedit) : list char := snd e.

Definition to_offsets (s : list char) (e : text_edit) : oedit :=
  (offset_of s (te_start e), offset_of s (te_end e), te_new e).

Definition apply_one (s : list char) (e : oedit) : list char :=
  splice s (oe_start e) (oe_end e) (oe_text e).

(* ascending list applied back-to-front: the last edit of the list is applied first *)
Definition apply_sorted (s : list char) (es : list oedit) : list char :=
  fold_right (fun e acc => apply_one acc e) s es.

(* insertion sort by (start, end) *)
Definition oe_le (x y : oedit) : bool :=
  Nat.ltb (oe_start x) (oe_start y)
  || (Nat.eqb (oe_start x) (oe_start y) && Nat.leb (oe_end x) (oe_end y)).
Fixpoint insert_oe (x : oedit) (l : list oedit) : list oedit :=
  match l with
  | [] => [x]
  | y :: r => if oe_le x y then x :: l else y :: insert_oe x r
  end.
Definition sort_oe (l : list oedit) : list oedit := fold_right insert_oe [] l.

(* what a client does with the edits of one file, in whatever order they arrive *)
Definition apply_oedits (s : list char) (es : list oedit) : list char :=
  apply_sorted s (sort_oe es).
Definition apply_edits (s : list char) (es : list text_edit) : list char :=
  apply_oedits s (map (to_offsets s) es).

(* ------------------------------------------------------------------------------------ *)
(* Specification: simultaneous replacement                                                *)
(* ------------------------------------------------------------------------------------ *)
(* the text from offset `cur` on: untouched gap, replacement, untouched gap, ... *)
Fixpoint simul (s : list char) (cur : nat) (es : list oedit) : list char :=
  match es with
  | [] => skipn cur s
  | e :: r => firstn (oe_start e - cur) (skipn cur s) ++ oe_text e ++ simul s (oe_end e) r
  end.

(* sorted, pairwise disjoint (touching allowed), inside a text of length n, from `cur` on *)
Fixpoint wf_sorted (cur n : nat) (es : list oedit) : bool :=
  match es with
  | [] => Nat.leb cur n
  | e :: r => Nat.leb cur (oe_start e) && Nat.leb (oe_start e) (oe_end e) && wf_sorted (oe_end e) n r
  end.

(* order-free formulation: non-empty ranges inside the text, pairwise disjoint *)
Definition oe_disjoint (x y : oedit) : bool :=
  Nat.leb (oe_end x) (oe_start y) || Nat.leb (oe_end y) (oe_start x).
Definition oe_inside (n : nat) (x : oedit) : bool :=
  Nat.ltb (oe_start x) (oe_end x) && Nat.leb (oe_end x) n.
Fixpoint pairwise_disjoint (es : list oedit) : bool :=
  match es with
  | [] => true
  | e :: r => forallb (oe_disjoint e) r && pairwise_disjoint r
  end.
Definition wf_set (n : nat) (es : list oedit) : bool :=
  forallb (oe_inside n) es && pairwise_disjoint es.

(* original offset i lies outside every edit range *)
Definition outside (es : list oedit) (i : nat) : bool :=
  forallb (fun e => Nat.ltb i (oe_start e) || Nat.leb (oe_end e) i) es.
(* where an original offset ends up: every edit that ends at or before i contributes
   (length of its replacement) - (length of its range) *)
Fixpoint added_before (es : list oedit) (i : nat) : nat :=
  match es with
  | [] => 0
  | e :: r => (if Nat.leb (oe_end e) i then length (oe_text e) else 0) + added_before r i
  end.
Fixpoint removed_before (es : list oedit) (i : nat) : nat :=
  match es with
  | [] => 0
  | e :: r => (if Nat.leb (oe_end e) i then oe_end e - oe_start e else 0) + removed_before r i
  end.
Definition new_index (es : list oedit) (i : nat) : nat := i + added_before es i - removed_before es i.
(* where the replacement of an edit starts in the new text (its own text not counted) *)
Definition new_start (es : list oedit) (e : oedit) : nat :=
  oe_start e + added_before es (oe_start e) - removed_before es (oe_start e).

(* ------------------------------------------------------------------------------------ *)
(* Token level                                                                            *)
(* ------------------------------------------------------------------------------------ *)
Open Scope N_scope.
Definition in_rng (lo hi c : N) : bool := (lo <=? c) && (c <=? hi).
(* VHDL basic identifier characters (ISO 8859-1 letters included) *)
Definition is_upper (c : char) : bool := in_rng 65 90 c || (in_rng 192 222 c && negb (c =? 215)).
Definition is_lower_l (c : char) : bool := in_rng 97 122 c || (in_rng 223 255 c && negb (c =? 247)).
Definition is_letter (c : char) : bool := is_upper c || is_lower_l c.
Definition is_digit (c : char) : bool := in_rng 48 57 c.
Definition is_ident_char (c : char) : bool := is_letter c || is_digit c || (c =? 95).
Definition lower (c : char) : char := if is_upper c then c + 32 else c.
Close Scope N_scope.

Fixpoint list_eqb (x y : list char) : bool :=
  match x, y with
  | [], [] => true
  | a :: x', b :: y' => N.eqb a b && list_eqb x' y'
  | _, _ => false
  end.
Definition names_eq (x y : list char) : bool := list_eqb (map lower x) (map lower y).

Definition sub (s : list char) (a b : nat) : list char := firstn (b - a) (skipn a s).
Definition char_at (s : list char) (i : nat) : option char := nth_error s i.
Definition ident_char_at (s : list char) (i : nat) : bool :=
  match char_at s i with Some c => is_ident_char c | None => false end.

(* [a, b) is exactly one basic-identifier token of s: a non-empty maximal run of
   identifier characters that starts with a letter *)
Definition ident_token (s : list char) (a b : nat) : bool :=
  Nat.ltb a b && Nat.leb b (length s)
  && forallb is_ident_char (sub s a b)
  && match char_at s a with Some c => is_letter c | None => false end
  && negb (match a with O => false | S a' => ident_char_at s a' end)
  && negb (ident_char_at s b).

(* a legal new name: basic identifier (hence no line break, no blank) *)
Definition valid_ident (n : list char) : bool :=
  match n with
  | [] => false
  | c :: _ => is_letter c && forallb is_ident_char n
  end.

(* one rename edit is fine: its range is exactly one identifier token spelled `old`
   (up to case) and its text is `new` *)
Definition rename_edit_ok (s old new : list char) (e : oedit) : bool :=
  ident_token s (oe_start e) (oe_end e)
  && names_eq (sub s (oe_start e) (oe_end e)) old
  && list_eqb (oe_text e) new.

(* the run-time checker used by checks/c09.py (through the extracted runner) *)
Definition rename_edits_ok (s old new : list char) (es : list oedit) : bool :=
  valid_ident new
  && wf_sorted 0 (length s) (sort_oe es)
  && forallb (rename_edit_ok s old new) es.

(* line structure *)
Definition count_lf (s : list char) : nat := length (filter (fun c => N.eqb c LF) s).
Definition line_of (s : list char) (i : nat) : nat := count_lf (firstn i s).
