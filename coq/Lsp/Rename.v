(* Lsp/Rename.v — executable model of vhdl_ls/src/vhdl_server/rename.rs.

   prepare_rename:  source  = project.get_source(uri_to_file_name(uri)?)?
                    (pos, ent) = project.item_at_cursor(source, cursor)?
                    Some(range of pos) iff ent.designator() is Designator::Identifier
   rename:          source  as above;  ent = project.find_declaration(source, cursor)?
                    for srcpos in project.find_all_references(ent):
                        changes.entry(uri of srcpos).or_default().push(TextEdit{range, new_name})
                    Some(WorkspaceEdit{changes})
   `find_all_references` is an input of the model (Search/ models it for C08); NOTHING is
   deduplicated between it and the edits: a position returned twice yields two identical
   edits (lemma `rename_keeps_duplicates`), which corrupt the text when applied
   (`C09_duplicate_edits_break`).  Hence the run-time check that no position is returned twice.
   `to_lsp_range`/`srcpos_to_location` are the identity on (line, character) pairs.

   A second, independent part of the file is a small REFERENCE semantics of name resolution
   (block-structured scopes, declare-before-use, inner hides outer) with alpha-renaming of one
   declaration, for the optional theorem `alpha_rename_preserves`.
   Definitions only; proofs in Lsp/EditsProofs.v. *)
From Coq Require Import List NArith Arith Bool.
Import ListNotations.
From RH Require Import Text.Contents Text.Splice Lsp.Edits.

(* ast::Designator *)
Inductive designator :=
| DIdentifier (name : list char)
| DOperatorSymbol (sym : list char)
| DCharacter (c : N)
| DAnonymous (n : N).

(* SrcPos: file (index into the project's file table = URI) and range *)
Record srcpos := { sp_file : N; sp_start : pos; sp_end : pos }.

(* the `?` chain in front of both handlers *)
Record request_ctx := {
  uri_is_file : bool;          (* uri_to_file_name(uri) is Some *)
  source_known : bool          (* project.get_source(..) is Some *)
}.
Definition ctx_ok (c : request_ctx) : bool := uri_is_file c && source_known c.

Definition prepare_rename (c : request_ctx) (item_at_cursor : option (srcpos * designator))
  : option (pos * pos) :=
  if ctx_ok c then
    match item_at_cursor with
    | Some (p, DIdentifier _) => Some (sp_start p, sp_end p)
    | Some (_, _) => None
    | None => None
    end
  else None.

Definition mk_edit (new_name : list char) (p : srcpos) : text_edit :=
  {| te_start := sp_start p; te_end := sp_end p; te_new := new_name |}.

(* HashMap<Url, Vec<TextEdit>>::entry(uri).or_default().push(e); modelled as an association
   list in first-insertion order (the hash order of the keys is not observable in JSON) *)
Fixpoint push_edit (m : list (N * list text_edit)) (f : N) (e : text_edit) : list (N * list text_edit) :=
  match m with
  | [] => [(f, [e])]
  | (g, es) :: r => if N.eqb f g then (g, es ++ [e]) :: r else (g, es) :: push_edit r f e
  end.

Definition rename_changes (new_name : list char) (refs : list srcpos) : list (N * list text_edit) :=
  fold_left (fun m p => push_edit m (sp_file p) (mk_edit new_name p)) refs [].

(* find_declaration = None -> None; otherwise the changes (possibly an empty map) *)
Definition rename (c : request_ctx) (declaration_found : bool) (find_all_references : list srcpos)
           (new_name : list char) : option (list (N * list text_edit)) :=
  if ctx_ok c && declaration_found then Some (rename_changes new_name find_all_references) else None.

(* the edits of one file *)
Definition edits_of (m : list (N * list text_edit)) (f : N) : list text_edit :=
  match find (fun x => N.eqb (fst x) f) m with Some (_, es) => es | None => [] end.
Definition refs_in (f : N) (refs : list srcpos) : list srcpos :=
  filter (fun p => N.eqb (sp_file p) f) refs.

(* a client applies the answer file by file *)
Definition apply_rename (s : list char) (f : N) (m : list (N * list text_edit)) : list char :=
  apply_edits s (edits_of m f).

(* ------------------------------------------------------------------------------------ *)
(* Reference semantics of name resolution with alpha-renaming                             *)
(* ------------------------------------------------------------------------------------ *)
(* A program is a sequence of items; scopes are properly nested regions.  Declarations and
   uses are identified by their index in the sequence (their "position"). *)
Inductive item :=
| IDecl (name : N)      (* declares `name` in the innermost open region *)
| IUse (name : N)       (* a use of `name` *)
| IEnter                (* opens a region *)
| ILeave.               (* closes the innermost region *)

(* environment: stack of regions, innermost first; a region maps names to declaration
   indices, latest first *)
Definition region := list (N * nat).
Fixpoint lookup_region (r : region) (n : N) : option nat :=
  match r with
  | [] => None
  | (m, d) :: r' => if N.eqb m n then Some d else lookup_region r' n
  end.
Fixpoint lookup_env (env : list region) (n : N) : option nat :=
  match env with
  | [] => None
  | r :: env' => match lookup_region r n with Some d => Some d | None => lookup_env env' n end
  end.

(* resolve: for every item index, the declaration a use denotes (None for non-uses and for
   unresolved uses).  `i` = index of the head of `p`. *)
Fixpoint resolve_from (env : list region) (i : nat) (p : list item) : list (option nat) :=
  match p with
  | [] => []
  | IDecl n :: r =>
      None :: resolve_from (match env with [] => [[(n, i)]] | g :: env' => ((n, i) :: g) :: env' end) (S i) r
  | IUse n :: r => lookup_env env n :: resolve_from env (S i) r
  | IEnter :: r => None :: resolve_from ([] :: env) (S i) r
  | ILeave :: r => None :: resolve_from (match env with [] => [] | _ :: env' => env' end) (S i) r
  end.
Definition resolve (p : list item) : list (option nat) := resolve_from [[]] 0 p.

(* every use is resolved: the analogue of "analyses without error diagnostics" *)
Definition item_is_use (x : item) : bool := match x with IUse _ => true | _ => false end.
Fixpoint all_resolved (p : list item) (r : list (option nat)) : bool :=
  match p, r with
  | [], [] => true
  | x :: p', y :: r' => (if item_is_use x then match y with Some _ => true | None => false end else true)
                        && all_resolved p' r'
  | _, _ => false
  end.
Definition valid_prog (p : list item) : bool := all_resolved p (resolve p).

(* rename declaration d to `new`: what a correct rename does — the declaration itself and
   exactly the uses that resolve to it *)
Fixpoint rename_items (d : nat) (new : N) (i : nat) (p : list item) (r : list (option nat)) : list item :=
  match p, r with
  | x :: p', y :: r' =>
      (match x with
       | IDecl n => if Nat.eqb i d then IDecl new else x
       | IUse n => match y with Some e => if Nat.eqb e d then IUse new else x | None => x end
       | _ => x
       end) :: rename_items d new (S i) p' r'
  | _, _ => p
  end.
Definition alpha_rename (d : nat) (new : N) (p : list item) : list item :=
  rename_items d new 0 p (resolve p).

Definition item_name (x : item) : option N :=
  match x with IDecl n => Some n | IUse n => Some n | _ => None end.
Definition fresh (new : N) (p : list item) : bool :=
  forallb (fun x => match item_name x with Some n => negb (N.eqb n new) | None => true end) p.
Definition is_decl_at (p : list item) (d : nat) : bool :=
  match nth_error p d with Some (IDecl _) => true | _ => false end.
