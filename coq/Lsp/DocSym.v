(* Lsp/DocSym.v — executable model of the document-symbol hierarchy:
   `EntHierarchy::{from_parent, from_ent, into_flat}` (vhdl_lang/src/analysis/root.rs) and of
   the pure part of `to_document_symbol` (vhdl_ls/src/vhdl_server.rs): `range` is the
   position of `ent.src_span` (`TokenAccess::get_span` = `SrcPos::combine` of the positions
   of the first and of the last token: min of the starts, max of the ends), `selection_range`
   is `ent.decl_pos()` or, for unnamed elements, the position of the first token.

   An entity is abstracted to the data these functions read: its id, the id of
   `parent_in_same_source()`, the ranges of the first and last token of its span and the
   range of its declaration position.  Names and symbol kinds are not modelled.
   The recursion of `from_ent` follows the parent relation of the arena, which the code
   trusts to be a forest; the model uses fuel with a distinct out-of-fuel result
   (`None`), excluded by `from_ent_total` for every acyclic parent relation.
   No proofs in this file. *)
From Coq Require Import List NArith Bool.
Import ListNotations.
From RH Require Import Lsp.SemTok.
Open Scope N_scope.

Record ent := Ent {
  e_id : N;
  e_parent : option N;      (* parent_in_same_source().map(|p| p.id()) *)
  e_first : range;          (* src_span.start_token.pos(ctx).range *)
  e_last : range;           (* src_span.end_token.pos(ctx).range *)
  e_decl : option range     (* decl_pos().map(|p| p.range) *)
}.

Definition pos_min (a b : pos) : pos := if pos_leb a b then a else b.
Definition pos_max (a b : pos) : pos := if pos_leb a b then b else a.
(* SrcPos::combine_into *)
Definition combine (a b : range) : range :=
  R (pos_min (rstart a) (rstart b)) (pos_max (rend a) (rend b)).

(* ent.src_span.pos(ctx).range() *)
Definition span (e : ent) : range := combine (e_first e) (e_last e).
(* ent.decl_pos().unwrap_or_else(|| ent.src_span.start_token.pos(ctx)).range *)
Definition selection (e : ent) : range :=
  match e_decl e with Some d => d | None => e_first e end.

Inductive hier := H : ent -> list hier -> hier.

(* by_parent.get(&id): the symbols whose parent_in_same_source is `id`, in list order *)
Definition is_child_of (id : N) (e : ent) : bool :=
  match e_parent e with Some p => p =? id | None => false end.
Definition children_of (symbols : list ent) (id : N) : list ent := filter (is_child_of id) symbols.

Fixpoint map_opt {A B : Type} (f : A -> option B) (l : list A) : option (list B) :=
  match l with
  | [] => Some []
  | x :: r => match f x, map_opt f r with
              | Some y, Some ys => Some (y :: ys)
              | _, _ => None
              end
  end.

(* EntHierarchy::from_ent; None = out of fuel *)
Fixpoint from_ent (fuel : nat) (symbols : list ent) (e : ent) : option hier :=
  match fuel with
  | O => None
  | S k => match map_opt (from_ent k symbols) (children_of symbols (e_id e)) with
           | Some cs => Some (H e cs)
           | None => None
           end
  end.

(* EntHierarchy::from_parent(parent, symbols): symbols without a parent in the same source
   are dropped (they stay in `symbols` after `retain`, which is then unused) *)
Definition from_parent (parent : ent) (symbols : list ent) : option hier :=
  from_ent (S (List.length symbols)) symbols parent.

(* EntHierarchy::into_flat *)
Fixpoint into_flat (h : hier) : list ent :=
  match h with
  | H e cs => e :: (fix fl (l : list hier) : list ent :=
                      match l with [] => [] | c :: r => into_flat c ++ fl r end) cs
  end.

(* DocumentSymbol { range, selection_range, children } *)
Inductive docsym := DS : range -> range -> list docsym -> docsym.
Definition ds_range (d : docsym) : range := match d with DS r _ _ => r end.
Definition ds_sel (d : docsym) : range := match d with DS _ s _ => s end.
Definition ds_children (d : docsym) : list docsym := match d with DS _ _ c => c end.

Fixpoint to_document_symbol (h : hier) : docsym :=
  match h with
  | H e cs => DS (span e) (selection e) (map to_document_symbol cs)
  end.

(* ---- specification vocabulary ---- *)
(* inner lies inside outer *)
Definition contains (outer inner : range) : bool :=
  pos_leb (rstart outer) (rstart inner) && pos_leb (rend inner) (rend outer).

(* selectionRange inside range, every child's range inside the range, recursively *)
Fixpoint nested (d : docsym) : bool :=
  match d with
  | DS r s cs => contains r s &&
                 (fix all (l : list docsym) : bool :=
                    match l with
                    | [] => true
                    | c :: t => contains r (ds_range c) && nested c && all t
                    end) cs
  end.

(* serialisation used by the runner: preorder with explicit child counts *)
Fixpoint ds_flat (d : docsym) : list (range * range * N) :=
  match d with
  | DS r s cs => (r, s, N.of_nat (List.length cs)) ::
                 (fix fl (l : list docsym) := match l with [] => [] | c :: t => ds_flat c ++ fl t end) cs
  end.
