(* Lsp/SemTokProofs.v — proofs about the model of semantic_tokens.rs (C16).
   Main results (pinned in Props/C16.v):
     enc_dec (decode after encode = the emitted sub-list, no u32 wrap),
     decode_encode, range_is_filter, multiline_skipped,
     sort_sorted / sort_perm / sort_stable, dedup facts,
     well_formed_raw (sorted + dedup'ed + encoded + decoded stream is well formed),
     well_formed_old_refuted / dedup_needed (finding F9). *)
From Coq Require Import List NArith Bool Lia Sorted Permutation.
Import ListNotations.
From RH Require Import Lsp.SemTok.
Open Scope N_scope.

#[local] Arguments N.add : simpl never.
#[local] Arguments N.sub : simpl never.
#[local] Arguments N.eqb : simpl never.
#[local] Arguments N.ltb : simpl never.
#[local] Arguments N.leb : simpl never.

(* boolean comparisons on N -> Prop, then lia *)
Ltac bprop :=
  repeat rewrite ?andb_true_iff, ?orb_true_iff, ?andb_false_iff, ?orb_false_iff, ?negb_true_iff,
         ?negb_false_iff, ?N.ltb_lt, ?N.leb_le, ?N.eqb_eq, ?N.ltb_ge, ?N.leb_gt, ?N.eqb_neq in *.
Ltac unf := unfold before, nonempty, wf_range, compat, range_eqb, pos_leb, pos_ltb, pos_eqb,
            overlaps_lines, single_line, touches in *.
Ltac dpos := repeat match goal with
  | p : pos |- _ => destruct p
  | r : range |- _ => destruct r
  | t : ctok |- _ => destruct t
  end; cbn [line chr rstart rend c_range c_type c_mods fst snd] in *.
Ltac solve_pos := unf; dpos; bprop; try lia.

(* ------------------------------------------------------------------------- *)
(* 1. The order on positions                                                  *)
(* ------------------------------------------------------------------------- *)
Lemma pos_leb_refl : forall a, pos_leb a a = true.
Proof. intros a. solve_pos. Qed.

Lemma pos_leb_trans : forall a b c, pos_leb a b = true -> pos_leb b c = true -> pos_leb a c = true.
Proof. intros a b c H1 H2. solve_pos. Qed.

Lemma pos_leb_total : forall a b, pos_leb a b = false -> pos_leb b a = true.
Proof. intros a b H. solve_pos. Qed.

Lemma pos_ltb_leb : forall a b, pos_ltb a b = true -> pos_leb a b = true.
Proof. intros a b H. solve_pos. Qed.

Lemma pos_lt_le_trans : forall a b c, pos_ltb a b = true -> pos_leb b c = true -> pos_ltb a c = true.
Proof. intros a b c H1 H2. solve_pos. Qed.

Lemma pos_le_lt_trans : forall a b c, pos_leb a b = true -> pos_ltb b c = true -> pos_ltb a c = true.
Proof. intros a b c H1 H2. solve_pos. Qed.

Lemma pos_ltb_irrefl : forall a, pos_ltb a a = false.
Proof. intros a. solve_pos. Qed.

Lemma pos_eqb_eq : forall a b, pos_eqb a b = true -> a = b.
Proof.
  intros [la ca] [lb cb] H. unfold pos_eqb in H. cbn [line chr] in H.
  apply andb_true_iff in H. destruct H as [H1 H2].
  apply N.eqb_eq in H1. apply N.eqb_eq in H2. subst. reflexivity.
Qed.

Lemma range_eqb_eq : forall a b, range_eqb a b = true -> a = b.
Proof.
  intros [sa ea] [sb eb] H. unfold range_eqb in H. cbn [rstart rend] in H.
  apply andb_true_iff in H. destruct H as [H1 H2].
  apply pos_eqb_eq in H1. apply pos_eqb_eq in H2. subst. reflexivity.
Qed.

Lemma range_eqb_refl : forall a, range_eqb a a = true.
Proof. intros a. solve_pos. Qed.

Lemma range_eqb_sym : forall a b, range_eqb a b = range_eqb b a.
Proof.
  intros a b. destruct (range_eqb a b) eqn:H1.
  - apply range_eqb_eq in H1. subst. symmetry. apply range_eqb_refl.
  - destruct (range_eqb b a) eqn:H2; [|reflexivity].
    apply range_eqb_eq in H2. subst. rewrite range_eqb_refl in H1. discriminate.
Qed.

Lemma before_trans : forall a b c,
  before a b = true -> nonempty b = true -> before b c = true -> before a c = true.
Proof. intros a b c H1 H2 H3. solve_pos. Qed.

Lemma nonempty_wf : forall r, nonempty r = true -> wf_range r = true.
Proof. intros r H. solve_pos. Qed.

(* ------------------------------------------------------------------------- *)
(* 2. Generic list facts                                                      *)
(* ------------------------------------------------------------------------- *)
Lemma filter_all : forall (A : Type) (p : A -> bool) (l : list A),
  Forall (fun x => p x = true) l -> filter p l = l.
Proof.
  intros A p l H. induction H as [|x l Hx Hl IH]; cbn [filter].
  - reflexivity.
  - rewrite Hx, IH. reflexivity.
Qed.

Lemma filter_filter : forall (A : Type) (p q : A -> bool) (l : list A),
  filter p (filter q l) = filter (fun x => q x && p x) l.
Proof.
  intros A p q l. induction l as [|x l IH]; cbn [filter].
  - reflexivity.
  - destruct (q x); cbn [filter andb].
    + destruct (p x); rewrite IH; reflexivity.
    + exact IH.
Qed.

Lemma filter_ext_in' : forall (A : Type) (p q : A -> bool) (l : list A),
  (forall x, In x l -> p x = q x) -> filter p l = filter q l.
Proof.
  intros A p q l H. induction l as [|x l IH]; cbn [filter].
  - reflexivity.
  - rewrite (H x (or_introl eq_refl)). rewrite IH.
    + reflexivity.
    + intros y Hy. apply H. right. exact Hy.
Qed.

Lemma SS_filter : forall (A : Type) (Rel : A -> A -> Prop) (p : A -> bool) (l : list A),
  StronglySorted Rel l -> StronglySorted Rel (filter p l).
Proof.
  intros A Rel p l H. induction H as [|x l Hl IH Hx]; cbn [filter].
  - constructor.
  - destruct (p x).
    + constructor; [exact IH|].
      apply Forall_forall. intros y Hy. apply filter_In in Hy. destruct Hy as [Hy _].
      rewrite Forall_forall in Hx. apply Hx. exact Hy.
    + exact IH.
Qed.

Lemma Forall_filter : forall (A : Type) (Q : A -> Prop) (p : A -> bool) (l : list A),
  Forall Q l -> Forall Q (filter p l).
Proof.
  intros A Q p l H. apply Forall_forall. intros x Hx. apply filter_In in Hx.
  destruct Hx as [Hx _]. rewrite Forall_forall in H. apply H. exact Hx.
Qed.

(* change the relation of a strongly sorted list using membership facts *)
Lemma SS_impl_in : forall (A : Type) (R1 R2 : A -> A -> Prop) (l : list A),
  StronglySorted R1 l ->
  (forall a b, In a l -> In b l -> R1 a b -> R2 a b) ->
  StronglySorted R2 l.
Proof.
  intros A R1 R2 l H. induction H as [|x l Hl IH Hx]; intros Himp.
  - constructor.
  - constructor.
    + apply IH. intros a b Ha Hb. apply Himp; right; assumption.
    + apply Forall_forall. intros y Hy. rewrite Forall_forall in Hx.
      apply Himp; [left; reflexivity|right; exact Hy|apply Hx; exact Hy].
Qed.

(* ------------------------------------------------------------------------- *)
(* 3. encode / decode                                                         *)
(* ------------------------------------------------------------------------- *)
Definition tle (a b : ctok) : Prop := pos_leb (rstart (c_range a)) (rstart (c_range b)) = true.
Definition emitted (f : option range) (t : ctok) : bool := keep f t && single_line t.

Lemma sub_u32_ok : forall a b, b <= a -> sub_u32 a b = (a - b, false).
Proof.
  intros a b H. unfold sub_u32. apply N.leb_le in H. rewrite H. reflexivity.
Qed.

Lemma sub_u32_wraps : forall a b, a < b -> sub_u32 a b = (a + U32 - b, true).
Proof.
  intros a b H. unfold sub_u32. apply N.leb_gt in H. rewrite H. reflexivity.
Qed.

(* The central lemma: from any loop state (pl, ps) that is not after the first token,
   on a list sorted by start whose ranges have start <= end, no subtraction of
   `encode` overflows and decoding from the same state returns exactly the tokens that
   pass the line filter and are on a single line. *)
Lemma enc_dec : forall f ts pl ps,
  StronglySorted tle ts ->
  Forall (fun t => wf_range (c_range t) = true) ts ->
  Forall (fun t => pos_leb (P pl ps) (rstart (c_range t)) = true) ts ->
  snd (encode_from pl ps f ts) = false /\
  decode_from pl ps (fst (encode_from pl ps f ts)) = filter (emitted f) ts.
Proof.
  intros f ts. induction ts as [|t r IH]; intros pl ps Hs Hw Hge.
  - cbn. split; reflexivity.
  - inversion Hs as [|t' r' Hsr Hall]; subst.
    inversion Hw as [|t' r' Hwt Hwr]; subst.
    inversion Hge as [|t' r' Hget Hger]; subst.
    cbn [encode_from filter]. unfold emitted at 1.
    destruct (keep f t) eqn:Hk; cbn [negb andb].
    2:{ apply IH; assumption. }
    destruct (single_line t) eqn:Hsl; cbn [negb].
    2:{ apply IH; assumption. }
    assert (Hlen : chr (rstart (c_range t)) <= chr (rend (c_range t))).
    { clear - Hwt Hsl. solve_pos. }
    assert (Hln : pl <= line (rstart (c_range t))).
    { clear - Hget. solve_pos. }
    rewrite (sub_u32_ok _ _ Hlen). rewrite (sub_u32_ok _ _ Hln).
    assert (Hr : Forall (fun t' => pos_leb (P (line (rstart (c_range t))) (chr (rstart (c_range t))))
                                   (rstart (c_range t')) = true) r).
    { clear - Hall. apply Forall_forall. intros y Hy. rewrite Forall_forall in Hall.
      specialize (Hall y Hy). unfold tle in Hall. destruct (rstart (c_range t)). exact Hall. }
    specialize (IH (line (rstart (c_range t))) (chr (rstart (c_range t))) Hsr Hwr Hr).
    destruct IH as [IHw IHd].
    assert (Htok : forall c', c' = chr (rstart (c_range t)) ->
       CT (R (P (pl + (line (rstart (c_range t)) - pl)) c')
             (P (pl + (line (rstart (c_range t)) - pl))
                (c' + (chr (rend (c_range t)) - chr (rstart (c_range t))))))
          (c_type t) (c_mods t) = t).
    { intros c' Hc. subst c'. clear - Hlen Hln Hsl.
      destruct t as [[[ls cs] [le ce]] ty mo]. unfold single_line in Hsl.
      cbn [c_range c_type c_mods rstart rend line chr] in *.
      apply N.eqb_eq in Hsl. subst le.
      replace (pl + (ls - pl)) with ls by lia.
      replace (cs + (ce - cs)) with ce by lia. reflexivity. }
    destruct (line (rstart (c_range t)) - pl =? 0) eqn:Hz.
    + assert (Hst : ps <= chr (rstart (c_range t))).
      { clear - Hget Hz Hln. apply N.eqb_eq in Hz. solve_pos. }
      rewrite (sub_u32_ok _ _ Hst).
      destruct (encode_from (line (rstart (c_range t))) (chr (rstart (c_range t))) f r) as [rest w] eqn:He.
      cbn [fst snd] in *. split.
      * rewrite IHw. reflexivity.
      * cbn [decode_from delta_line delta_start tlen token_type token_mods]. rewrite Hz.
        rewrite (Htok (ps + (chr (rstart (c_range t)) - ps))) by lia.
        f_equal.
        replace (pl + (line (rstart (c_range t)) - pl)) with (line (rstart (c_range t))) by lia.
        replace (ps + (chr (rstart (c_range t)) - ps)) with (chr (rstart (c_range t))) by lia.
        exact IHd.
    + destruct (encode_from (line (rstart (c_range t))) (chr (rstart (c_range t))) f r) as [rest w] eqn:He.
      cbn [fst snd] in *. split.
      * rewrite IHw. reflexivity.
      * cbn [decode_from delta_line delta_start tlen token_type token_mods]. rewrite Hz.
        rewrite (Htok (chr (rstart (c_range t)))) by reflexivity.
        f_equal.
        replace (pl + (line (rstart (c_range t)) - pl)) with (line (rstart (c_range t))) by lia.
        exact IHd.
Qed.

Lemma all_after_origin : forall ts,
  Forall (fun t => pos_leb (P 0 0) (rstart (c_range t)) = true) ts.
Proof.
  intros ts. apply Forall_forall. intros t _. solve_pos.
Qed.

(* any request: no wrap, the decoded answer is the emitted sub-list *)
Theorem encode_decode_general : forall ts f,
  StronglySorted tle ts ->
  Forall (fun t => wf_range (c_range t) = true) ts ->
  snd (encode ts f) = false /\ decode (fst (encode ts f)) = filter (emitted f) ts.
Proof.
  intros ts f Hs Hw. unfold encode, decode. apply enc_dec; [assumption|assumption|apply all_after_origin].
Qed.

Theorem decode_encode : forall ts,
  StronglySorted tle ts ->
  Forall (fun t => wf_range (c_range t) = true) ts ->
  Forall (fun t => single_line t = true) ts ->
  decode (fst (encode ts None)) = ts /\ snd (encode ts None) = false /\ encode_debug ts None = Some (fst (encode ts None)).
Proof.
  intros ts Hs Hw Hsl. destruct (encode_decode_general ts None Hs Hw) as [H1 H2].
  split; [|split].
  - rewrite H2. apply filter_all. unfold emitted. cbn [keep andb]. exact Hsl.
  - exact H1.
  - unfold encode_debug. destruct (encode ts None) as [d w]. cbn [snd fst] in *. rewrite H1. reflexivity.
Qed.

Theorem multiline_skipped : forall ts,
  StronglySorted tle ts ->
  Forall (fun t => wf_range (c_range t) = true) ts ->
  decode (fst (encode ts None)) = filter single_line ts /\ snd (encode ts None) = false.
Proof.
  intros ts Hs Hw. destruct (encode_decode_general ts None Hs Hw) as [H1 H2].
  split; [|exact H1]. rewrite H2. reflexivity.
Qed.

(* the range request: exactly the tokens of the full answer that touch the lines *)
Theorem range_is_filter : forall ts r,
  StronglySorted tle ts ->
  Forall (fun t => wf_range (c_range t) = true) ts ->
  decode (fst (encode ts (Some r))) = filter (touches r) (decode (fst (encode ts None)))
  /\ snd (encode ts (Some r)) = false.
Proof.
  intros ts r Hs Hw.
  destruct (encode_decode_general ts None Hs Hw) as [_ H2].
  destruct (encode_decode_general ts (Some r) Hs Hw) as [H3 H4].
  split; [|exact H3]. rewrite H2, H4. rewrite filter_filter.
  apply filter_ext_in'. intros x _. unfold emitted, touches. cbn [keep andb].
  apply andb_comm.
Qed.

(* on single-line tokens `touches` is "start line within the requested lines" *)
Lemma touches_single_line : forall r t, single_line t = true ->
  touches r t = (line (rstart r) <=? line (rstart (c_range t))) && (line (rstart (c_range t)) <=? line (rend r)).
Proof.
  intros r t H. unfold touches, overlaps_lines, single_line in *. apply N.eqb_eq in H. rewrite <- H.
  apply andb_comm.
Qed.

(* ------------------------------------------------------------------------- *)
(* 4. sort (stable insertion sort by start position)                          *)
(* ------------------------------------------------------------------------- *)
Section Sorting.
  Variable E : Type.
  Notation raw := (range * E)%type.
  Definition rle (a b : raw) : Prop := raw_leb a b = true.

  Lemma in_insert : forall (x y : raw) l, In y (insert x l) <-> y = x \/ In y l.
  Proof.
    intros x y l. induction l as [|z l IH]; cbn [insert].
    - cbn. intuition.
    - destruct (raw_leb x z).
      + cbn [In]. intuition.
      + cbn [In]. rewrite IH. intuition.
  Qed.

  Lemma insert_perm : forall (x : raw) l, Permutation (insert x l) (x :: l).
  Proof.
    intros x l. induction l as [|z l IH]; cbn [insert].
    - apply Permutation_refl.
    - destruct (raw_leb x z).
      + apply Permutation_refl.
      + eapply Permutation_trans; [apply perm_skip; exact IH|apply perm_swap].
  Qed.

  Lemma sort_perm : forall l : list raw, Permutation (sort l) l.
  Proof.
    induction l as [|x l IH]; cbn [sort].
    - constructor.
    - eapply Permutation_trans; [apply insert_perm|apply perm_skip; exact IH].
  Qed.

  Lemma in_sort : forall (x : raw) l, In x (sort l) <-> In x l.
  Proof.
    intros x l. split; intros H.
    - eapply Permutation_in; [apply sort_perm|exact H].
    - eapply Permutation_in; [apply Permutation_sym; apply sort_perm|exact H].
  Qed.

  Lemma insert_sorted : forall (x : raw) l, StronglySorted rle l -> StronglySorted rle (insert x l).
  Proof.
    intros x l H. induction H as [|z l Hl IH Hz]; cbn [insert].
    - constructor; constructor.
    - destruct (raw_leb x z) eqn:Hxz.
      + constructor.
        * constructor; assumption.
        * constructor; [exact Hxz|].
          apply Forall_forall. intros y Hy. rewrite Forall_forall in Hz. specialize (Hz y Hy).
          unfold rle, raw_leb in *. eapply pos_leb_trans; eassumption.
      + constructor; [exact IH|].
        apply Forall_forall. intros y Hy. apply in_insert in Hy. destruct Hy as [Hy|Hy].
        * subst y. unfold rle, raw_leb in *. apply pos_leb_total. exact Hxz.
        * rewrite Forall_forall in Hz. apply Hz. exact Hy.
  Qed.

  Lemma sort_sorted : forall l : list raw, StronglySorted rle (sort l).
  Proof.
    induction l as [|x l IH]; cbn [sort].
    - constructor.
    - apply insert_sorted. exact IH.
  Qed.

  (* sorting a sorted list changes nothing *)
  Lemma sort_id : forall l : list raw, StronglySorted rle l -> sort l = l.
  Proof.
    intros l H. induction H as [|x l Hl IH Hx]; cbn [sort].
    - reflexivity.
    - rewrite IH. destruct l as [|y l]; cbn [insert].
      + reflexivity.
      + inversion Hx as [|y' l' Hxy _]; subst. unfold rle in Hxy. rewrite Hxy. reflexivity.
  Qed.

  (* stability: the elements with a given start position keep their relative order *)
  Definition has_start (k : pos) (a : raw) : bool := pos_eqb (rstart (fst a)) k.

  Lemma filter_insert_other : forall k (x : raw) l,
    has_start k x = false -> filter (has_start k) (insert x l) = filter (has_start k) l.
  Proof.
    intros k x l Hx. induction l as [|z l IH]; cbn [insert filter].
    - rewrite Hx. reflexivity.
    - destruct (raw_leb x z); cbn [filter].
      + rewrite Hx. reflexivity.
      + rewrite IH. reflexivity.
  Qed.

  Lemma filter_insert_same : forall k (x : raw) l,
    has_start k x = true -> filter (has_start k) (insert x l) = x :: filter (has_start k) l.
  Proof.
    intros k x l Hx. induction l as [|z l IH]; cbn [insert filter].
    - rewrite Hx. reflexivity.
    - destruct (raw_leb x z) eqn:Hxz; cbn [filter].
      + rewrite Hx. reflexivity.
      + assert (Hz : has_start k z = false).
        { unfold has_start in *. apply pos_eqb_eq in Hx. subst k.
          destruct (pos_eqb (rstart (fst z)) (rstart (fst x))) eqn:Hq; [|reflexivity].
          apply pos_eqb_eq in Hq. unfold raw_leb in Hxz. rewrite Hq in Hxz.
          rewrite pos_leb_refl in Hxz. discriminate. }
        rewrite Hz. exact IH.
  Qed.

  Lemma sort_stable : forall k (l : list raw),
    filter (has_start k) (sort l) = filter (has_start k) l.
  Proof.
    intros k l. induction l as [|x l IH]; cbn [sort filter].
    - reflexivity.
    - destruct (has_start k x) eqn:Hx.
      + rewrite filter_insert_same by exact Hx. rewrite IH. reflexivity.
      + rewrite filter_insert_other by exact Hx. exact IH.
  Qed.

  (* ----------------------------------------------------------------------- *)
  (* 5. dedup                                                                 *)
  (* ----------------------------------------------------------------------- *)
  Definition R1 (a b : raw) : Prop := range_eqb (fst a) (fst b) = true \/ before (fst a) (fst b) = true.
  Definition R2 (a b : raw) : Prop := before (fst a) (fst b) = true.
  Definition ne (a : raw) : Prop := nonempty (fst a) = true.

  Lemma in_dedup_from : forall l (prev x : raw), In x (dedup_from prev l) -> In x l.
  Proof.
    induction l as [|y l IH]; intros prev x H; cbn [dedup_from] in H.
    - contradiction.
    - destruct (same_pos y prev).
      + right. eapply IH. exact H.
      + destruct H as [H|H]; [left; exact H|right; eapply IH; exact H].
  Qed.

  Lemma in_dedup : forall l (x : raw), In x (dedup l) -> In x l.
  Proof.
    intros [|y l] x H; cbn [dedup] in H.
    - contradiction.
    - destruct H as [H|H]; [left; exact H|right; eapply in_dedup_from; exact H].
  Qed.

  (* dedup keeps every position *)
  Lemma dedup_from_ranges : forall l (prev : raw) r,
    (In r (map fst (dedup_from prev l)) \/ r = fst prev) <-> (In r (map fst l) \/ r = fst prev).
  Proof.
    induction l as [|y l IH]; intros prev r; cbn [dedup_from map In].
    - tauto.
    - destruct (same_pos y prev) eqn:Hs.
      + unfold same_pos in Hs. apply range_eqb_eq in Hs. rewrite IH. rewrite Hs.
        split; intros H.
        * destruct H as [H|H]; [left; right; exact H|right; exact H].
        * destruct H as [[H|H]|H]; [right; symmetry; exact H|left; exact H|right; exact H].
      + cbn [map In]. specialize (IH y r). split; intros H.
        * destruct H as [[H|H]|H].
          -- left; left; exact H.
          -- destruct (proj1 IH (or_introl H)) as [H'|H']; [left; right; exact H'|left; left; symmetry; exact H'].
          -- right; exact H.
        * destruct H as [[H|H]|H].
          -- left; left; exact H.
          -- destruct (proj2 IH (or_introl H)) as [H'|H']; [left; right; exact H'|left; left; symmetry; exact H'].
          -- right; exact H.
  Qed.

  Lemma dedup_ranges : forall (l : list raw) r, In r (map fst (dedup l)) <-> In r (map fst l).
  Proof.
    intros [|y l] r; cbn [dedup map In].
    - tauto.
    - pose proof (dedup_from_ranges l y r) as H. split; intros H'.
      + destruct H' as [H'|H']; [left; exact H'|].
        destruct (proj1 H (or_introl H')) as [H''|H'']; [right; exact H''|left; symmetry; exact H''].
      + destruct H' as [H'|H']; [left; exact H'|].
        destruct (proj2 H (or_introl H')) as [H''|H'']; [right; exact H''|left; symmetry; exact H''].
  Qed.

  Lemma dedup_from_sorted : forall l (prev : raw),
    ne prev -> Forall ne l -> Forall (R1 prev) l -> StronglySorted R1 l ->
    Forall (R2 prev) (dedup_from prev l) /\ StronglySorted R2 (dedup_from prev l).
  Proof.
    induction l as [|x l IH]; intros prev Hp Hne Hall Hs; cbn [dedup_from].
    - split; constructor.
    - inversion Hne as [|x' l' Hnx Hnl]; subst.
      inversion Hall as [|x' l' Hpx Hpl]; subst.
      inversion Hs as [|x' l' Hsl Hxl]; subst.
      destruct (same_pos x prev) eqn:Hsame.
      + apply IH; assumption.
      + assert (Hb : before (fst prev) (fst x) = true).
        { destruct Hpx as [Hq|Hq]; [|exact Hq].
          unfold same_pos in Hsame. rewrite range_eqb_sym in Hsame. rewrite Hq in Hsame. discriminate. }
        destruct (IH x Hnx Hnl Hxl Hsl) as [IH1 IH2].
        split.
        * constructor; [exact Hb|].
          apply Forall_forall. intros y Hy. rewrite Forall_forall in IH1. specialize (IH1 y Hy).
          unfold R2 in *. eapply before_trans; [exact Hb|exact Hnx|exact IH1].
        * constructor; assumption.
  Qed.

  Lemma dedup_sorted : forall l : list raw,
    Forall ne l -> StronglySorted R1 l -> StronglySorted R2 (dedup l).
  Proof.
    intros [|x l] Hne Hs; cbn [dedup].
    - constructor.
    - inversion Hne as [|x' l' Hnx Hnl]; subst.
      inversion Hs as [|x' l' Hsl Hxl]; subst.
      destruct (dedup_from_sorted l x Hnx Hnl Hxl Hsl) as [H1 H2].
      constructor; assumption.
  Qed.

  (* a list sorted by start whose positions are pairwise identical-or-disjoint and
     non-empty: earlier elements are identical to or end before later ones *)
  Lemma sorted_compat_R1 : forall l : list raw,
    StronglySorted rle l ->
    (forall a, In a l -> ne a) ->
    (forall a b, In a l -> In b l -> compat (fst a) (fst b) = true) ->
    StronglySorted R1 l.
  Proof.
    intros l Hs Hne Hc. eapply SS_impl_in; [exact Hs|].
    intros a b Ha Hb Hab. specialize (Hc a b Ha Hb).
    pose proof (Hne a Ha) as Hna. pose proof (Hne b Hb) as Hnb.
    unfold R1, rle, raw_leb, ne in *.
    unfold compat in Hc. apply orb_true_iff in Hc. destruct Hc as [Hc|Hc].
    - apply orb_true_iff in Hc. destruct Hc as [Hc|Hc]; [left; exact Hc|right; exact Hc].
    - exfalso. clear - Hab Hc Hnb.
      destruct (fst a) as [[al1 ac1] [al2 ac2]]. destruct (fst b) as [[bl1 bc1] [bl2 bc2]].
      unfold before, nonempty, pos_leb, pos_ltb in *. cbn [rstart rend line chr] in *. bprop. lia.
  Qed.

  (* ----------------------------------------------------------------------- *)
  (* 6. filter_map to_cached                                                  *)
  (* ----------------------------------------------------------------------- *)
  Variable classify : E -> option (N * N).

  Lemma to_cached_range : forall (x : raw) t, to_cached classify x = Some t -> c_range t = fst x.
  Proof.
    intros x t H. unfold to_cached in H. destruct (classify (snd x)) as [[ty mo]|]; [|discriminate].
    inversion H. reflexivity.
  Qed.

  Lemma in_filter_map : forall (l : list raw) t,
    In t (filter_map (to_cached classify) l) -> exists x, In x l /\ to_cached classify x = Some t.
  Proof.
    induction l as [|x l IH]; intros t H; cbn [filter_map] in H.
    - contradiction.
    - destruct (to_cached classify x) as [t'|] eqn:Hx.
      + destruct H as [H|H].
        * subst t'. exists x. split; [left; reflexivity|exact Hx].
        * destruct (IH t H) as [y [Hy1 Hy2]]. exists y. split; [right; exact Hy1|exact Hy2].
      + destruct (IH t H) as [y [Hy1 Hy2]]. exists y. split; [right; exact Hy1|exact Hy2].
  Qed.

  Definition tbefore (a b : ctok) : Prop := before (c_range a) (c_range b) = true.

  Lemma filter_map_sorted : forall l : list raw,
    StronglySorted R2 l -> StronglySorted tbefore (filter_map (to_cached classify) l).
  Proof.
    intros l H. induction H as [|x l Hl IH Hx]; cbn [filter_map].
    - constructor.
    - destruct (to_cached classify x) as [t|] eqn:Htx; [|exact IH].
      constructor; [exact IH|].
      apply Forall_forall. intros u Hu. apply in_filter_map in Hu. destruct Hu as [y [Hy1 Hy2]].
      rewrite Forall_forall in Hx. specialize (Hx y Hy1). unfold tbefore, R2 in *.
      rewrite (to_cached_range _ _ Htx). rewrite (to_cached_range _ _ Hy2). exact Hx.
  Qed.

  (* when nothing is dropped by `classify`, the cached positions are exactly the
     collected ones *)
  Lemma filter_map_ranges_total : forall l : list raw,
    (forall e, classify e <> None) ->
    map c_range (filter_map (to_cached classify) l) = map fst l.
  Proof.
    intros l Htot. induction l as [|x l IH]; cbn [filter_map map].
    - reflexivity.
    - unfold to_cached at 1. destruct (classify (snd x)) as [[ty mo]|] eqn:Hc.
      + cbn [map c_range]. rewrite IH. reflexivity.
      + exfalso. exact (Htot _ Hc).
  Qed.

  Theorem map_and_sort_positions : forall (l : list raw) r,
    (forall e, classify e <> None) ->
    (In r (map c_range (map_and_sort classify l)) <-> In r (map fst l)).
  Proof.
    intros l r Htot. unfold map_and_sort. rewrite filter_map_ranges_total by exact Htot.
    rewrite dedup_ranges. split; intros H.
    - apply in_map_iff in H. destruct H as [x [Hx1 Hx2]].
      apply in_map_iff. exists x. split; [exact Hx1|exact (proj1 (in_sort x l) Hx2)].
    - apply in_map_iff in H. destruct H as [x [Hx1 Hx2]].
      apply in_map_iff. exists x. split; [exact Hx1|exact (proj2 (in_sort x l) Hx2)].
  Qed.

  (* ----------------------------------------------------------------------- *)
  (* 7. well-formedness of the answer                                         *)
  (* ----------------------------------------------------------------------- *)
  Lemma map_and_sort_sorted : forall l : list raw,
    (forall a, In a l -> nonempty (fst a) = true) ->
    (forall a b, In a l -> In b l -> compat (fst a) (fst b) = true) ->
    StronglySorted tbefore (map_and_sort classify l) /\
    Forall (fun t => nonempty (c_range t) = true) (map_and_sort classify l).
  Proof.
    intros l Hne Hc. unfold map_and_sort.
    assert (Hne' : forall a, In a (sort l) -> ne a).
    { intros a Ha. apply Hne. exact (proj1 (in_sort a l) Ha). }
    assert (Hc' : forall a b, In a (sort l) -> In b (sort l) -> compat (fst a) (fst b) = true).
    { intros a b Ha Hb. apply Hc; [exact (proj1 (in_sort a l) Ha)|exact (proj1 (in_sort b l) Hb)]. }
    pose proof (sorted_compat_R1 (sort l) (sort_sorted l) Hne' Hc') as H1.
    assert (Hf : Forall ne (sort l)).
    { apply Forall_forall. exact Hne'. }
    pose proof (dedup_sorted (sort l) Hf H1) as H2.
    split.
    - apply filter_map_sorted. exact H2.
    - apply Forall_forall. intros t Ht. apply in_filter_map in Ht. destruct Ht as [x [Hx1 Hx2]].
      rewrite (to_cached_range _ _ Hx2). apply in_dedup in Hx1. apply Hne'. exact Hx1.
  Qed.
End Sorting.

Arguments rle {E}.

Lemma tbefore_tle : forall l,
  StronglySorted tbefore l -> Forall (fun t => nonempty (c_range t) = true) l -> StronglySorted tle l.
Proof.
  intros l Hs Hn. eapply SS_impl_in; [exact Hs|].
  intros a b Ha Hb Hab. rewrite Forall_forall in Hn. pose proof (Hn a Ha) as Hna.
  unfold tbefore, tle in *. clear - Hab Hna. solve_pos.
Qed.

Lemma ends_before_all_true : forall a l,
  Forall (fun b => before a (c_range b) = true) l -> ends_before_all a l = true.
Proof.
  intros a l H. induction H as [|b l Hb Hl IH]; cbn [ends_before_all].
  - reflexivity.
  - rewrite Hb, IH. reflexivity.
Qed.

Lemma well_formed_stream_true : forall l,
  StronglySorted tbefore l ->
  Forall (fun t => nonempty (c_range t) = true) l ->
  Forall (fun t => single_line t = true) l ->
  well_formed_stream l = true.
Proof.
  intros l Hs. induction Hs as [|a l Hl IH Ha]; intros Hn Hsl; cbn [well_formed_stream].
  - reflexivity.
  - inversion Hn as [|a' l' Hna Hnl]; subst. inversion Hsl as [|a' l' Hsa Hsl']; subst.
    rewrite Hna, Hsa, (ends_before_all_true _ _ Ha), (IH Hnl Hsl'). reflexivity.
Qed.

Lemma strictly_increasing_true : forall l,
  StronglySorted tbefore l ->
  Forall (fun t => nonempty (c_range t) = true) l ->
  strictly_increasing l = true.
Proof.
  intros l Hs. induction Hs as [|a l Hl IH Ha]; intros Hn.
  - reflexivity.
  - inversion Hn as [|a' l' Hna Hnl]; subst. cbn [strictly_increasing].
    destruct l as [|b l]; [reflexivity|].
    inversion Ha as [|b' l' Hab _]; subst. rewrite (IH Hnl), andb_true_r.
    unfold tbefore in Hab. clear - Hab Hna. solve_pos.
Qed.

(* a well formed stream read back as a property of neighbours and elements *)
Lemma well_formed_stream_spec : forall l, well_formed_stream l = true ->
  StronglySorted tbefore l /\ Forall (fun t => nonempty (c_range t) = true /\ single_line t = true) l.
Proof.
  induction l as [|a l IH]; intros H; cbn [well_formed_stream] in H.
  - split; constructor.
  - apply andb_true_iff in H. destruct H as [H H4]. apply andb_true_iff in H. destruct H as [H H3].
    apply andb_true_iff in H. destruct H as [H1 H2]. destruct (IH H4) as [IH1 IH2].
    split.
    + constructor; [exact IH1|]. clear - H3. induction l as [|b l IHl]; [constructor|].
      cbn [ends_before_all] in H3. apply andb_true_iff in H3. destruct H3 as [Hb Hr].
      constructor; [exact Hb|apply IHl; exact Hr].
    + constructor; [split; assumption|exact IH2].
Qed.

(* The whole pipeline: positions collected in any order, possibly several times, but
   pairwise identical or disjoint and non-empty (one position per lexical token):
   for the full and for every range request nothing wraps and the decoded stream is
   strictly increasing, non-overlapping, single-line. *)
Theorem well_formed_raw : forall (E : Type) (classify : E -> option (N * N)) (l : list (range * E)) f,
  (forall a, In a l -> nonempty (fst a) = true) ->
  (forall a b, In a l -> In b l -> compat (fst a) (fst b) = true) ->
  let out := encode (map_and_sort classify l) f in
  snd out = false /\
  well_formed_stream (decode (fst out)) = true /\
  strictly_increasing (decode (fst out)) = true.
Proof.
  intros E classify l f Hne Hc out.
  destruct (map_and_sort_sorted E classify l Hne Hc) as [Hs Hn].
  pose proof (tbefore_tle _ Hs Hn) as Htle.
  assert (Hw : Forall (fun t => wf_range (c_range t) = true) (map_and_sort classify l)).
  { apply Forall_forall. intros t Ht. rewrite Forall_forall in Hn. apply nonempty_wf. apply Hn. exact Ht. }
  destruct (encode_decode_general _ f Htle Hw) as [H1 H2].
  subst out. split; [exact H1|]. rewrite H2.
  assert (Hs' : StronglySorted tbefore (filter (emitted f) (map_and_sort classify l))).
  { apply SS_filter. exact Hs. }
  assert (Hn' : Forall (fun t => nonempty (c_range t) = true) (filter (emitted f) (map_and_sort classify l))).
  { apply Forall_filter. exact Hn. }
  split.
  - apply well_formed_stream_true; [exact Hs'|exact Hn'|].
    apply Forall_forall. intros t Ht. apply filter_In in Ht. destruct Ht as [_ Ht].
    unfold emitted in Ht. apply andb_true_iff in Ht. destruct Ht as [_ Ht]. exact Ht.
  - apply strictly_increasing_true; assumption.
Qed.

(* ------------------------------------------------------------------------- *)
(* 8. The pre-fix code (no dedup): finding F9                                 *)
(* ------------------------------------------------------------------------- *)
Definition cls0 (_ : unit) : option (N * N) := Some (7, 0).
(* `entity e` analysed once per library: the position of `e` is collected twice *)
Definition f9_raw : list (range * unit) :=
  [ (R (P 0 7) (P 0 8), tt); (R (P 2 11) (P 2 12), tt);
    (R (P 0 7) (P 0 8), tt); (R (P 2 11) (P 2 12), tt) ].

Lemma f9_hyps : (forall a, In a f9_raw -> nonempty (fst a) = true) /\
                (forall a b, In a f9_raw -> In b f9_raw -> compat (fst a) (fst b) = true).
Proof.
  split.
  - intros a Ha. cbn in Ha. intuition; subst; reflexivity.
  - intros a b Ha Hb. cbn in Ha, Hb. intuition; subst; reflexivity.
Qed.

Theorem dedup_needed :
  flatten (fst (semantic_tokens_full_old cls0 f9_raw)) = [0; 7; 1; 7; 0;  0; 0; 1; 7; 0;  2; 11; 1; 7; 0;  0; 0; 1; 7; 0]
  /\ flatten (fst (semantic_tokens_full cls0 f9_raw)) = [0; 7; 1; 7; 0;  2; 11; 1; 7; 0].
Proof. split; vm_compute; reflexivity. Qed.

Theorem well_formed_old_refuted :
  exists (E : Type) (classify : E -> option (N * N)) (l : list (range * E)),
    (forall a, In a l -> nonempty (fst a) = true) /\
    (forall a b, In a l -> In b l -> compat (fst a) (fst b) = true) /\
    well_formed_stream (decode (fst (encode (map_and_sort_old classify l) None))) = false /\
    strictly_increasing (decode (fst (encode (map_and_sort_old classify l) None))) = false.
Proof.
  exists unit, cls0, f9_raw. destruct f9_hyps as [H1 H2].
  split; [exact H1|]. split; [exact H2|]. split; vm_compute; reflexivity.
Qed.

(* unsorted input to `encode` (i.e. without the sort of map_and_sort) wraps in release
   and panics in debug: the sort is needed too *)
Theorem unsorted_wraps :
  snd (encode [CT (R (P 3 4) (P 3 5)) 0 0; CT (R (P 1 2) (P 1 3)) 0 0] None) = true /\
  encode_debug [CT (R (P 3 4) (P 3 5)) 0 0; CT (R (P 1 2) (P 1 3)) 0 0] None = None /\
  flatten (fst (encode [CT (R (P 3 4) (P 3 5)) 0 0; CT (R (P 1 2) (P 1 3)) 0 0] None))
    = [3; 4; 1; 0; 0;  4294967294; 2; 1; 0; 0].
Proof. repeat split; vm_compute; reflexivity. Qed.

(* non-vacuity of the hypotheses of decode_encode / range_is_filter / well_formed_raw *)
Definition ex_tokens : list ctok :=
  [ CT (R (P 0 8) (P 0 12)) 7 0; CT (R (P 1 4) (P 1 8)) 7 0; CT (R (P 1 9) (P 1 23)) 7 0;
    CT (R (P 3 2) (P 4 1)) 5 0;  (* multi-line: skipped *)
    CT (R (P 6 0) (P 6 3)) 10 1 ].
Lemma ex_tokens_hyps :
  StronglySorted tle ex_tokens /\ Forall (fun t => wf_range (c_range t) = true) ex_tokens.
Proof.
  split.
  - repeat (constructor; [|repeat (constructor; [reflexivity|]); try constructor]). constructor.
  - repeat (constructor; [reflexivity|]). constructor.
Qed.
Lemma ex_tokens_values :
  flatten (fst (encode ex_tokens None)) = [0; 8; 4; 7; 0;  1; 4; 4; 7; 0;  0; 5; 14; 7; 0;  5; 0; 3; 10; 1]
  /\ flatten (fst (encode ex_tokens (Some (R (P 1 0) (P 3 0))))) = [1; 4; 4; 7; 0;  0; 5; 14; 7; 0]
  /\ decode (fst (encode ex_tokens (Some (R (P 1 0) (P 3 0)))))
     = [CT (R (P 1 4) (P 1 8)) 7 0; CT (R (P 1 9) (P 1 23)) 7 0].
Proof. repeat split; vm_compute; reflexivity. Qed.

Theorem sort_is_stable_sort : forall (E : Type) (l : list (range * E)),
  StronglySorted rle (sort l) /\ Permutation (sort l) l /\
  (forall k, filter (has_start E k) (sort l) = filter (has_start E k) l).
Proof.
  intros E l. split; [exact (sort_sorted E l)|split; [exact (sort_perm E l)|]].
  intros k. exact (sort_stable E k l).
Qed.

(* ------------------------------------------------------------------------- *)
(* 9. Document symbols (model in Lsp/DocSym.v)                                *)
(* ------------------------------------------------------------------------- *)
From RH Require Import Lsp.DocSym.

Lemma contains_refl : forall r, contains r r = true.
Proof. intros r. unfold contains. rewrite !pos_leb_refl. reflexivity. Qed.

Lemma contains_trans : forall a b c, contains a b = true -> contains b c = true -> contains a c = true.
Proof.
  intros a b c H1 H2. unfold contains in *.
  apply andb_true_iff in H1. destruct H1 as [H1 H1']. apply andb_true_iff in H2. destruct H2 as [H2 H2'].
  rewrite (pos_leb_trans _ _ _ H1 H2), (pos_leb_trans _ _ _ H2' H1'). reflexivity.
Qed.

Lemma pos_min_le_l : forall a b, pos_leb (pos_min a b) a = true.
Proof.
  intros a b. unfold pos_min. destruct (pos_leb a b) eqn:H.
  - apply pos_leb_refl.
  - apply pos_leb_total. exact H.
Qed.

Lemma pos_max_ge_l : forall a b, pos_leb a (pos_max a b) = true.
Proof.
  intros a b. unfold pos_max. destruct (pos_leb a b) eqn:H.
  - exact H.
  - apply pos_leb_refl.
Qed.

(* the span of an entity contains its first token: for unnamed elements (processes,
   loops, ...) the selection range is inside the range without any hypothesis *)
Lemma span_contains_first : forall e, contains (span e) (e_first e) = true.
Proof.
  intros e. unfold contains, span, combine. cbn [rstart rend].
  rewrite pos_min_le_l, pos_max_ge_l. reflexivity.
Qed.

Theorem selection_unnamed : forall e, e_decl e = None -> contains (span e) (selection e) = true.
Proof.
  intros e H. unfold selection. rewrite H. apply span_contains_first.
Qed.

Lemma in_children_of : forall symbols id c,
  In c (children_of symbols id) -> In c symbols /\ e_parent c = Some id.
Proof.
  intros symbols id c H. unfold children_of in H. apply filter_In in H. destruct H as [H1 H2].
  split; [exact H1|]. unfold is_child_of in H2. destruct (e_parent c) as [p|]; [|discriminate].
  apply N.eqb_eq in H2. subst. reflexivity.
Qed.

Lemma map_opt_Forall2 : forall (A B : Type) (f : A -> option B) l ys,
  map_opt f l = Some ys -> Forall2 (fun x y => f x = Some y) l ys.
Proof.
  intros A B f l. induction l as [|x l IH]; intros ys H; cbn [map_opt] in H.
  - inversion H. constructor.
  - destruct (f x) as [y|] eqn:Hx; [|discriminate].
    destruct (map_opt f l) as [ys'|] eqn:Hl; [|discriminate].
    inversion H. subst. constructor; [exact Hx|apply IH; reflexivity].
Qed.

Lemma map_opt_total : forall (A B : Type) (f : A -> option B) l,
  (forall x, In x l -> exists y, f x = Some y) -> exists ys, map_opt f l = Some ys.
Proof.
  intros A B f l. induction l as [|x l IH]; intros H; cbn [map_opt].
  - exists []. reflexivity.
  - destruct (H x (or_introl eq_refl)) as [y Hy]. rewrite Hy.
    destruct IH as [ys Hys].
    + intros z Hz. apply H. right. exact Hz.
    + rewrite Hys. exists (y :: ys). reflexivity.
Qed.

Lemma from_ent_root : forall fuel symbols e h,
  from_ent fuel symbols e = Some h -> exists cs, h = H e cs.
Proof.
  intros [|k] symbols e h Hf; cbn [from_ent] in Hf.
  - discriminate.
  - destruct (map_opt (from_ent k symbols) (children_of symbols (e_id e))) as [cs|]; [|discriminate].
    inversion Hf. exists cs. reflexivity.
Qed.

Lemma nested_DS : forall r s cs,
  contains r s = true ->
  Forall (fun c => contains r (ds_range c) = true /\ nested c = true) cs ->
  nested (DS r s cs) = true.
Proof.
  intros r s cs Hs Hc. cbn [nested]. rewrite Hs. cbn [andb].
  induction Hc as [|c cs [Hc1 Hc2] Hcs IH].
  - reflexivity.
  - rewrite Hc1, Hc2. cbn [andb]. exact IH.
Qed.

Lemma nested_DS_inv : forall r s cs, nested (DS r s cs) = true ->
  contains r s = true /\ Forall (fun c => contains r (ds_range c) = true /\ nested c = true) cs.
Proof.
  intros r s cs Hn. cbn [nested] in Hn. apply andb_true_iff in Hn. destruct Hn as [Hs Hc].
  split; [exact Hs|]. induction cs as [|c cs IH].
  - constructor.
  - apply andb_true_iff in Hc. destruct Hc as [Hc Hr]. apply andb_true_iff in Hc. destruct Hc as [Hc1 Hc2].
    constructor; [split; assumption|apply IH; exact Hr].
Qed.

(* If the span of every entity contains its declaration position and the spans of the
   entities whose parent it is, then the document symbols are nested:
   selectionRange inside range inside the parent's range, recursively. *)
Theorem hierarchy_nested : forall symbols root,
  (forall x, In x (root :: symbols) -> contains (span x) (selection x) = true) ->
  (forall c p, In c symbols -> In p (root :: symbols) -> e_parent c = Some (e_id p) ->
               contains (span p) (span c) = true) ->
  forall fuel e h, In e (root :: symbols) -> from_ent fuel symbols e = Some h ->
  nested (to_document_symbol h) = true.
Proof.
  intros symbols root Hsel Hpar fuel. induction fuel as [|k IH]; intros e h He Hf; cbn [from_ent] in Hf.
  - discriminate.
  - destruct (map_opt (from_ent k symbols) (children_of symbols (e_id e))) as [cs|] eqn:Hm; [|discriminate].
    inversion Hf. subst h. cbn [to_document_symbol].
    apply nested_DS; [apply Hsel; exact He|].
    apply map_opt_Forall2 in Hm.
    assert (Hch : forall c, In c (children_of symbols (e_id e)) -> In c symbols /\ e_parent c = Some (e_id e)).
    { intros c Hc. apply in_children_of. exact Hc. }
    remember (children_of symbols (e_id e)) as l0 eqn:Hl0. clear Hl0 Hf.
    revert Hch. induction Hm as [|c hc l cs' Hc Hl IHl]; intros Hch; cbn [map].
    + constructor.
    + destruct (Hch c (or_introl eq_refl)) as [Hc1 Hc2].
      constructor.
      * split.
        -- destruct (from_ent_root _ _ _ _ Hc) as [ccs Hh]. subst hc. cbn [to_document_symbol ds_range].
           apply (Hpar c e Hc1 He Hc2).
        -- apply (IH c hc); [right; exact Hc1|exact Hc].
      * apply IHl. intros c' Hc'. apply Hch. right. exact Hc'.
Qed.

Theorem hierarchy_nested_from_parent : forall symbols root h,
  (forall x, In x (root :: symbols) -> contains (span x) (selection x) = true) ->
  (forall c p, In c symbols -> In p (root :: symbols) -> e_parent c = Some (e_id p) ->
               contains (span p) (span c) = true) ->
  from_parent root symbols = Some h ->
  nested (to_document_symbol h) = true.
Proof.
  intros symbols root h Hsel Hpar Hf. unfold from_parent in Hf.
  eapply hierarchy_nested; [exact Hsel|exact Hpar|left; reflexivity|exact Hf].
Qed.

(* grandchildren are inside the root as well: containment is transitive *)
Lemma nested_child_in_parent : forall r s cs c,
  nested (DS r s cs) = true -> In c cs -> contains r (ds_range c) = true /\ contains r (ds_sel c) = true.
Proof.
  intros r s cs c Hn Hc. apply nested_DS_inv in Hn. destruct Hn as [_ Hall].
  rewrite Forall_forall in Hall. destruct (Hall c Hc) as [H1 H2]. split; [exact H1|].
  destruct c as [rc sc ccs]. apply nested_DS_inv in H2. destruct H2 as [H2 _].
  cbn [ds_range ds_sel] in *. eapply contains_trans; eassumption.
Qed.

(* from_ent does not run out of fuel when the parent relation is acyclic (ranked) *)
Theorem from_ent_total : forall symbols (rank : N -> nat) (n : nat),
  (forall c p, In c symbols -> e_parent c = Some p -> (rank p < rank (e_id c))%nat) ->
  (forall c, In c symbols -> (rank (e_id c) <= n)%nat) ->
  forall fuel e, (rank (e_id e) <= n)%nat -> (n < fuel + rank (e_id e))%nat ->
  exists h, from_ent fuel symbols e = Some h.
Proof.
  intros symbols rank n Hrank Hbound fuel. induction fuel as [|k IH]; intros e He Hfuel.
  - exfalso. lia.
  - cbn [from_ent].
    destruct (map_opt_total _ _ (from_ent k symbols) (children_of symbols (e_id e))) as [cs Hcs].
    + intros c Hc. apply in_children_of in Hc. destruct Hc as [Hc1 Hc2].
      pose proof (Hrank c (e_id e) Hc1 Hc2) as Hlt. pose proof (Hbound c Hc1) as Hle.
      apply IH; lia.
    + rewrite Hcs. eexists. reflexivity.
Qed.

Theorem from_parent_total : forall symbols root (rank : N -> nat),
  (forall c p, In c symbols -> e_parent c = Some p -> (rank p < rank (e_id c))%nat) ->
  (forall c, In c symbols -> (rank (e_id c) <= List.length symbols)%nat) ->
  (rank (e_id root) <= List.length symbols)%nat ->
  exists h, from_parent root symbols = Some h.
Proof.
  intros symbols root rank Hrank Hbound Hroot. unfold from_parent.
  eapply from_ent_total; [exact Hrank|exact Hbound|exact Hroot|lia].
Qed.

(* every entity of the hierarchy is the root or one of the symbols *)
Lemma into_flat_subset : forall symbols fuel e h,
  from_ent fuel symbols e = Some h -> forall x, In x (into_flat h) -> x = e \/ In x symbols.
Proof.
  intros symbols fuel. induction fuel as [|k IH]; intros e h Hf x Hx; cbn [from_ent] in Hf.
  - discriminate.
  - destruct (map_opt (from_ent k symbols) (children_of symbols (e_id e))) as [cs|] eqn:Hm; [|discriminate].
    inversion Hf. subst h. cbn [into_flat] in Hx. destruct Hx as [Hx|Hx]; [left; symmetry; exact Hx|].
    right. apply map_opt_Forall2 in Hm.
    assert (Hch : forall c, In c (children_of symbols (e_id e)) -> In c symbols).
    { intros c Hc. apply in_children_of in Hc. tauto. }
    remember (children_of symbols (e_id e)) as l0 eqn:Hl0. clear Hl0 Hf.
    revert Hch Hx. induction Hm as [|c hc l cs' Hc Hl IHl]; intros Hch Hx.
    + contradiction.
    + apply in_app_or in Hx. destruct Hx as [Hx|Hx].
      * destruct (IH c hc Hc x Hx) as [Hx'|Hx']; [subst x; apply Hch; left; reflexivity|exact Hx'].
      * apply IHl; [intros c' Hc'; apply Hch; right; exact Hc'|exact Hx].
Qed.

(* example: entity e with a port and an unnamed process containing a variable *)
Definition ex_root : ent := Ent 1 None (R (P 0 0) (P 0 6)) (R (P 9 10) (P 9 11)) (Some (R (P 0 7) (P 0 8))).
Definition ex_symbols : list ent :=
  [ Ent 2 (Some 1) (R (P 1 8) (P 1 9)) (R (P 1 15) (P 1 24)) (Some (R (P 1 8) (P 1 9)));
    Ent 3 (Some 1) (R (P 4 2) (P 4 9)) (R (P 8 13) (P 8 14)) None;
    Ent 4 (Some 3) (R (P 5 4) (P 5 12)) (R (P 5 30) (P 5 31)) (Some (R (P 5 13) (P 5 14)));
    Ent 9 None (R (P 20 0) (P 20 1)) (R (P 20 0) (P 20 1)) None ].
Lemma ex_hier_value :
  option_map (fun h => ds_flat (to_document_symbol h)) (from_parent ex_root ex_symbols) =
  Some [ (R (P 0 0) (P 9 11), R (P 0 7) (P 0 8), 2);
         (R (P 1 8) (P 1 24), R (P 1 8) (P 1 9), 0);
         (R (P 4 2) (P 8 14), R (P 4 2) (P 4 9), 1);
         (R (P 5 4) (P 5 31), R (P 5 13) (P 5 14), 0) ]
  /\ option_map (fun h => nested (to_document_symbol h)) (from_parent ex_root ex_symbols) = Some true
  /\ option_map (fun h => map e_id (into_flat h)) (from_parent ex_root ex_symbols) = Some [1; 2; 3; 4].
Proof. repeat split; vm_compute; reflexivity. Qed.

Lemma ex_hier_hyps :
  (forall x, In x (ex_root :: ex_symbols) -> contains (span x) (selection x) = true) /\
  (forall c p, In c ex_symbols -> In p (ex_root :: ex_symbols) -> e_parent c = Some (e_id p) ->
               contains (span p) (span c) = true).
Proof.
  split.
  - intros x Hx. cbn in Hx. intuition; subst; vm_compute; reflexivity.
  - intros c p Hc Hp Hcp. cbn in Hc, Hp.
    intuition; subst; cbn in Hcp; try discriminate; vm_compute; reflexivity.
Qed.
