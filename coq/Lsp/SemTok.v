(* Lsp/SemTok.v — executable model of vhdl_ls/src/vhdl_server/semantic_tokens.rs
   (`map_and_sort`, `encode`), of `Range::overlaps_lines` (vhdl_lang/src/data/source.rs)
   and of the client-side decoding of the LSP delta encoding.

   Positions are pairs of unbounded `N` (the code uses `u32`); the three `u32`
   subtractions of `encode` are explicit: `sub_u32` returns the wrapped value and a
   flag.  The vhdl_ls release binary wraps (no overflow checks), a debug build panics:
   `encode_debug` returns `None` in that case.

   The classification of an entity (`classify`, a total `match` on `AnyEntKind` wrapped
   in `Some`, consumed through `filter_map`) is abstracted as a partial function
   `classify : E -> option (N * N)` (token type, modifier bit set).

   All positions handed to `map_and_sort` belong to one source file, so
   `SrcPos::cmp` is the comparison of `range.start` and `SrcPos::eq` the equality of
   the ranges.  No proofs in this file. *)
From Coq Require Import List NArith Bool.
Import ListNotations.
Open Scope N_scope.

Record pos := P { line : N; chr : N }.
Record range := R { rstart : pos; rend : pos }.

(* derived `Ord` of `Position { line, character }` *)
Definition pos_eqb (a b : pos) : bool := (line a =? line b) && (chr a =? chr b).
Definition pos_leb (a b : pos) : bool :=
  (line a <? line b) || ((line a =? line b) && (chr a <=? chr b)).
Definition pos_ltb (a b : pos) : bool :=
  (line a <? line b) || ((line a =? line b) && (chr a <? chr b)).
Definition range_eqb (a b : range) : bool :=
  pos_eqb (rstart a) (rstart b) && pos_eqb (rend a) (rend b).

(* Range::overlaps_lines:
   self.start.line <= other.end.line && self.end.line >= other.start.line *)
Definition overlaps_lines (self other : range) : bool :=
  (line (rstart self) <=? line (rend other)) && (line (rstart other) <=? line (rend self)).

(* struct CachedToken { range, token_type, modifiers } *)
Record ctok := CT { c_range : range; c_type : N; c_mods : N }.
(* lsp_types::SemanticToken *)
Record stok := ST { delta_line : N; delta_start : N; tlen : N; token_type : N; token_mods : N }.

(* ---------------------------------------------------------------------------------- *)
(* map_and_sort                                                                        *)
(* ---------------------------------------------------------------------------------- *)
Fixpoint filter_map {A B : Type} (f : A -> option B) (l : list A) : list B :=
  match l with
  | [] => []
  | x :: r => match f x with Some y => y :: filter_map f r | None => filter_map f r end
  end.

Section MapAndSort.
  Variable E : Type.                         (* EntRef *)
  Variable classify : E -> option (N * N).   (* fn classify: (token_type, modifiers) *)

  Definition raw := (range * E)%type.        (* (SrcPos, EntRef) *)

  (* pos_a.cmp(pos_b) != Greater *)
  Definition raw_leb (a b : raw) : bool := pos_leb (rstart (fst a)) (rstart (fst b)).

  (* `sort_by` is a stable sort; a stable sort is determined by its comparison, the
     model uses insertion sort (x is placed before the first element that is not
     smaller, elements are inserted from the right: equal keys keep their order). *)
  Fixpoint insert (x : raw) (l : list raw) : list raw :=
    match l with
    | [] => [x]
    | y :: r => if raw_leb x y then x :: l else y :: insert x r
    end.
  Fixpoint sort (l : list raw) : list raw :=
    match l with
    | [] => []
    | x :: r => insert x (sort r)
    end.

  (* `dedup_by(|(pos_a, _), (pos_b, _)| pos_a == pos_b)`: an element equal to the last
     retained one is removed (the first of a run stays) *)
  Definition same_pos (a b : raw) : bool := range_eqb (fst a) (fst b).
  Fixpoint dedup_from (prev : raw) (l : list raw) : list raw :=
    match l with
    | [] => []
    | x :: r => if same_pos x prev then dedup_from prev r else x :: dedup_from x r
    end.
  Definition dedup (l : list raw) : list raw :=
    match l with
    | [] => []
    | x :: r => x :: dedup_from x r
    end.

  Definition to_cached (x : raw) : option ctok :=
    match classify (snd x) with
    | Some (ty, mo) => Some (CT (fst x) ty mo)
    | None => None
    end.

  Definition map_and_sort (l : list raw) : list ctok := filter_map to_cached (dedup (sort l)).

  (* before commit fc0b2f0 (finding F9): no dedup *)
  Definition map_and_sort_old (l : list raw) : list ctok := filter_map to_cached (sort l).
End MapAndSort.

Arguments raw_leb {E}.
Arguments insert {E}.
Arguments sort {E}.
Arguments same_pos {E}.
Arguments dedup_from {E}.
Arguments dedup {E}.
Arguments to_cached {E}.
Arguments map_and_sort {E}.
Arguments map_and_sort_old {E}.

(* ---------------------------------------------------------------------------------- *)
(* encode                                                                              *)
(* ---------------------------------------------------------------------------------- *)
Definition U32 : N := 4294967296.
(* a - b on u32: (wrapped result, overflow flag) *)
Definition sub_u32 (a b : N) : N * bool :=
  if b <=? a then (a - b, false) else (a + U32 - b, true).

Definition single_line (t : ctok) : bool :=
  line (rstart (c_range t)) =? line (rend (c_range t)).

(* `if let Some(filter) = range_filter { if !token.range.overlaps_lines(filter) { continue } }` *)
Definition keep (f : option range) (t : ctok) : bool :=
  match f with
  | None => true
  | Some r => overlaps_lines (c_range t) r
  end.

(* the loop of `encode`, state (prev_line, prev_start); result: tokens and "some
   subtraction overflowed" *)
Fixpoint encode_from (pl ps : N) (f : option range) (ts : list ctok) : list stok * bool :=
  match ts with
  | [] => ([], false)
  | t :: r =>
      if negb (keep f t) then encode_from pl ps f r
      else
        let ln := line (rstart (c_range t)) in
        let st := chr (rstart (c_range t)) in
        if negb (single_line t) then encode_from pl ps f r
        else
          let '(len, w1) := sub_u32 (chr (rend (c_range t))) st in
          let '(dl, w2) := sub_u32 ln pl in
          let '(ds, w3) := if dl =? 0 then sub_u32 st ps else (st, false) in
          let '(rest, w) := encode_from ln st f r in
          (ST dl ds len (c_type t) (c_mods t) :: rest, w1 || w2 || w3 || w)
  end.
Definition encode (ts : list ctok) (f : option range) : list stok * bool := encode_from 0 0 f ts.

(* debug build (overflow checks on): the first overflowing subtraction panics *)
Definition encode_debug (ts : list ctok) (f : option range) : option (list stok) :=
  let '(d, w) := encode ts f in if w then None else Some d.

(* the `data` array of the response: five numbers per token *)
Fixpoint flatten (d : list stok) : list N :=
  match d with
  | [] => []
  | s :: r => delta_line s :: delta_start s :: tlen s :: token_type s :: token_mods s :: flatten r
  end.

(* ---------------------------------------------------------------------------------- *)
(* decode (what an LSP client does with the array)                                     *)
(* ---------------------------------------------------------------------------------- *)
Fixpoint decode_from (l c : N) (d : list stok) : list ctok :=
  match d with
  | [] => []
  | s :: r =>
      let l' := l + delta_line s in
      let c' := if delta_line s =? 0 then c + delta_start s else delta_start s in
      CT (R (P l' c') (P l' (c' + tlen s))) (token_type s) (token_mods s) :: decode_from l' c' r
  end.
Definition decode (d : list stok) : list ctok := decode_from 0 0 d.

(* ---------------------------------------------------------------------------------- *)
(* requests                                                                            *)
(* ---------------------------------------------------------------------------------- *)
Definition semantic_tokens_full {E} (classify : E -> option (N * N)) (l : list (raw E)) :=
  encode (map_and_sort classify l) None.
Definition semantic_tokens_range {E} (classify : E -> option (N * N)) (l : list (raw E)) (r : range) :=
  encode (map_and_sort classify l) (Some r).
Definition semantic_tokens_full_old {E} (classify : E -> option (N * N)) (l : list (raw E)) :=
  encode (map_and_sort_old classify l) None.

(* ---------------------------------------------------------------------------------- *)
(* specification vocabulary                                                            *)
(* ---------------------------------------------------------------------------------- *)
(* the token touches the requested lines *)
Definition touches (r : range) (t : ctok) : bool := overlaps_lines (c_range t) r.
Definition nonempty (r : range) : bool := pos_ltb (rstart r) (rend r).
Definition wf_range (r : range) : bool := pos_leb (rstart r) (rend r).
(* a ends before b starts *)
Definition before (a b : range) : bool := pos_leb (rend a) (rstart b).
(* two collected positions are the same token or do not overlap *)
Definition compat (a b : range) : bool := range_eqb a b || before a b || before b a.

(* a decoded stream is well formed: every token is non-empty and on one line, and every
   token ends before every later token starts (hence strictly increasing starts) *)
Fixpoint ends_before_all (a : range) (l : list ctok) : bool :=
  match l with
  | [] => true
  | b :: r => before a (c_range b) && ends_before_all a r
  end.
Fixpoint well_formed_stream (l : list ctok) : bool :=
  match l with
  | [] => true
  | a :: r => nonempty (c_range a) && single_line a && ends_before_all (c_range a) r
              && well_formed_stream r
  end.
(* strictly increasing start positions *)
Fixpoint strictly_increasing (l : list ctok) : bool :=
  match l with
  | [] => true
  | a :: r => match r with
              | [] => true
              | b :: _ => pos_ltb (rstart (c_range a)) (rstart (c_range b)) && strictly_increasing r
              end
  end.
