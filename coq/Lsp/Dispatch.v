(* Lsp/Dispatch.v — executable model of vhdl_ls/src/stdio_server.rs (message dispatch of the
   language server) as it is after the repairs of F7 (e584c71) and F8 (e8fd608):

     * `RequestDispatcher::{on::<R>, handle::<R>, finish}`  ->  `handle`, `dispatch`
     * `ConnectionRpcChannel::handle_notification` (chain of `extract::<N>`)  ->  `notify`
     * `lsp_server::Connection::handle_shutdown` + `main_event_loop`  ->  `run`
     * `uri_to_file_name` inside the document handlers  ->  `doc_handler` (`doc_handler_old` = unwrap)

   Abstract (Section variables, never axioms): the JSON value type `Params`, the request id type,
   the server state, the serialised results, what else the server emits (publishDiagnostics,
   window/logMessage, client/registerCapability), and — per method — the serde decoder
   (`None` = serde error) and the handler (`None` = the Rust handler panics).
   The reader/writer threads of lsp_server are not modelled except for one fact: the reader thread
   stops reading after an `exit` notification.
   No proofs in this file. *)
From Coq Require Import List ZArith Bool String.
Import ListNotations.
Open Scope string_scope.
Open Scope list_scope.

(* lsp_server::ErrorCode *)
Definition METHOD_NOT_FOUND : Z := (-32601)%Z.
Definition INVALID_PARAMS : Z := (-32602)%Z.

Section Dispatch.
  Variable Id : Type.       (* lsp_server::RequestId: i32 or String *)
  Variable Params : Type.   (* serde_json::Value (absent params = Null) *)
  Variable State : Type.    (* VHDLServer *)
  Variable Out : Type.      (* serde_json::to_value(R::Result) *)
  Variable Emit : Type.     (* notifications and requests the server sends on its own *)
  Variable null_out : Out.  (* serde_json::to_value(()) — the result of `shutdown` *)

  (* lsp_server::Message (untagged: Request | Response | Notification) *)
  Inductive message :=
  | Request (id : Id) (method : string) (params : Params)
  | Notification (method : string) (params : Params)
  | Response (id : Id) (payload : Params).

  (* lsp_server::Response::{new_ok, new_err} *)
  Inductive reply :=
  | ROk (id : Id) (result : Out)
  | RErr (id : Id) (code : Z).

  (* what goes to `connection.sender` *)
  Inductive event :=
  | EReply (r : reply)
  | EOther (e : Emit).

  (* one `.on::<R>(handler)` link: R::METHOD, R::Params, serde_json::from_value, the closure *)
  Record req_entry := {
    rq_method : string;
    rq_P : Type;
    rq_decode : Params -> option rq_P;
    rq_handle : State -> rq_P -> option (State * list Emit * Out)
  }.

  (* one `extract::<N>` link of handle_notification *)
  Record note_entry := {
    nt_method : string;
    nt_P : Type;
    nt_decode : Params -> option nt_P;
    nt_handle : State -> nt_P -> option (State * list Emit)
  }.

  Variable rtable : list req_entry.    (* the chain in handle_request, in order *)
  Variable ntable : list note_entry.   (* the chain in handle_notification, in order *)

  (* fn handle::<R>: decode; Err -> InvalidParams response; Ok -> run the handler, Ok response.
     None = panic inside the handler (nothing is caught anywhere in the server). *)
  Definition handle (e : req_entry) (st : State) (id : Id) (p : Params) : option (State * list event) :=
    match rq_decode e p with
    | None => Some (st, [EReply (RErr id INVALID_PARAMS)])
    | Some dp =>
        match rq_handle e st dp with
        | None => None
        | Some (st', em, o) => Some (st', map EOther em ++ [EReply (ROk id o)])
        end
    end.

  (* fn on::<R> (method mismatch: pass the request on) ... fn finish (MethodNotFound) *)
  Fixpoint dispatch (table : list req_entry) (st : State) (id : Id) (m : string) (p : Params)
    : option (State * list event) :=
    match table with
    | [] => Some (st, [EReply (RErr id METHOD_NOT_FOUND)])
    | e :: rest => if String.eqb m (rq_method e) then handle e st id p else dispatch rest st id m p
    end.

  (* fn handle_notification.  `lenient = true` is the code of today: a JsonError is logged and the
     notification ignored; `lenient = false` is the pre-fix code: `panic!("{err:?}")`.
     A notification no link takes is ignored (logged unless it starts with "$/"). *)
  Fixpoint notify (lenient : bool) (table : list note_entry) (st : State) (m : string) (p : Params)
    : option (State * list event) :=
    match table with
    | [] => Some (st, [])
    | e :: rest =>
        if String.eqb m (nt_method e) then
          match nt_decode e p with
          | None => if lenient then Some (st, []) else None
          | Some dp =>
              match nt_handle e st dp with
              | None => None
              | Some (st', em) => Some (st', map EOther em)
              end
          end
        else notify lenient rest st m p
    end.

  (* How a finite prefix of client traffic ends. *)
  Inductive stop :=
  | Running (st : State)          (* all messages consumed, the loop waits in recv() *)
  | Exited (code : Z)             (* std::process::exit(code) *)
  | Crashed                       (* a panic: the process is gone *)
  | ReaderStopped (st : State).   (* `exit` without `shutdown`: the reader thread stops, nothing further is received *)

  (* fn main_event_loop.  Request "shutdown": `handle_shutdown` answers Ok(null) and then requires the very
     next message to be the notification `exit` (anything else, a 30 s timeout or a closed channel is
     `Err` -> `panic!`); then shutdown_server(); exit_notification() = exit(0).
     Responses of the client are ignored. *)
  Fixpoint run (lenient : bool) (st : State) (msgs : list message) : list event * stop :=
    match msgs with
    | [] => ([], Running st)
    | Request id m p :: rest =>
        if String.eqb m "shutdown" then
          let out := [EReply (ROk id null_out)] in
          match rest with
          | Notification m' _ :: _ => if String.eqb m' "exit" then (out, Exited 0) else (out, Crashed)
          | _ => (out, Crashed)
          end
        else
          match dispatch rtable st id m p with
          | None => ([], Crashed)
          | Some (st', out) => let (o, s) := run lenient st' rest in (out ++ o, s)
          end
    | Notification m p :: rest =>
        match notify lenient ntable st m p with
        | None => ([], Crashed)
        | Some (st', out) =>
            if String.eqb m "exit" then (out, ReaderStopped st')
            else let (o, s) := run lenient st' rest in (out ++ o, s)
        end
    | Response _ _ :: rest => run lenient st rest
    end.

  (* ---------------- specification vocabulary ---------------- *)

  Fixpoint requests (msgs : list message) : list (Id * string * Params) :=
    match msgs with
    | [] => []
    | Request id m p :: rest => (id, m, p) :: requests rest
    | _ :: rest => requests rest
    end.

  Fixpoint replies (out : list event) : list reply :=
    match out with
    | [] => []
    | EReply r :: rest => r :: replies rest
    | EOther _ :: rest => replies rest
    end.

  Definition reply_id (r : reply) : Id := match r with ROk id _ => id | RErr id _ => id end.

  (* the first link with that method (what `on` ... `on` selects) *)
  Fixpoint lookup (table : list req_entry) (m : string) : option req_entry :=
    match table with
    | [] => None
    | e :: rest => if String.eqb m (rq_method e) then Some e else lookup rest m
    end.

  (* `r` is the right answer to request (id, m, p) *)
  Definition answers (q : Id * string * Params) (r : reply) : Prop :=
    let '(id, m, p) := q in
    reply_id r = id /\
    match lookup rtable m with
    | None => r = RErr id METHOD_NOT_FOUND
    | Some e =>
        match rq_decode e p with
        | None => r = RErr id INVALID_PARAMS
        | Some _ => exists o, r = ROk id o
        end
    end.

  Definition handlers_total : Prop :=
    (forall e, In e rtable -> forall st p, rq_handle e st p <> None) /\
    (forall e, In e ntable -> forall st p, nt_handle e st p <> None).

  Definition is_shutdown (msg : message) : bool :=
    match msg with Request _ m _ => String.eqb m "shutdown" | _ => false end.
  Definition is_exit (msg : message) : bool :=
    match msg with Notification m _ => String.eqb m "exit" | _ => false end.

  (* traffic between `initialized` and `shutdown` *)
  Definition lifecycle_free (msgs : list message) : bool :=
    forallb (fun msg => negb (is_shutdown msg) && negb (is_exit msg)) msgs.

  (* DESIGN.md 4.0: `shutdown` is always directly followed by `exit` *)
  Fixpoint protocol_ok (msgs : list message) : bool :=
    match msgs with
    | [] => true
    | msg :: rest =>
        if is_shutdown msg then match rest with nxt :: _ => is_exit nxt | [] => false end
        else protocol_ok rest
    end.

  Definition crashed (s : stop) : bool := match s with Crashed => true | _ => false end.

  (* ---------------- URI conversion inside the document handlers ---------------- *)
  (* Every textDocument/* handler starts with `uri_to_file_name(&params...uri)`.
     Today: `uri.to_file_path().ok()`; `None` makes the request answer null (`?`) and the
     notification return.  Pre-fix: `uri.to_file_path().unwrap()`. *)
  Section DocHandler.
    Variables Uri Path P : Type.
    Variable uri_of : P -> Uri.
    Variable to_file_path : Uri -> option Path.      (* Url::to_file_path().ok() *)
    Variable body : State -> Path -> P -> option (State * list Emit * Out).
    Variable none_out : Out.                          (* Option::None / empty Vec serialised *)

    Definition doc_handler (st : State) (p : P) : option (State * list Emit * Out) :=
      match to_file_path (uri_of p) with
      | None => Some (st, [], none_out)
      | Some f => body st f p
      end.

    Definition doc_handler_old (st : State) (p : P) : option (State * list Emit * Out) :=
      match to_file_path (uri_of p) with
      | None => None
      | Some f => body st f p
      end.
  End DocHandler.

  Section DocNote.
    Variables Uri Path P : Type.
    Variable uri_of : P -> Uri.
    Variable to_file_path : Uri -> option Path.
    Variable body : State -> Path -> P -> option (State * list Emit).

    Definition doc_note (st : State) (p : P) : option (State * list Emit) :=
      match to_file_path (uri_of p) with
      | None => Some (st, [])
      | Some f => body st f p
      end.

    Definition doc_note_old (st : State) (p : P) : option (State * list Emit) :=
      match to_file_path (uri_of p) with
      | None => None
      | Some f => body st f p
      end.
  End DocNote.
End Dispatch.

Arguments Request {Id Params}.
Arguments Notification {Id Params}.
Arguments Response {Id Params}.
Arguments ROk {Id Out}.
Arguments RErr {Id Out}.
Arguments EReply {Id Out Emit}.
Arguments EOther {Id Out Emit}.
Arguments Running {State}.
Arguments Exited {State}.
Arguments Crashed {State}.
Arguments ReaderStopped {State}.

(* ---------------- the response skeleton (what ocaml/c15_run.ml and checks/c15.py use) ----------------
   Instantiation: a parameter value is just the verdict of the decodability oracle (`true` = serde
   accepts it for the method's parameter type), handlers are total and have no visible effect.
   `predict` returns, per request in order, `(id, None)` for an Ok response and `(id, Some code)` for an
   error response, and how the session ends: 0 running, 1 exited(0), 2 crashed, 3 reader stopped. *)
Definition sk_req (m : string) : req_entry bool unit unit unit :=
  {| rq_method := m; rq_P := unit;
     rq_decode := fun b : bool => if b then Some tt else None;
     rq_handle := fun st _ => Some (st, [], tt) |}.
Definition sk_note (m : string) : note_entry bool unit unit :=
  {| nt_method := m; nt_P := unit;
     nt_decode := fun b : bool => if b then Some tt else None;
     nt_handle := fun st _ => Some (st, []) |}.

Definition skeleton {Id Out : Type} (r : reply Id Out) : Id * option Z :=
  match r with ROk id _ => (id, None) | RErr id c => (id, Some c) end.

Definition stop_code {State : Type} (s : stop State) : nat :=
  match s with Running _ => 0 | Exited _ => 1 | Crashed => 2 | ReaderStopped _ => 3 end.

Definition predict {Id : Type} (lenient : bool) (rmethods nmethods : list string)
           (msgs : list (message Id bool)) : list (Id * option Z) * nat :=
  let '(out, s) := run Id bool unit unit unit tt (map sk_req rmethods) (map sk_note nmethods) lenient tt msgs in
  (map skeleton (replies Id unit unit out), stop_code s).

(* The chains of stdio_server.rs, in source order (R::METHOD / N::METHOD of lsp_types). *)
Definition vhdl_ls_requests : list string :=
  [ "textDocument/declaration"; "textDocument/definition"; "textDocument/typeDefinition";
    "textDocument/implementation"; "textDocument/rename"; "textDocument/prepareRename";
    "workspace/symbol"; "textDocument/documentSymbol"; "textDocument/documentHighlight";
    "textDocument/hover"; "textDocument/references"; "textDocument/completion";
    "completionItem/resolve"; "textDocument/semanticTokens/full"; "textDocument/semanticTokens/range" ].
Definition vhdl_ls_notifications : list string :=
  [ "textDocument/didChange"; "textDocument/didOpen"; "workspace/didChangeWatchedFiles";
    "workspace/didCreateFiles"; "workspace/didRenameFiles"; "workspace/didDeleteFiles" ].
