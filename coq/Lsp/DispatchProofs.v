(* Lsp/DispatchProofs.v — proofs about the dispatch model of Lsp/Dispatch.v (property C15). *)
From Coq Require Import List ZArith Bool String Lia.
Import ListNotations.
From RH Require Import Lsp.Dispatch.
Open Scope string_scope.
Open Scope list_scope.

Section Proofs.
  Variable Id : Type.
  Variable Params : Type.
  Variable State : Type.
  Variable Out : Type.
  Variable Emit : Type.
  Variable null_out : Out.
  Variable rtable : list (req_entry Params State Out Emit).
  Variable ntable : list (note_entry Params State Emit).

  Notation message := (message Id Params).
  Notation reply := (reply Id Out).
  Notation event := (event Id Out Emit).
  Notation replies := (replies Id Out Emit).
  Notation requests := (requests Id Params).
  Notation run := (run Id Params State Out Emit null_out rtable ntable).
  Notation answers := (answers Id Params State Out Emit rtable).
  Notation handlers_total := (handlers_total Params State Out Emit rtable ntable).
  Notation lifecycle_free := (lifecycle_free Id Params).
  Notation protocol_ok := (protocol_ok Id Params).
  Notation is_shutdown := (is_shutdown Id Params).
  Notation is_exit := (is_exit Id Params).

  (* ---- the output filter ---- *)
  Lemma replies_app : forall a b : list event, replies (a ++ b) = replies a ++ replies b.
  Proof.
    induction a as [|e a IH]; intro b; [reflexivity|].
    destruct e as [r|o]; cbn [app Dispatch.replies]; rewrite IH; reflexivity.
  Qed.

  Lemma replies_other : forall em : list Emit, replies (map (fun e => EOther e) em) = [].
  Proof. induction em as [|e em IH]; [reflexivity|]. cbn [map Dispatch.replies]. exact IH. Qed.

  (* ---- the request chain selects the first link with the method ---- *)
  Lemma dispatch_lookup : forall (table : list (req_entry Params State Out Emit)) st (id : Id) m p,
    dispatch Id Params State Out Emit table st id m p =
    match lookup Params State Out Emit table m with
    | None => Some (st, [EReply (RErr id METHOD_NOT_FOUND)])
    | Some e => handle Id Params State Out Emit e st id p
    end.
  Proof.
    induction table as [|e table IH]; intros st id m p; [reflexivity|].
    cbn [dispatch lookup]. destruct (String.eqb m (rq_method _ _ _ _ e)); [reflexivity|apply IH].
  Qed.

  Lemma lookup_In : forall (table : list (req_entry Params State Out Emit)) m e,
    lookup Params State Out Emit table m = Some e -> In e table.
  Proof.
    induction table as [|e0 table IH]; intros m e H; [discriminate|].
    cbn [lookup] in H. destruct (String.eqb m (rq_method _ _ _ _ e0)).
    - injection H as <-. left; reflexivity.
    - right. eapply IH; eassumption.
  Qed.

  (* one request: exactly one reply, the right one *)
  Lemma dispatch_one_reply :
    (forall e, In e rtable -> forall st p, rq_handle _ _ _ _ e st p <> None) ->
    forall st (id : Id) m p,
    exists st' out r,
      dispatch Id Params State Out Emit rtable st id m p = Some (st', out) /\
      replies out = [r] /\ answers (id, m, p) r.
  Proof.
    intros Htot st id m p. rewrite dispatch_lookup. unfold Dispatch.answers.
    destruct (lookup Params State Out Emit rtable m) as [e|] eqn:L.
    - unfold handle. destruct (rq_decode _ _ _ _ e p) as [dp|] eqn:D.
      + destruct (rq_handle _ _ _ _ e st dp) as [[[st' em] o]|] eqn:H.
        * exists st', (map (fun x => EOther x) em ++ [EReply (ROk id o)]), (ROk id o).
          split; [reflexivity|]. split.
          { rewrite replies_app, replies_other. reflexivity. }
          split; [reflexivity|]. exists o; reflexivity.
        * exfalso. eapply Htot; [eapply lookup_In; eassumption|eassumption].
      + exists st, [EReply (RErr id INVALID_PARAMS)], (RErr id INVALID_PARAMS).
        split; [reflexivity|]. split; [reflexivity|]. split; reflexivity.
    - exists st, [EReply (RErr id METHOD_NOT_FOUND)], (RErr id METHOD_NOT_FOUND).
      split; [reflexivity|]. split; [reflexivity|]. split; reflexivity.
  Qed.

  (* one notification: no reply, no crash, whatever its parameters *)
  Lemma notify_no_reply : forall (table : list (note_entry Params State Emit)),
    (forall e, In e table -> forall st p, nt_handle _ _ _ e st p <> None) ->
    forall st m p,
    exists st' out,
      notify Id Params State Out Emit true table st m p = Some (st', out) /\ replies out = [].
  Proof.
    induction table as [|e table IH]; intros Htot st m p.
    - exists st, []. split; reflexivity.
    - cbn [notify]. destruct (String.eqb m (nt_method _ _ _ e)).
      + destruct (nt_decode _ _ _ e p) as [dp|].
        * destruct (nt_handle _ _ _ e st dp) as [[st' em]|] eqn:H.
          { exists st', (map (fun x => EOther x) em). split; [reflexivity|apply replies_other]. }
          { exfalso. eapply (Htot e); [left; reflexivity|eassumption]. }
        * exists st, []. split; reflexivity.
      + apply IH. intros e0 Hin. apply Htot. right; assumption.
  Qed.

  (* ---- main loop ---- *)
  Theorem one_response_per_request :
    handlers_total ->
    forall msgs st, lifecycle_free msgs = true ->
    exists out st',
      run true st msgs = (out, Running st') /\
      Forall2 answers (requests msgs) (replies out).
  Proof.
    intros [Hr Hn]. induction msgs as [|msg msgs IH]; intros st Hlf.
    - exists [], st. split; [reflexivity|constructor].
    - unfold Dispatch.lifecycle_free in Hlf. cbn [forallb] in Hlf.
      apply andb_true_iff in Hlf. destruct Hlf as [Hm Hlf].
      apply andb_true_iff in Hm. destruct Hm as [Hs He].
      destruct msg as [id m p|m p|id pl].
      + cbn [Dispatch.is_shutdown] in Hs. apply negb_true_iff in Hs.
        cbn [Dispatch.run Dispatch.requests]. rewrite Hs.
        destruct (dispatch_one_reply Hr st id m p) as (st1 & out1 & r & Hd & Hrep & Hans).
        rewrite Hd. destruct (IH st1 Hlf) as (out2 & st2 & Hrun & Hall).
        rewrite Hrun. exists (out1 ++ out2), st2. split; [reflexivity|].
        rewrite replies_app, Hrep. cbn [app]. constructor; assumption.
      + cbn [Dispatch.is_exit] in He. apply negb_true_iff in He.
        cbn [Dispatch.run Dispatch.requests]. rewrite He.
        destruct (notify_no_reply ntable Hn st m p) as (st1 & out1 & Hd & Hrep).
        rewrite Hd. destruct (IH st1 Hlf) as (out2 & st2 & Hrun & Hall).
        rewrite Hrun. exists (out1 ++ out2), st2. split; [reflexivity|].
        rewrite replies_app, Hrep. exact Hall.
      + cbn [Dispatch.run Dispatch.requests]. apply IH. exact Hlf.
  Qed.

  (* the same counted: as many replies as requests, ids in request order *)
  Corollary reply_ids_in_request_order :
    handlers_total ->
    forall msgs st, lifecycle_free msgs = true ->
    map (reply_id Id Out) (replies (fst (run true st msgs))) = map (fun q => fst (fst q)) (requests msgs).
  Proof.
    intros Ht msgs st Hlf. destruct (one_response_per_request Ht msgs st Hlf) as (out & st' & Hrun & Hall).
    rewrite Hrun. cbn [fst]. clear Hrun. induction Hall as [|q r qs rs Hqr _ IH]; [reflexivity|].
    cbn [map]. rewrite IH. f_equal. destruct q as [[id m] p]. destruct Hqr as [Hid _]. exact Hid.
  Qed.

  (* a complete session: traffic, then `shutdown`, then `exit` *)
  Theorem session_with_shutdown :
    handlers_total ->
    forall pre (id : Id) p p' junk st, lifecycle_free pre = true ->
    exists out,
      run true st (pre ++ Request id "shutdown" p :: Notification "exit" p' :: junk)
        = (out ++ [EReply (ROk id null_out)], Exited 0) /\
      Forall2 answers (requests pre) (replies out).
  Proof.
    intros [Hr Hn]. induction pre as [|msg pre IH]; intros id0 p0 p' junk st Hlf.
    - exists []. split; [reflexivity|constructor].
    - unfold Dispatch.lifecycle_free in Hlf. cbn [forallb] in Hlf.
      apply andb_true_iff in Hlf. destruct Hlf as [Hm Hlf].
      apply andb_true_iff in Hm. destruct Hm as [Hs He].
      destruct msg as [id m p|m p|id pl].
      + cbn [Dispatch.is_shutdown] in Hs. apply negb_true_iff in Hs.
        cbn [app Dispatch.run Dispatch.requests]. rewrite Hs.
        destruct (dispatch_one_reply Hr st id m p) as (st1 & out1 & r & Hd & Hrep & Hans).
        rewrite Hd. destruct (IH id0 p0 p' junk st1 Hlf) as (out2 & Hrun & Hall).
        rewrite Hrun. exists (out1 ++ out2). split; [rewrite app_assoc; reflexivity|].
        rewrite replies_app, Hrep. cbn [app]. constructor; assumption.
      + cbn [Dispatch.is_exit] in He. apply negb_true_iff in He.
        cbn [app Dispatch.run Dispatch.requests]. rewrite He.
        destruct (notify_no_reply ntable Hn st m p) as (st1 & out1 & Hd & Hrep).
        rewrite Hd. destruct (IH id0 p0 p' junk st1 Hlf) as (out2 & Hrun & Hall).
        rewrite Hrun. exists (out1 ++ out2). split; [rewrite app_assoc; reflexivity|].
        rewrite replies_app, Hrep. exact Hall.
      + cbn [app Dispatch.run Dispatch.requests]. apply IH. exact Hlf.
  Qed.

  (* no panic is reachable by protocol-conforming traffic, whatever the parameters *)
  Theorem server_survives :
    handlers_total ->
    forall msgs st, protocol_ok msgs = true ->
    crashed State (snd (run true st msgs)) = false.
  Proof.
    intros [Hr Hn]. induction msgs as [|msg msgs IH]; intros st Hok; [reflexivity|].
    destruct msg as [id m p|m p|id pl].
    - cbn [Dispatch.protocol_ok Dispatch.is_shutdown] in Hok. cbn [Dispatch.run].
      destruct (String.eqb m "shutdown").
      + destruct msgs as [|nxt msgs']; [discriminate|].
        destruct nxt as [id2 m2 p2|m2 p2|id2 pl2]; cbn [Dispatch.is_exit] in Hok; try discriminate.
        rewrite Hok. reflexivity.
      + destruct (dispatch_one_reply Hr st id m p) as (st1 & out1 & r & Hd & _ & _).
        rewrite Hd. specialize (IH st1 Hok).
        destruct (run true st1 msgs) as [o s]. exact IH.
    - cbn [Dispatch.protocol_ok Dispatch.is_shutdown] in Hok. cbn [Dispatch.run].
      destruct (notify_no_reply ntable Hn st m p) as (st1 & out1 & Hd & _).
      rewrite Hd. destruct (String.eqb m "exit"); [reflexivity|].
      specialize (IH st1 Hok). destruct (run true st1 msgs) as [o s]. exact IH.
    - cbn [Dispatch.protocol_ok Dispatch.is_shutdown] in Hok. cbn [Dispatch.run]. apply IH. exact Hok.
  Qed.

  (* lifecycle-free traffic conforms to the protocol *)
  Lemma lifecycle_free_protocol_ok : forall msgs, lifecycle_free msgs = true -> protocol_ok msgs = true.
  Proof.
    induction msgs as [|msg msgs IH]; intro H; [reflexivity|].
    unfold Dispatch.lifecycle_free in H. cbn [forallb] in H.
    apply andb_true_iff in H. destruct H as [Hm H].
    apply andb_true_iff in Hm. destruct Hm as [Hs _]. apply negb_true_iff in Hs.
    cbn [Dispatch.protocol_ok]. rewrite Hs. apply IH. exact H.
  Qed.

  (* ---- URI conversion ---- *)
  Lemma doc_handler_total :
    forall (Uri Path P : Type) (uri_of : P -> Uri) (to_file_path : Uri -> option Path)
           (body : State -> Path -> P -> option (State * list Emit * Out)) (none_out : Out),
    (forall st f p, body st f p <> None) ->
    forall st p, doc_handler State Out Emit Uri Path P uri_of to_file_path body none_out st p <> None.
  Proof.
    intros Uri Path P uri_of tfp body none_out Hb st p. unfold doc_handler.
    destruct (tfp (uri_of p)); [apply Hb|discriminate].
  Qed.

  Lemma doc_note_total :
    forall (Uri Path P : Type) (uri_of : P -> Uri) (to_file_path : Uri -> option Path)
           (body : State -> Path -> P -> option (State * list Emit)),
    (forall st f p, body st f p <> None) ->
    forall st p, doc_note State Emit Uri Path P uri_of to_file_path body st p <> None.
  Proof.
    intros Uri Path P uri_of tfp body Hb st p. unfold doc_note.
    destruct (tfp (uri_of p)); [apply Hb|discriminate].
  Qed.
End Proofs.

(* ---------------- the pre-fix code is refuted ---------------- *)

(* F7: a notification whose parameters do not decode. *)
Definition f7_msgs : list (message nat bool) :=
  [ Notification "textDocument/didChange" false; Request 1 "textDocument/hover" true ].

Lemma sk_handlers_total : forall rm nm,
  handlers_total bool unit unit unit (map sk_req rm) (map sk_note nm).
Proof.
  intros rm nm. split; intros e Hin st p.
  - apply in_map_iff in Hin. destruct Hin as (m & <- & _). discriminate.
  - apply in_map_iff in Hin. destruct Hin as (m & <- & _). discriminate.
Qed.

Theorem notification_decode_old_refuted :
  exists (rtable : list (req_entry bool unit unit unit)) (ntable : list (note_entry bool unit unit))
         (msgs : list (message nat bool)),
    handlers_total bool unit unit unit rtable ntable /\
    lifecycle_free nat bool msgs = true /\
    snd (run nat bool unit unit unit tt rtable ntable false tt msgs) = Crashed /\
    snd (run nat bool unit unit unit tt rtable ntable true tt msgs) = Running tt.
Proof.
  exists (map sk_req vhdl_ls_requests), (map sk_note vhdl_ls_notifications), f7_msgs.
  split; [apply sk_handlers_total|]. split; [reflexivity|]. split; vm_compute; reflexivity.
Qed.

(* F8: the old `uri_to_file_name` unwrapped `Url::to_file_path`.  A URI is modelled by `true` (file URI
   with a local path) or `false` (e.g. `untitled:Untitled-1`); the handler body is total. *)
Definition f8_entry (old : bool) : req_entry bool unit nat unit :=
  {| rq_method := "textDocument/hover"; rq_P := bool;
     rq_decode := fun b : bool => Some b;
     rq_handle :=
       (if old then doc_handler_old unit nat unit bool unit bool
        else fun uri_of tfp body => doc_handler unit nat unit bool unit bool uri_of tfp body 0)
         (fun b => b) (fun b : bool => if b then Some tt else None)
         (fun st _ _ => Some (st, [], 1)) |}.
Definition f8_msgs : list (message nat bool) := [ Request 7 "textDocument/hover" false ].

Theorem nonfile_uri_old_refuted :
  exists (msgs : list (message nat bool)),
    lifecycle_free nat bool msgs = true /\
    (* the handler bodies are total, every parameter decodes *)
    (forall (st : unit) (f : unit) (p : bool), (fun st _ _ => Some (st, @nil unit, 1)) st f p <> None) /\
    run nat bool unit nat unit 0 [f8_entry true] [] true tt msgs = ([], Crashed) /\
    run nat bool unit nat unit 0 [f8_entry false] [] true tt msgs = ([EReply (ROk 7 0)], Running tt).
Proof.
  exists f8_msgs. split; [reflexivity|]. split; [discriminate|]. split; vm_compute; reflexivity.
Qed.

(* ---------------- non-vacuity ---------------- *)
(* A session over the real method tables mixing a good request, an undecodable one, an unknown
   method, a string-like id, notifications (one undecodable), a client response; then shutdown/exit. *)
Definition demo_msgs : list (message nat bool) :=
  [ Request 1 "textDocument/hover" true;
    Notification "textDocument/didOpen" false;
    Request 2 "textDocument/hover" false;
    Response 0 true;
    Request 3 "foo/bar" true;
    Notification "$/cancelRequest" true;
    Request 4 "workspace/symbol" true ].

Lemma demo_predict :
  lifecycle_free nat bool demo_msgs = true /\
  predict true vhdl_ls_requests vhdl_ls_notifications demo_msgs =
    ([(1, None); (2, Some INVALID_PARAMS); (3, Some METHOD_NOT_FOUND); (4, None)], 0%nat) /\
  predict true vhdl_ls_requests vhdl_ls_notifications
          (demo_msgs ++ [Request 5 "shutdown" false; Notification "exit" false]) =
    ([(1, None); (2, Some INVALID_PARAMS); (3, Some METHOD_NOT_FOUND); (4, None); (5, None)], 1%nat) /\
  (* shutdown not followed by exit: lsp_server reports a protocol error and the loop panics *)
  snd (predict true vhdl_ls_requests vhdl_ls_notifications
          (demo_msgs ++ [Request 5 "shutdown" false; Request 6 "textDocument/hover" true])) = 2%nat.
Proof. repeat split; vm_compute; reflexivity. Qed.
