(* Lsp/EditsProofs.v — proofs about the edit algebra of Lsp/Edits.v and the rename model of
   Lsp/Rename.v (C09).  Main results (pinned in Props/C09.v):
     edits_replace_exactly, outside_unchanged, replacement_present, apply_order_irrelevant,
     duplicate_edits_break, edits_ok_nodup, rename_edits_sound, prepare_refuses,
     prepare_accepts, rename_edits_of, rename_edit_count, rename_keeps_duplicates,
     alpha_rename_preserves, alpha_rename_valid, alpha_rename_exact,
     missed_occurrence_breaks, hyps_satisfiable. *)
From Coq Require Import List NArith Arith Bool Permutation Sorted Lia.
Import ListNotations.
From RH Require Import Text.Contents Text.Splice Lsp.Edits Lsp.Rename.
Close Scope N_scope.
Local Open Scope nat_scope.

#[local] Arguments N.add : simpl never.
#[local] Arguments N.sub : simpl never.
#[local] Arguments N.mul : simpl never.
#[local] Arguments N.eqb : simpl never.
#[local] Arguments N.ltb : simpl never.
#[local] Arguments N.leb : simpl never.
#[local] Arguments N.min : simpl never.
#[local] Arguments N.max : simpl never.

(* ------------------------------------------------------------------------------------ *)
(* 0. Generic list facts                                                                  *)
(* ------------------------------------------------------------------------------------ *)

Lemma firstn_add_split : forall (A : Type) (c k : nat) (l : list A),
  firstn (c + k) l = firstn c l ++ firstn k (skipn c l).
Proof.
  intros A c; induction c as [|c IH]; intros k l.
  - reflexivity.
  - destruct l as [|x l].
    + cbn [Nat.add firstn skipn app]. destruct k; reflexivity.
    + cbn [Nat.add firstn skipn app]. rewrite IH. reflexivity.
Qed.

Lemma firstn_le_split : forall (A : Type) (c a : nat) (l : list A),
  c <= a -> firstn a l = firstn c l ++ firstn (a - c) (skipn c l).
Proof.
  intros A c a l Hle. rewrite <- firstn_add_split. f_equal. lia.
Qed.

Lemma skipn_add : forall (A : Type) (c k : nat) (l : list A),
  skipn (c + k) l = skipn k (skipn c l).
Proof.
  intros A c; induction c as [|c IH]; intros k l.
  - reflexivity.
  - destruct l as [|x l].
    + cbn [Nat.add skipn]. destruct k; reflexivity.
    + cbn [Nat.add skipn]. apply IH.
Qed.

Lemma skipn_le_split : forall (A : Type) (c a : nat) (l : list A),
  c <= a -> skipn a l = skipn (a - c) (skipn c l).
Proof.
  intros A c a l Hle. rewrite <- skipn_add. f_equal. lia.
Qed.

Lemma nth_error_skipn_add : forall (A : Type) (c k : nat) (l : list A),
  nth_error (skipn c l) k = nth_error l (c + k).
Proof.
  intros A c; induction c as [|c IH]; intros k l.
  - reflexivity.
  - destruct l as [|x l].
    + cbn [skipn Nat.add]. destruct k; reflexivity.
    + cbn [skipn Nat.add nth_error]. apply IH.
Qed.

Lemma nth_error_firstn_lt : forall (A : Type) (k j : nat) (l : list A),
  j < k -> nth_error (firstn k l) j = nth_error l j.
Proof.
  intros A k; induction k as [|k IH]; intros j l Hlt.
  - lia.
  - destruct l as [|x l].
    + reflexivity.
    + destruct j as [|j]; cbn [firstn nth_error].
      * reflexivity.
      * apply IH. lia.
Qed.

Lemma nth_error_app_add : forall (A : Type) (l1 l2 : list A) (k : nat),
  nth_error (l1 ++ l2) (length l1 + k) = nth_error l2 k.
Proof.
  intros A l1 l2 k. rewrite nth_error_app2 by lia. f_equal. lia.
Qed.

Lemma skipn_app_add : forall (A : Type) (l1 l2 : list A) (k : nat),
  skipn (length l1 + k) (l1 ++ l2) = skipn k l2.
Proof.
  intros A l1; induction l1 as [|x l1 IH]; intros l2 k.
  - reflexivity.
  - cbn [length Nat.add app skipn]. apply IH.
Qed.

Lemma firstn_app_add : forall (A : Type) (l1 l2 : list A) (k : nat),
  firstn (length l1 + k) (l1 ++ l2) = l1 ++ firstn k l2.
Proof.
  intros A l1; induction l1 as [|x l1 IH]; intros l2 k.
  - reflexivity.
  - cbn [length Nat.add app firstn]. rewrite IH. reflexivity.
Qed.

Lemma firstn_app_exact : forall (A : Type) (l1 l2 : list A),
  firstn (length l1) (l1 ++ l2) = l1.
Proof.
  intros A l1 l2. replace (length l1) with (length l1 + 0) by lia.
  rewrite firstn_app_add. cbn [firstn]. apply app_nil_r.
Qed.

Lemma firstn_app_le : forall (A : Type) (l1 l2 : list A) (k : nat),
  k <= length l1 -> firstn k (l1 ++ l2) = firstn k l1.
Proof.
  intros A l1 l2 k Hle. rewrite firstn_app.
  replace (k - length l1) with 0 by lia. cbn [firstn]. apply app_nil_r.
Qed.

Lemma length_firstn_skipn : forall (A : Type) (c a : nat) (l : list A),
  c <= a -> a <= length l -> length (firstn (a - c) (skipn c l)) = a - c.
Proof.
  intros A c a l H1 H2. rewrite firstn_length, skipn_length. lia.
Qed.

(* ------------------------------------------------------------------------------------ *)
(* (b) rename.rs                                                                          *)
(* ------------------------------------------------------------------------------------ *)

Lemma prepare_refuses :
  forall c p,
    (forall s, prepare_rename c (Some (p, DOperatorSymbol s)) = None)
    /\ (forall ch, prepare_rename c (Some (p, DCharacter ch)) = None)
    /\ (forall n, prepare_rename c (Some (p, DAnonymous n)) = None)
    /\ prepare_rename c None = None.
Proof.
  intros c p. unfold prepare_rename.
  split; [|split; [|split]]; intros; destruct (ctx_ok c); reflexivity.
Qed.

Lemma prepare_accepts :
  forall c p n, ctx_ok c = true ->
    prepare_rename c (Some (p, DIdentifier n)) = Some (sp_start p, sp_end p).
Proof.
  intros c p n Hc. unfold prepare_rename. rewrite Hc. reflexivity.
Qed.

Lemma edits_of_push : forall m g e f,
  edits_of (push_edit m g e) f
  = if N.eqb g f then edits_of m f ++ [e] else edits_of m f.
Proof.
  intros m g e f. unfold edits_of.
  induction m as [|[h es] r IH].
  - cbn [push_edit find fst]. destruct (N.eqb g f); reflexivity.
  - cbn [push_edit]. destruct (N.eqb g h) eqn:Egh.
    + apply N.eqb_eq in Egh. subst h. cbn [find fst].
      destruct (N.eqb g f); reflexivity.
    + cbn [find fst]. destruct (N.eqb h f) eqn:Ehf.
      * apply N.eqb_eq in Ehf. subst h. rewrite Egh. reflexivity.
      * exact IH.
Qed.

Lemma edits_of_fold : forall new refs m f,
  edits_of (fold_left (fun m p => push_edit m (sp_file p) (mk_edit new p)) refs m) f
  = edits_of m f ++ map (mk_edit new) (refs_in f refs).
Proof.
  intros new refs; induction refs as [|p refs IH]; intros m f.
  - cbn [fold_left refs_in filter map]. rewrite app_nil_r. reflexivity.
  - cbn [fold_left]. rewrite IH. rewrite edits_of_push.
    unfold refs_in. cbn [filter].
    destruct (N.eqb (sp_file p) f).
    + cbn [map]. rewrite <- app_assoc. reflexivity.
    + reflexivity.
Qed.

Lemma rename_edits_of :
  forall new refs f, edits_of (rename_changes new refs) f = map (mk_edit new) (refs_in f refs).
Proof.
  intros new refs f. unfold rename_changes. rewrite edits_of_fold. reflexivity.
Qed.

Lemma count_push : forall m g e,
  length (concat (map snd (push_edit m g e))) = S (length (concat (map snd m))).
Proof.
  intros m g e. induction m as [|[h es] r IH].
  - reflexivity.
  - cbn [push_edit]. destruct (N.eqb g h).
    + cbn [map snd concat]. rewrite !app_length. cbn [length]. lia.
    + cbn [map snd concat]. rewrite !app_length. rewrite IH. lia.
Qed.

Lemma count_fold : forall new refs m,
  length (concat (map snd (fold_left (fun m p => push_edit m (sp_file p) (mk_edit new p)) refs m)))
  = length (concat (map snd m)) + length refs.
Proof.
  intros new refs; induction refs as [|p refs IH]; intros m.
  - cbn [fold_left length]. lia.
  - cbn [fold_left length]. rewrite IH, count_push. lia.
Qed.

Lemma rename_edit_count :
  forall new refs, length (concat (map snd (rename_changes new refs))) = length refs.
Proof.
  intros new refs. unfold rename_changes. rewrite count_fold. reflexivity.
Qed.

Lemma NoDup_map_iff_on : forall (A B : Type) (g : A -> B) (l : list A),
  (forall x y, In x l -> In y l -> g x = g y -> x = y) ->
  (NoDup (map g l) <-> NoDup l).
Proof.
  intros A B g l Hinj. split.
  - apply NoDup_map_inv.
  - intros Hnd. induction Hnd as [|x l Hnotin Hnd IH].
    + constructor.
    + cbn [map]. constructor.
      * intros Hin. apply in_map_iff in Hin. destruct Hin as [y [Heq Hy]].
        assert (Hxy : y = x).
        { apply Hinj; [right; exact Hy | left; reflexivity | exact Heq]. }
        subst y. exact (Hnotin Hy).
      * apply IH. intros a b Ha Hb. apply Hinj; right; assumption.
Qed.

Lemma rename_keeps_duplicates :
  forall new refs f, NoDup (edits_of (rename_changes new refs) f) <-> NoDup (refs_in f refs).
Proof.
  intros new refs f. rewrite rename_edits_of. apply NoDup_map_iff_on.
  intros x y Hx Hy Heq. unfold refs_in in Hx, Hy.
  apply filter_In in Hx. apply filter_In in Hy.
  destruct Hx as [_ Hx]. destruct Hy as [_ Hy].
  apply N.eqb_eq in Hx. apply N.eqb_eq in Hy.
  destruct x as [xf xs xe]. destruct y as [yf ys ye].
  cbn [sp_file] in Hx, Hy. unfold mk_edit in Heq. cbn [sp_start sp_end] in Heq.
  injection Heq as H1 H2. subst. reflexivity.
Qed.

(* ------------------------------------------------------------------------------------ *)
(* (c) reference semantics of name resolution                                             *)
(* ------------------------------------------------------------------------------------ *)

Definition ren_entry (d : nat) (new : N) (x : N * nat) : N * nat :=
  (if Nat.eqb (snd x) d then new else fst x, snd x).
Definition ren_region (d : nat) (new : N) (r : region) : region := map (ren_entry d new) r.
Definition ren_env (d : nat) (new : N) (env : list region) : list region :=
  map (ren_region d new) env.

Definition region_fresh (new : N) (r : region) : Prop := Forall (fun x => fst x <> new) r.
Definition env_fresh (new : N) (env : list region) : Prop := Forall (region_fresh new) env.

Lemma lookup_region_ren_other : forall d new r n,
  n <> new -> lookup_region r n <> Some d ->
  lookup_region (ren_region d new r) n = lookup_region r n.
Proof.
  intros d new r n Hn. induction r as [|[m k] r IH]; intros Hne.
  - reflexivity.
  - cbn [ren_region map ren_entry fst snd lookup_region] in *.
    destruct (N.eqb m n) eqn:Emn.
    + apply N.eqb_eq in Emn. subst m.
      destruct (Nat.eqb k d) eqn:Ekd.
      * apply Nat.eqb_eq in Ekd. subst k. exfalso. apply Hne. reflexivity.
      * rewrite N.eqb_refl. reflexivity.
    + destruct (Nat.eqb k d) eqn:Ekd.
      * assert (Hnn : N.eqb new n = false).
        { apply N.eqb_neq. intros Heq. apply Hn. symmetry. exact Heq. }
        rewrite Hnn. apply IH. exact Hne.
      * rewrite Emn. apply IH. exact Hne.
Qed.

Lemma lookup_region_ren_hit : forall d new r n,
  region_fresh new r -> lookup_region r n = Some d ->
  lookup_region (ren_region d new r) new = Some d.
Proof.
  intros d new r n Hf. induction Hf as [|[m k] r Hm Hf IH]; intros Hl.
  - discriminate Hl.
  - cbn [ren_region map ren_entry fst snd lookup_region] in *.
    destruct (Nat.eqb k d) eqn:Ekd.
    + apply Nat.eqb_eq in Ekd. subst k. rewrite N.eqb_refl. reflexivity.
    + destruct (N.eqb m n) eqn:Emn.
      * injection Hl as Hl. subst k. rewrite Nat.eqb_refl in Ekd. discriminate Ekd.
      * assert (Hmn : N.eqb m new = false) by (apply N.eqb_neq; exact Hm).
        rewrite Hmn. apply IH. exact Hl.
Qed.

Lemma lookup_region_ren_new : forall d new r,
  region_fresh new r ->
  lookup_region (ren_region d new r) new = Some d
  \/ lookup_region (ren_region d new r) new = None.
Proof.
  intros d new r Hf. induction Hf as [|[m k] r Hm Hf IH].
  - right. reflexivity.
  - cbn [ren_region map ren_entry fst snd lookup_region] in *.
    destruct (Nat.eqb k d) eqn:Ekd.
    + apply Nat.eqb_eq in Ekd. subst k. rewrite N.eqb_refl. left. reflexivity.
    + assert (Hmn : N.eqb m new = false) by (apply N.eqb_neq; exact Hm).
      rewrite Hmn. exact IH.
Qed.

Lemma lookup_env_ren_hit : forall d new env n,
  env_fresh new env -> lookup_env env n = Some d ->
  lookup_env (ren_env d new env) new = Some d.
Proof.
  intros d new env n Hf. induction Hf as [|r env Hr Hf IH]; intros Hl.
  - discriminate Hl.
  - cbn [ren_env map lookup_env] in *.
    destruct (lookup_region r n) as [e|] eqn:Er.
    + injection Hl as Hl. subst e.
      rewrite (lookup_region_ren_hit d new r n Hr Er). reflexivity.
    + destruct (lookup_region_ren_new d new r Hr) as [Hs|Hs]; rewrite Hs.
      * reflexivity.
      * apply IH. exact Hl.
Qed.

Lemma lookup_env_ren_other : forall d new env n,
  n <> new -> lookup_env env n <> Some d ->
  lookup_env (ren_env d new env) n = lookup_env env n.
Proof.
  intros d new env n Hn. induction env as [|r env IH]; intros Hne.
  - reflexivity.
  - cbn [ren_env map lookup_env] in *.
    destruct (lookup_region r n) as [e|] eqn:Er.
    + rewrite lookup_region_ren_other by (try exact Hn; rewrite Er; exact Hne).
      rewrite Er. reflexivity.
    + rewrite lookup_region_ren_other by (try exact Hn; rewrite Er; discriminate).
      rewrite Er. apply IH. exact Hne.
Qed.

Lemma resolve_rename_from : forall d new p env i,
  fresh new p = true -> env_fresh new env ->
  resolve_from (ren_env d new env) i (rename_items d new i p (resolve_from env i p))
  = resolve_from env i p.
Proof.
  intros d new p; induction p as [|x p IH]; intros env i Hfr Hef.
  - reflexivity.
  - unfold fresh in Hfr. cbn [forallb] in Hfr. apply andb_true_iff in Hfr.
    destruct Hfr as [Hx Hfr]. fold (fresh new p) in Hfr.
    destruct x as [n|n| |].
    + (* IDecl *)
      cbn [item_name] in Hx. apply negb_true_iff in Hx. apply N.eqb_neq in Hx.
      cbn [resolve_from rename_items].
      set (env1 := match env with [] => [[(n, i)]] | g :: env' => ((n, i) :: g) :: env' end).
      assert (Hef1 : env_fresh new env1).
      { subst env1. destruct env as [|g env'].
        - constructor; [|constructor]. constructor; [exact Hx|constructor].
        - inversion Hef as [|g0 e0 Hg He]; subst. constructor; [|exact He].
          constructor; [exact Hx|exact Hg]. }
      assert (Hren : match ren_env d new env with
                     | [] => [[(if Nat.eqb i d then new else n, i)]]
                     | g :: env' => ((if Nat.eqb i d then new else n, i) :: g) :: env'
                     end = ren_env d new env1).
      { subst env1. destruct env as [|g env']; reflexivity. }
      destruct (Nat.eqb i d) eqn:Eid.
      * cbn [resolve_from]. f_equal.
        etransitivity; [|apply IH; [exact Hfr|exact Hef1]].
        f_equal. exact Hren.
      * cbn [resolve_from]. f_equal.
        etransitivity; [|apply IH; [exact Hfr|exact Hef1]].
        f_equal. exact Hren.
    + (* IUse *)
      cbn [item_name] in Hx. apply negb_true_iff in Hx. apply N.eqb_neq in Hx.
      cbn [resolve_from rename_items].
      destruct (lookup_env env n) as [e|] eqn:El.
      * destruct (Nat.eqb e d) eqn:Eed.
        -- apply Nat.eqb_eq in Eed. subst e. cbn [resolve_from].
           rewrite (lookup_env_ren_hit d new env n Hef El).
           rewrite IH by assumption. reflexivity.
        -- cbn [resolve_from].
           rewrite lookup_env_ren_other.
           ++ rewrite El. rewrite IH by assumption. reflexivity.
           ++ exact Hx.
           ++ rewrite El. intros Heq. injection Heq as Heq. subst e.
              rewrite Nat.eqb_refl in Eed. discriminate Eed.
      * cbn [resolve_from].
        rewrite lookup_env_ren_other.
        -- rewrite El. rewrite IH by assumption. reflexivity.
        -- exact Hx.
        -- rewrite El. discriminate.
    + (* IEnter *)
      cbn [resolve_from rename_items].
      change ([] :: ren_env d new env) with (ren_env d new ([] :: env)).
      rewrite IH; [reflexivity|exact Hfr|].
      constructor; [constructor|exact Hef].
    + (* ILeave *)
      cbn [resolve_from rename_items].
      assert (Hren : match ren_env d new env with [] => [] | _ :: env' => env' end
                     = ren_env d new (match env with [] => [] | _ :: env' => env' end)).
      { destruct env; reflexivity. }
      rewrite Hren. rewrite IH; [reflexivity|exact Hfr|].
      destruct env as [|g env']; [constructor|].
      inversion Hef; assumption.
Qed.

Lemma alpha_rename_preserves :
  forall p d new, fresh new p = true -> resolve (alpha_rename d new p) = resolve p.
Proof.
  intros p d new Hfr. unfold resolve, alpha_rename, resolve.
  change [[]] with (ren_env d new [[]]) at 1.
  apply resolve_rename_from; [exact Hfr|].
  constructor; [constructor|constructor].
Qed.

Lemma all_resolved_rename : forall d new p i r,
  all_resolved p r = true -> all_resolved (rename_items d new i p r) r = true.
Proof.
  intros d new p; induction p as [|x p IH]; intros i r Hall.
  - destruct r; [reflexivity|discriminate Hall].
  - destruct r as [|y r]; [discriminate Hall|].
    cbn [all_resolved rename_items] in *.
    apply andb_true_iff in Hall. destruct Hall as [H1 H2].
    apply andb_true_iff. split.
    + destruct x as [n|n| |]; cbn [item_is_use] in *.
      * destruct (Nat.eqb i d); reflexivity.
      * destruct y as [e|]; [|discriminate H1].
        destruct (Nat.eqb e d); reflexivity.
      * reflexivity.
      * reflexivity.
    + apply IH. exact H2.
Qed.

Lemma alpha_rename_valid :
  forall p d new, fresh new p = true -> valid_prog p = true -> valid_prog (alpha_rename d new p) = true.
Proof.
  intros p d new Hfr Hv. unfold valid_prog in *.
  rewrite alpha_rename_preserves by exact Hfr.
  unfold alpha_rename. apply all_resolved_rename. exact Hv.
Qed.

Definition ren_item (d : nat) (new : N) (idx : nat) (x : item) (y : option nat) : item :=
  match x with
  | IDecl n => if Nat.eqb idx d then IDecl new else x
  | IUse n => match y with Some e => if Nat.eqb e d then IUse new else x | None => x end
  | _ => x
  end.

Lemma nth_rename_items : forall d new p k r j,
  nth_error (rename_items d new k p r) j
  = match nth_error p j with
    | None => None
    | Some x => match nth_error r j with
                | Some y => Some (ren_item d new (k + j) x y)
                | None => Some x
                end
    end.
Proof.
  intros d new p; induction p as [|x p IH]; intros k r j.
  - cbn [rename_items]. destruct j; reflexivity.
  - destruct r as [|y r].
    + cbn [rename_items]. destruct (nth_error (x :: p) j); [|reflexivity].
      destruct j; reflexivity.
    + cbn [rename_items]. destruct j as [|j].
      * cbn [nth_error]. rewrite Nat.add_0_r. reflexivity.
      * cbn [nth_error]. rewrite IH. replace (S k + j) with (k + S j) by lia. reflexivity.
Qed.

Lemma resolve_from_length : forall p env i, length (resolve_from env i p) = length p.
Proof.
  intros p; induction p as [|x p IH]; intros env i.
  - reflexivity.
  - destruct x; cbn [resolve_from length]; rewrite IH; reflexivity.
Qed.

Lemma resolve_from_some_use : forall p env k j e,
  nth_error (resolve_from env k p) j = Some (Some e) ->
  exists n, nth_error p j = Some (IUse n).
Proof.
  intros p; induction p as [|x p IH]; intros env k j e Hn.
  - destruct j; discriminate Hn.
  - destruct j as [|j].
    + destruct x as [n|n| |]; cbn [resolve_from nth_error] in Hn; try discriminate Hn.
      exists n. reflexivity.
    + destruct x as [n|n| |]; cbn [resolve_from nth_error] in Hn;
        cbn [nth_error]; eapply IH; exact Hn.
Qed.

Lemma alpha_rename_exact :
  forall p d new i,
    (nth_error (resolve p) i = Some (Some d) -> nth_error (alpha_rename d new p) i = Some (IUse new))
    /\ (is_decl_at p d = true -> nth_error (alpha_rename d new p) d = Some (IDecl new))
    /\ (i <> d -> nth_error (resolve p) i <> Some (Some d) ->
        nth_error (alpha_rename d new p) i = nth_error p i).
Proof.
  intros p d new i. unfold alpha_rename. split; [|split].
  - intros Hr. rewrite nth_rename_items.
    destruct (resolve_from_some_use p _ _ _ _ Hr) as [n Hn].
    rewrite Hn, Hr. cbn [ren_item]. rewrite Nat.eqb_refl. reflexivity.
  - intros Hd. unfold is_decl_at in Hd. rewrite nth_rename_items.
    destruct (nth_error p d) as [x|] eqn:Ep; [|discriminate Hd].
    destruct x as [n|n| |]; try discriminate Hd.
    destruct (nth_error (resolve p) d) as [y|] eqn:Er.
    + cbn [ren_item Nat.add]. rewrite Nat.eqb_refl. reflexivity.
    + exfalso. apply nth_error_None in Er. unfold resolve in Er.
      rewrite resolve_from_length in Er.
      assert (Hlt : d < length p) by (apply nth_error_Some; rewrite Ep; discriminate).
      lia.
  - intros Hid Hr. rewrite nth_rename_items.
    destruct (nth_error p i) as [x|] eqn:Ep; [|reflexivity].
    destruct (nth_error (resolve p) i) as [y|] eqn:Er; [|reflexivity].
    destruct x as [n|n| |]; cbn [ren_item Nat.add]; try reflexivity.
    + destruct (Nat.eqb i d) eqn:Eid; [|reflexivity].
      apply Nat.eqb_eq in Eid. contradiction.
    + destruct y as [e|]; [|reflexivity].
      destruct (Nat.eqb e d) eqn:Eed; [|reflexivity].
      apply Nat.eqb_eq in Eed. subst e. exfalso. apply Hr. reflexivity.
Qed.

Lemma missed_occurrence_breaks :
  exists p p' d new, fresh new p = true /\ valid_prog p = true /\
    p' = [IDecl new; IUse 1%N] /\ alpha_rename d new p = [IDecl new; IUse new] /\
    resolve p' <> resolve p /\ valid_prog p' = false.
Proof.
  exists [IDecl 1%N; IUse 1%N], [IDecl 9%N; IUse 1%N], 0, 9%N.
  split; [reflexivity|]. split; [reflexivity|]. split; [reflexivity|].
  split; [reflexivity|]. split; [|reflexivity].
  vm_compute. discriminate.
Qed.

(* ------------------------------------------------------------------------------------ *)
(* concrete witnesses                                                                     *)
(* ------------------------------------------------------------------------------------ *)

Lemma duplicate_edits_break :
  exists s e, oe_inside (length s) e = true /\ wf_set (length s) [e; e] = false /\
              apply_oedits s [e; e] <> apply_oedits s [e].
Proof.
  exists [97; 98; 32; 99]%N, (0, 2, [120; 121; 122]%N).
  split; [reflexivity|]. split; [reflexivity|].
  vm_compute. discriminate.
Qed.

Lemma hyps_satisfiable :
  let s := [115; 105; 103; 32; 60; 61; 32; 115; 105; 103; 95; 50; 32; 111; 114; 32; 83; 73; 71; 59; 10]%N in
  let es := [(16, 19, [110; 49]%N); (0, 3, [110; 49]%N)] in
  rename_edits_ok s [115; 105; 103]%N [110; 49]%N es = true
  /\ apply_oedits s es = [110; 49; 32; 60; 61; 32; 115; 105; 103; 95; 50; 32; 111; 114; 32; 110; 49; 59; 10]%N
  /\ apply_edits s [TE 0 16 0 19 [110; 49]%N; TE 0 0 0 3 [110; 49]%N] = apply_oedits s es
  /\ rename_edits_ok s [115; 105; 103]%N [110; 49]%N [(7, 10, [110; 49]%N)] = false.
Proof.
  cbv zeta.
  split; [vm_compute; reflexivity|]. split; [vm_compute; reflexivity|].
  split; [vm_compute; reflexivity|]. vm_compute; reflexivity.
Qed.

(* ------------------------------------------------------------------------------------ *)
(* (a) edit algebra: sorted lists                                                         *)
(* ------------------------------------------------------------------------------------ *)

Lemma wf_sorted_cons : forall cur n e r,
  wf_sorted cur n (e :: r) = true ->
  cur <= oe_start e /\ oe_start e <= oe_end e /\ wf_sorted (oe_end e) n r = true.
Proof.
  intros cur n e r H. cbn [wf_sorted] in H.
  apply andb_true_iff in H. destruct H as [H H3].
  apply andb_true_iff in H. destruct H as [H1 H2].
  apply Nat.leb_le in H1. apply Nat.leb_le in H2. auto.
Qed.

Lemma wf_sorted_le : forall es cur n, wf_sorted cur n es = true -> cur <= n.
Proof.
  intros es; induction es as [|e r IH]; intros cur n H.
  - cbn [wf_sorted] in H. apply Nat.leb_le in H. exact H.
  - apply wf_sorted_cons in H. destruct H as [H1 [H2 H3]].
    apply IH in H3. lia.
Qed.

Lemma wf_sorted_In : forall es cur n e,
  wf_sorted cur n es = true -> In e es ->
  cur <= oe_start e /\ oe_start e <= oe_end e /\ oe_end e <= n.
Proof.
  intros es; induction es as [|x r IH]; intros cur n e H Hin.
  - destruct Hin.
  - apply wf_sorted_cons in H. destruct H as [H1 [H2 H3]].
    destruct Hin as [Heq|Hin].
    + subst x. apply wf_sorted_le in H3. lia.
    + destruct (IH _ _ _ H3 Hin) as [H4 [H5 H6]]. lia.
Qed.

Lemma apply_sorted_simul : forall s es cur,
  wf_sorted cur (length s) es = true ->
  apply_sorted s es = firstn cur s ++ simul s cur es.
Proof.
  intros s es; induction es as [|e r IH]; intros cur H.
  - cbn [apply_sorted fold_right simul]. symmetry. apply firstn_skipn.
  - apply wf_sorted_cons in H. destruct H as [H1 [H2 H3]].
    pose proof (wf_sorted_le _ _ _ H3) as Hb.
    change (apply_sorted s (e :: r)) with (apply_one (apply_sorted s r) e).
    rewrite (IH _ H3). unfold apply_one, splice. cbn [simul].
    assert (Hlen : length (firstn (oe_end e) s) = oe_end e).
    { rewrite firstn_length. lia. }
    rewrite firstn_app_le by lia.
    rewrite firstn_firstn. replace (Nat.min (oe_start e) (oe_end e)) with (oe_start e) by lia.
    assert (Hsk : skipn (oe_end e) (firstn (oe_end e) s ++ simul s (oe_end e) r)
                  = simul s (oe_end e) r).
    { pose proof (skipn_app_add _ (firstn (oe_end e) s) (simul s (oe_end e) r) 0) as Hs.
      rewrite Hlen, Nat.add_0_r in Hs. exact Hs. }
    rewrite Hsk.
    rewrite (firstn_le_split _ cur (oe_start e) s H1).
    rewrite <- app_assoc. reflexivity.
Qed.

Lemma edits_replace_exactly :
  forall s es, wf_sorted 0 (length s) es = true -> apply_sorted s es = simul s 0 es.
Proof.
  intros s es H. rewrite (apply_sorted_simul s es 0 H). reflexivity.
Qed.

(* edits of a sorted list that start at or after `cur` contribute nothing before `cur` *)
Lemma before_zero_lt : forall es cur n i,
  wf_sorted cur n es = true -> i < cur ->
  added_before es i = 0 /\ removed_before es i = 0.
Proof.
  intros es; induction es as [|e r IH]; intros cur n i H Hi.
  - split; reflexivity.
  - apply wf_sorted_cons in H. destruct H as [H1 [H2 H3]].
    cbn [added_before removed_before].
    assert (Hl : Nat.leb (oe_end e) i = false) by (apply Nat.leb_gt; lia).
    rewrite Hl. destruct (IH (oe_end e) n i H3) as [Ha Hr]; [lia|].
    rewrite Ha, Hr. split; reflexivity.
Qed.

Definition nonempty (e : oedit) : Prop := oe_start e < oe_end e.

Lemma before_zero_le : forall es cur n i,
  wf_sorted cur n es = true -> Forall nonempty es -> i <= cur ->
  added_before es i = 0 /\ removed_before es i = 0.
Proof.
  intros es; induction es as [|e r IH]; intros cur n i H Hne Hi.
  - split; reflexivity.
  - apply wf_sorted_cons in H. destruct H as [H1 [H2 H3]].
    inversion Hne as [|e0 r0 He Hr0]; subst. unfold nonempty in He.
    cbn [added_before removed_before].
    assert (Hl : Nat.leb (oe_end e) i = false) by (apply Nat.leb_gt; lia).
    rewrite Hl. destruct (IH (oe_end e) n i H3 Hr0) as [Ha Hr]; [lia|].
    rewrite Ha, Hr. split; reflexivity.
Qed.

Lemma removed_le : forall es cur n i,
  wf_sorted cur n es = true -> cur <= i -> removed_before es i + cur <= i.
Proof.
  intros es; induction es as [|e r IH]; intros cur n i H Hi.
  - cbn [removed_before]. lia.
  - apply wf_sorted_cons in H. destruct H as [H1 [H2 H3]].
    cbn [removed_before].
    destruct (Nat.leb (oe_end e) i) eqn:El.
    + apply Nat.leb_le in El. pose proof (IH _ _ _ H3 El). lia.
    + apply Nat.leb_gt in El.
      destruct (before_zero_lt r (oe_end e) n i H3 El) as [_ Hr]. rewrite Hr. lia.
Qed.

Lemma outside_cons : forall e r i,
  outside (e :: r) i = true ->
  (i < oe_start e \/ oe_end e <= i) /\ outside r i = true.
Proof.
  intros e r i H. unfold outside in H. cbn [forallb] in H.
  apply andb_true_iff in H. destruct H as [H1 H2]. split; [|exact H2].
  apply orb_true_iff in H1. destruct H1 as [H1|H1].
  - left. apply Nat.ltb_lt. exact H1.
  - right. apply Nat.leb_le. exact H1.
Qed.

Lemma outside_unchanged_gen : forall s es cur i,
  wf_sorted cur (length s) es = true -> outside es i = true -> cur <= i ->
  nth_error (simul s cur es) (i + added_before es i - removed_before es i - cur)
  = nth_error s i.
Proof.
  intros s es; induction es as [|e r IH]; intros cur i H Ho Hi.
  - cbn [simul added_before removed_before].
    rewrite nth_error_skipn_add. f_equal. lia.
  - pose proof H as Hwf.
    apply wf_sorted_cons in H. destruct H as [H1 [H2 H3]].
    pose proof (wf_sorted_le _ _ _ H3) as Hb.
    apply outside_cons in Ho. destruct Ho as [Ho Hor].
    cbn [simul added_before removed_before].
    destruct Ho as [Ho|Ho].
    + assert (Hl : Nat.leb (oe_end e) i = false) by (apply Nat.leb_gt; lia).
      rewrite Hl.
      destruct (before_zero_lt r (oe_end e) _ i H3) as [Ha Hr]; [lia|].
      rewrite Ha, Hr.
      replace (i + (0 + 0) - (0 + 0) - cur) with (i - cur) by lia.
      rewrite nth_error_app1.
      2:{ rewrite length_firstn_skipn by lia. lia. }
      rewrite nth_error_firstn_lt by lia.
      rewrite nth_error_skipn_add. f_equal. lia.
    + assert (Hl : Nat.leb (oe_end e) i = true) by (apply Nat.leb_le; lia).
      rewrite Hl.
      pose proof (removed_le _ _ _ i H3 Ho) as Hrem.
      pose proof (IH _ _ H3 Hor Ho) as IH'.
      pose proof (length_firstn_skipn _ cur (oe_start e) s H1 ltac:(lia)) as Hlen.
      replace (i + (length (oe_text e) + added_before r i)
               - (oe_end e - oe_start e + removed_before r i) - cur)
        with (length (firstn (oe_start e - cur) (skipn cur s))
              + (length (oe_text e)
                 + (i + added_before r i - removed_before r i - oe_end e))) by lia.
      rewrite nth_error_app_add, nth_error_app_add. exact IH'.
Qed.

Lemma outside_unchanged :
  forall s es i, wf_sorted 0 (length s) es = true -> outside es i = true -> i < length s ->
    nth_error (simul s 0 es) (new_index es i) = nth_error s i.
Proof.
  intros s es i H Ho _. unfold new_index.
  rewrite <- (outside_unchanged_gen s es 0 i H Ho (Nat.le_0_l i)).
  f_equal. lia.
Qed.

Lemma sub_add : forall (l : list char) a k, sub l a (a + k) = firstn k (skipn a l).
Proof.
  intros l a k. unfold sub. f_equal. lia.
Qed.

Lemma replacement_present_gen : forall s es cur e,
  wf_sorted cur (length s) es = true -> Forall nonempty es -> In e es ->
  firstn (length (oe_text e))
    (skipn (oe_start e + added_before es (oe_start e) - removed_before es (oe_start e) - cur)
       (simul s cur es)) = oe_text e.
Proof.
  intros s es; induction es as [|x r IH]; intros cur e H Hne Hin.
  - destruct Hin.
  - pose proof H as Hwf.
    apply wf_sorted_cons in H. destruct H as [H1 [H2 H3]].
    pose proof (wf_sorted_le _ _ _ H3) as Hb.
    inversion Hne as [|x0 r0 Hx Hr0]; subst. unfold nonempty in Hx.
    pose proof (length_firstn_skipn _ cur (oe_start x) s H1 ltac:(lia)) as Hlen.
    cbn [simul added_before removed_before].
    destruct Hin as [Heq|Hin].
    + subst x.
      assert (Hl : Nat.leb (oe_end e) (oe_start e) = false) by (apply Nat.leb_gt; lia).
      rewrite Hl.
      destruct (before_zero_lt r (oe_end e) _ (oe_start e) H3) as [Ha Hr]; [lia|].
      rewrite Ha, Hr.
      replace (oe_start e + (0 + 0) - (0 + 0) - cur)
        with (length (firstn (oe_start e - cur) (skipn cur s)) + 0) by lia.
      rewrite skipn_app_add. cbn [skipn]. apply firstn_app_exact.
    + destruct (wf_sorted_In _ _ _ _ H3 Hin) as [H4 [H5 H6]].
      assert (Hl : Nat.leb (oe_end x) (oe_start e) = true) by (apply Nat.leb_le; lia).
      rewrite Hl.
      pose proof (removed_le _ _ _ (oe_start e) H3 H4) as Hrem.
      pose proof (IH _ _ H3 Hr0 Hin) as IH'.
      replace (oe_start e + (length (oe_text x) + added_before r (oe_start e))
               - (oe_end x - oe_start x + removed_before r (oe_start e)) - cur)
        with (length (firstn (oe_start x - cur) (skipn cur s))
              + (length (oe_text x)
                 + (oe_start e + added_before r (oe_start e)
                    - removed_before r (oe_start e) - oe_end x))) by lia.
      rewrite skipn_app_add, skipn_app_add. exact IH'.
Qed.

Lemma inside_nonempty : forall n es,
  forallb (oe_inside n) es = true -> Forall nonempty es.
Proof.
  intros n es H. apply Forall_forall. intros e Hin.
  rewrite forallb_forall in H. specialize (H e Hin).
  unfold oe_inside in H. apply andb_true_iff in H. destruct H as [H _].
  apply Nat.ltb_lt in H. exact H.
Qed.

Lemma replacement_present :
  forall s es e, wf_sorted 0 (length s) es = true -> forallb (oe_inside (length s)) es = true ->
    In e es ->
    sub (simul s 0 es) (new_start es e) (new_start es e + length (oe_text e)) = oe_text e.
Proof.
  intros s es e H Hin He. rewrite sub_add. unfold new_start.
  rewrite <- (replacement_present_gen s es 0 e H (inside_nonempty _ _ Hin) He) at 2.
  f_equal. f_equal. lia.
Qed.

(* ------------------------------------------------------------------------------------ *)
(* (a) edit algebra: sorting                                                              *)
(* ------------------------------------------------------------------------------------ *)

Lemma insert_oe_perm : forall x l, Permutation (insert_oe x l) (x :: l).
Proof.
  intros x l; induction l as [|y r IH].
  - apply Permutation_refl.
  - cbn [insert_oe]. destruct (oe_le x y).
    + apply Permutation_refl.
    + apply perm_trans with (y :: x :: r).
      * apply perm_skip. exact IH.
      * apply perm_swap.
Qed.

Lemma sort_oe_perm : forall l, Permutation (sort_oe l) l.
Proof.
  intros l; induction l as [|x l IH].
  - apply Permutation_refl.
  - cbn [sort_oe fold_right]. fold (sort_oe l).
    apply perm_trans with (x :: sort_oe l).
    + apply insert_oe_perm.
    + apply perm_skip. exact IH.
Qed.

Lemma forallb_perm : forall (A : Type) (f : A -> bool) l l',
  Permutation l l' -> forallb f l = true -> forallb f l' = true.
Proof.
  intros A f l l' Hp H. apply forallb_forall. intros x Hx.
  rewrite forallb_forall in H. apply H.
  apply Permutation_in with l'; [apply Permutation_sym; exact Hp|exact Hx].
Qed.

Lemma oe_disjoint_sym : forall x y, oe_disjoint x y = oe_disjoint y x.
Proof.
  intros x y. unfold oe_disjoint. apply orb_comm.
Qed.

Lemma pairwise_disjoint_perm : forall l l',
  Permutation l l' -> pairwise_disjoint l = true -> pairwise_disjoint l' = true.
Proof.
  intros l l' Hp; induction Hp as [|x l l' Hp IH|x y l|l l' l'' Hp1 IH1 Hp2 IH2]; intros H.
  - reflexivity.
  - cbn [pairwise_disjoint] in *. apply andb_true_iff in H. destruct H as [H1 H2].
    apply andb_true_iff. split.
    + apply forallb_perm with l; assumption.
    + apply IH. exact H2.
  - cbn [pairwise_disjoint forallb] in *.
    apply andb_true_iff in H. destruct H as [H1 H2].
    apply andb_true_iff in H1. destruct H1 as [H1 H3].
    apply andb_true_iff in H2. destruct H2 as [H2 H4].
    rewrite oe_disjoint_sym, H1, H2, H3, H4. reflexivity.
  - apply IH2. apply IH1. exact H.
Qed.

(* the order on a disjoint set of non-empty ranges *)
Definition oe_before (x y : oedit) : Prop := oe_end x <= oe_start y.
Definition SS (l : list oedit) : Prop := StronglySorted oe_before l.

Lemma insert_oe_SS : forall x l,
  nonempty x -> Forall nonempty l -> forallb (oe_disjoint x) l = true ->
  SS l -> SS (insert_oe x l).
Proof.
  intros x l Hx; induction l as [|y r IH]; intros Hne Hd Hs.
  - cbn [insert_oe]. constructor; constructor.
  - inversion Hne as [|y0 r0 Hy Hner]; subst.
    inversion Hs as [|y0 r0 Hsr Hyr]; subst.
    cbn [forallb] in Hd. apply andb_true_iff in Hd. destruct Hd as [Hdy Hdr].
    unfold nonempty in Hx, Hy.
    unfold oe_disjoint in Hdy. apply orb_true_iff in Hdy.
    cbn [insert_oe]. destruct (oe_le x y) eqn:Ele.
    + assert (Hxy : oe_before x y).
      { unfold oe_before. unfold oe_le in Ele. apply orb_true_iff in Ele.
        destruct Ele as [Ele|Ele].
        - apply Nat.ltb_lt in Ele. destruct Hdy as [Hd|Hd]; apply Nat.leb_le in Hd; lia.
        - apply andb_true_iff in Ele. destruct Ele as [Ele _]. apply Nat.eqb_eq in Ele.
          destruct Hdy as [Hd|Hd]; apply Nat.leb_le in Hd; lia. }
      constructor; [exact Hs|].
      constructor; [exact Hxy|].
      apply Forall_forall. intros z Hz.
      rewrite Forall_forall in Hyr. specialize (Hyr z Hz).
      unfold oe_before in *. lia.
    + assert (Hyx : oe_before y x).
      { unfold oe_before. unfold oe_le in Ele. apply orb_false_iff in Ele.
        destruct Ele as [Ele1 Ele2]. apply Nat.ltb_ge in Ele1.
        destruct Hdy as [Hd|Hd]; apply Nat.leb_le in Hd; lia. }
      constructor.
      * apply IH; assumption.
      * apply Permutation_Forall with (x :: r).
        -- apply Permutation_sym. apply insert_oe_perm.
        -- constructor; assumption.
Qed.

Lemma sort_oe_SS : forall l,
  Forall nonempty l -> pairwise_disjoint l = true -> SS (sort_oe l).
Proof.
  intros l; induction l as [|x l IH]; intros Hne Hd.
  - constructor.
  - inversion Hne as [|x0 l0 Hx Hnel]; subst.
    cbn [pairwise_disjoint] in Hd. apply andb_true_iff in Hd. destruct Hd as [Hdx Hdl].
    cbn [sort_oe fold_right]. fold (sort_oe l).
    apply insert_oe_SS.
    + exact Hx.
    + apply Permutation_Forall with l; [apply Permutation_sym; apply sort_oe_perm|exact Hnel].
    + apply forallb_perm with l; [apply Permutation_sym; apply sort_oe_perm|exact Hdx].
    + apply IH; assumption.
Qed.

Lemma SS_unique : forall l1 l2,
  SS l1 -> SS l2 -> Forall nonempty l1 -> Permutation l1 l2 -> l1 = l2.
Proof.
  intros l1; induction l1 as [|a l1 IH]; intros l2 Hs1 Hs2 Hne Hp.
  - apply Permutation_nil in Hp. subst. reflexivity.
  - destruct l2 as [|b l2].
    + apply Permutation_sym in Hp. apply Permutation_nil in Hp. discriminate Hp.
    + inversion Hs1 as [|a0 l0 Hs1' Ha]; subst.
      inversion Hs2 as [|b0 l0 Hs2' Hb]; subst.
      inversion Hne as [|a0 l0 Hna Hne']; subst.
      assert (Hab : a = b).
      { assert (Hina : In a (b :: l2)).
        { apply Permutation_in with (a :: l1); [exact Hp|left; reflexivity]. }
        assert (Hinb : In b (a :: l1)).
        { apply Permutation_in with (b :: l2); [apply Permutation_sym; exact Hp|left; reflexivity]. }
        destruct Hina as [Heq|Hina]; [symmetry; exact Heq|].
        destruct Hinb as [Heq|Hinb]; [exact Heq|].
        exfalso.
        rewrite Forall_forall in Ha, Hb, Hne'.
        pose proof (Ha b Hinb) as H1. pose proof (Hb a Hina) as H2.
        pose proof (Hne' b Hinb) as H3.
        unfold oe_before, nonempty in *. lia. }
      subst b. f_equal. apply IH; try assumption.
      apply Permutation_cons_inv with a. exact Hp.
Qed.

Lemma SS_wf_sorted : forall n l cur,
  SS l -> Forall (fun e => oe_inside n e = true) l ->
  (forall e, In e l -> cur <= oe_start e) -> cur <= n ->
  wf_sorted cur n l = true.
Proof.
  intros n l; induction l as [|e r IH]; intros cur Hs Hin Hcur Hn.
  - cbn [wf_sorted]. apply Nat.leb_le. exact Hn.
  - inversion Hs as [|e0 r0 Hsr Her]; subst.
    inversion Hin as [|e0 r0 He Hinr]; subst.
    unfold oe_inside in He. apply andb_true_iff in He. destruct He as [He1 He2].
    apply Nat.ltb_lt in He1. apply Nat.leb_le in He2.
    cbn [wf_sorted]. apply andb_true_iff. split; [apply andb_true_iff; split|].
    + apply Nat.leb_le. apply Hcur. left. reflexivity.
    + apply Nat.leb_le. lia.
    + apply IH; try assumption.
      rewrite Forall_forall in Her. intros z Hz. apply (Her z Hz).
Qed.

Lemma wf_set_sorted : forall n es,
  wf_set n es = true -> wf_sorted 0 n (sort_oe es) = true /\ SS (sort_oe es).
Proof.
  intros n es H. unfold wf_set in H. apply andb_true_iff in H. destruct H as [Hin Hd].
  assert (Hs : SS (sort_oe es)).
  { apply sort_oe_SS; [apply inside_nonempty with n; exact Hin|exact Hd]. }
  split; [|exact Hs].
  apply SS_wf_sorted.
  - exact Hs.
  - apply Forall_forall. intros e He. rewrite forallb_forall in Hin. apply Hin.
    apply Permutation_in with (sort_oe es); [apply sort_oe_perm|exact He].
  - intros; lia.
  - lia.
Qed.

Lemma wf_set_perm : forall n es es',
  Permutation es es' -> wf_set n es = true -> wf_set n es' = true.
Proof.
  intros n es es' Hp H. unfold wf_set in *. apply andb_true_iff in H. destruct H as [H1 H2].
  apply andb_true_iff. split.
  - apply forallb_perm with es; assumption.
  - apply pairwise_disjoint_perm with es; assumption.
Qed.

Lemma sort_oe_perm_eq : forall n es es',
  wf_set n es = true -> Permutation es es' -> sort_oe es' = sort_oe es.
Proof.
  intros n es es' H Hp.
  pose proof (wf_set_perm _ _ _ Hp H) as H'.
  destruct (wf_set_sorted _ _ H) as [_ Hs]. destruct (wf_set_sorted _ _ H') as [_ Hs'].
  apply SS_unique; try assumption.
  - unfold wf_set in H'. apply andb_true_iff in H'. destruct H' as [Hin _].
    apply Permutation_Forall with es'; [apply Permutation_sym; apply sort_oe_perm|].
    apply inside_nonempty with n. exact Hin.
  - apply perm_trans with es'; [apply sort_oe_perm|].
    apply perm_trans with es; [apply Permutation_sym; exact Hp|].
    apply Permutation_sym. apply sort_oe_perm.
Qed.

Lemma apply_order_irrelevant :
  forall s es es', wf_set (length s) es = true -> Permutation es es' ->
    apply_oedits s es' = simul s 0 (sort_oe es) /\ apply_oedits s es' = apply_oedits s es.
Proof.
  intros s es es' H Hp. unfold apply_oedits.
  rewrite (sort_oe_perm_eq _ _ _ H Hp). split; [|reflexivity].
  apply edits_replace_exactly. apply wf_set_sorted. exact H.
Qed.

Lemma wf_sorted_NoDup : forall l cur n,
  wf_sorted cur n l = true -> Forall nonempty l -> NoDup l.
Proof.
  intros l; induction l as [|e r IH]; intros cur n H Hne.
  - constructor.
  - apply wf_sorted_cons in H. destruct H as [H1 [H2 H3]].
    inversion Hne as [|e0 r0 He Hner]; subst. unfold nonempty in He.
    constructor.
    + intros Hin. destruct (wf_sorted_In _ _ _ _ H3 Hin) as [H4 _]. lia.
    + apply IH with (oe_end e) n; assumption.
Qed.

(* ------------------------------------------------------------------------------------ *)
(* (a) edit algebra: token level                                                          *)
(* ------------------------------------------------------------------------------------ *)

Lemma list_eqb_eq : forall x y, list_eqb x y = true -> x = y.
Proof.
  intros x; induction x as [|a x IH]; intros y H; destruct y as [|b y];
    cbn [list_eqb] in H; try discriminate H.
  - reflexivity.
  - apply andb_true_iff in H. destruct H as [H1 H2].
    apply N.eqb_eq in H1. apply IH in H2. subst. reflexivity.
Qed.

Lemma letter_ident : forall c, is_letter c = true -> is_ident_char c = true.
Proof.
  intros c H. unfold is_ident_char. rewrite H. reflexivity.
Qed.

Lemma ident_not_lf : forall c, is_ident_char c = true -> N.eqb c LF = false.
Proof.
  intros c H. destruct (N.eqb c LF) eqn:E; [|reflexivity].
  apply N.eqb_eq in E. subst c. vm_compute in H. discriminate H.
Qed.

Lemma count_lf_app : forall x y, count_lf (x ++ y) = count_lf x + count_lf y.
Proof.
  intros x y. unfold count_lf. rewrite filter_app, app_length. reflexivity.
Qed.

Lemma count_lf_ident : forall l, forallb is_ident_char l = true -> count_lf l = 0.
Proof.
  intros l; induction l as [|c l IH]; intros H.
  - reflexivity.
  - cbn [forallb] in H. apply andb_true_iff in H. destruct H as [H1 H2].
    unfold count_lf. cbn [filter]. rewrite (ident_not_lf c H1). apply IH. exact H2.
Qed.

Definition tok_ok (s new : list char) (e : oedit) : Prop :=
  oe_start e < oe_end e /\ oe_end e <= length s
  /\ forallb is_ident_char (sub s (oe_start e) (oe_end e)) = true
  /\ ident_char_at s (oe_start e) = true
  /\ (forall a0, oe_start e = S a0 -> ident_char_at s a0 = false)
  /\ ident_char_at s (oe_end e) = false
  /\ oe_text e = new.

Lemma rename_edit_ok_spec : forall s old new e,
  rename_edit_ok s old new e = true -> tok_ok s new e.
Proof.
  intros s old new e H. unfold rename_edit_ok in H.
  apply andb_true_iff in H. destruct H as [H Ht].
  apply andb_true_iff in H. destruct H as [H _].
  apply list_eqb_eq in Ht.
  unfold ident_token in H.
  apply andb_true_iff in H. destruct H as [H H6].
  apply andb_true_iff in H. destruct H as [H H5].
  apply andb_true_iff in H. destruct H as [H H4].
  apply andb_true_iff in H. destruct H as [H H3].
  apply andb_true_iff in H. destruct H as [H1 H2].
  apply Nat.ltb_lt in H1. apply Nat.leb_le in H2.
  apply negb_true_iff in H6.
  unfold tok_ok. split; [exact H1|]. split; [exact H2|]. split; [exact H3|].
  split; [|split; [|split; [exact H6|exact Ht]]].
  - unfold ident_char_at. destruct (char_at s (oe_start e)) as [c|]; [|discriminate H4].
    apply letter_ident. exact H4.
  - intros a0 Ha. rewrite Ha in H5. apply negb_true_iff in H5. exact H5.
Qed.

Lemma tok_ok_nonempty : forall s new l, Forall (tok_ok s new) l -> Forall nonempty l.
Proof.
  intros s new l H. apply Forall_forall. intros e He.
  rewrite Forall_forall in H. destruct (H e He) as [H1 _]. exact H1.
Qed.

Lemma rename_edits_ok_spec : forall s old new es,
  rename_edits_ok s old new es = true ->
  valid_ident new = true
  /\ wf_sorted 0 (length s) (sort_oe es) = true
  /\ Forall (tok_ok s new) es.
Proof.
  intros s old new es H. unfold rename_edits_ok in H.
  apply andb_true_iff in H. destruct H as [H H3].
  apply andb_true_iff in H. destruct H as [H1 H2].
  split; [exact H1|]. split; [exact H2|].
  apply Forall_forall. intros e He. rewrite forallb_forall in H3.
  apply rename_edit_ok_spec with old. apply H3. exact He.
Qed.

Lemma edits_ok_nodup :
  forall s old new es, rename_edits_ok s old new es = true -> NoDup es.
Proof.
  intros s old new es H. apply rename_edits_ok_spec in H. destruct H as [_ [Hwf Htok]].
  apply Permutation_NoDup with (sort_oe es); [apply sort_oe_perm|].
  apply wf_sorted_NoDup with 0 (length s); [exact Hwf|].
  apply tok_ok_nonempty with s new.
  apply Permutation_Forall with es; [apply Permutation_sym; apply sort_oe_perm|exact Htok].
Qed.

Lemma valid_ident_spec : forall new,
  valid_ident new = true ->
  exists c new', new = c :: new' /\ is_letter c = true /\ forallb is_ident_char new = true.
Proof.
  intros new H. destruct new as [|c new']; [discriminate H|].
  unfold valid_ident in H. apply andb_true_iff in H. destruct H as [H1 H2].
  exists c, new'. auto.
Qed.

(* line structure *)
Definition lf_free_edit (s : list char) (e : oedit) : Prop :=
  count_lf (firstn (oe_end e - oe_start e) (skipn (oe_start e) s)) = 0
  /\ count_lf (oe_text e) = 0.

Lemma firstn_skipn_3 : forall (s : list char) cur a b i,
  cur <= a -> a <= b -> b <= i ->
  firstn (i - cur) (skipn cur s)
  = firstn (a - cur) (skipn cur s) ++ firstn (b - a) (skipn a s) ++ firstn (i - b) (skipn b s).
Proof.
  intros s cur a b i H1 H2 H3.
  replace (i - cur) with ((a - cur) + ((b - a) + (i - b))) by lia.
  rewrite firstn_add_split. rewrite <- skipn_add.
  replace (cur + (a - cur)) with a by lia.
  rewrite firstn_add_split. rewrite <- skipn_add.
  replace (a + (b - a)) with b by lia. reflexivity.
Qed.

Lemma skipn_3 : forall (s : list char) cur a b,
  cur <= a -> a <= b ->
  skipn cur s
  = firstn (a - cur) (skipn cur s) ++ firstn (b - a) (skipn a s) ++ skipn b s.
Proof.
  intros s cur a b H1 H2.
  pose proof (firstn_skipn (a - cur) (skipn cur s)) as E1.
  rewrite <- skipn_add in E1. replace (cur + (a - cur)) with a in E1 by lia.
  pose proof (firstn_skipn (b - a) (skipn a s)) as E2.
  rewrite <- skipn_add in E2. replace (a + (b - a)) with b in E2 by lia.
  transitivity (firstn (a - cur) (skipn cur s) ++ skipn a s);
    [symmetry; exact E1 | f_equal; symmetry; exact E2].
Qed.

Lemma count_lf_simul : forall s es cur,
  wf_sorted cur (length s) es = true -> Forall (lf_free_edit s) es ->
  count_lf (simul s cur es) = count_lf (skipn cur s).
Proof.
  intros s es; induction es as [|e r IH]; intros cur H Hlf.
  - reflexivity.
  - apply wf_sorted_cons in H. destruct H as [H1 [H2 H3]].
    inversion Hlf as [|e0 r0 He Hlfr]; subst. destruct He as [He1 He2].
    cbn [simul]. rewrite !count_lf_app. rewrite (IH _ H3 Hlfr).
    pose proof (f_equal count_lf (skipn_3 s cur (oe_start e) (oe_end e) H1 H2)) as Hs.
    rewrite !count_lf_app in Hs. rewrite Hs, He1, He2. lia.
Qed.

Lemma line_of_simul : forall s es cur i,
  wf_sorted cur (length s) es = true -> Forall (lf_free_edit s) es ->
  outside es i = true -> cur <= i ->
  count_lf (firstn (i + added_before es i - removed_before es i - cur) (simul s cur es))
  = count_lf (firstn (i - cur) (skipn cur s)).
Proof.
  intros s es; induction es as [|e r IH]; intros cur i H Hlf Ho Hi.
  - cbn [simul added_before removed_before].
    replace (i + 0 - 0 - cur) with (i - cur) by lia. reflexivity.
  - apply wf_sorted_cons in H. destruct H as [H1 [H2 H3]].
    pose proof (wf_sorted_le _ _ _ H3) as Hb.
    inversion Hlf as [|e0 r0 He Hlfr]; subst. destruct He as [He1 He2].
    apply outside_cons in Ho. destruct Ho as [Ho Hor].
    pose proof (length_firstn_skipn _ cur (oe_start e) s H1 ltac:(lia)) as Hlen.
    cbn [simul added_before removed_before].
    destruct Ho as [Ho|Ho].
    + assert (Hl : Nat.leb (oe_end e) i = false) by (apply Nat.leb_gt; lia).
      rewrite Hl.
      destruct (before_zero_lt r (oe_end e) _ i H3) as [Ha Hr]; [lia|].
      rewrite Ha, Hr.
      replace (i + (0 + 0) - (0 + 0) - cur) with (i - cur) by lia.
      rewrite firstn_app_le by lia.
      rewrite firstn_firstn.
      replace (Nat.min (i - cur) (oe_start e - cur)) with (i - cur) by lia.
      reflexivity.
    + assert (Hl : Nat.leb (oe_end e) i = true) by (apply Nat.leb_le; lia).
      rewrite Hl.
      pose proof (removed_le _ _ _ i H3 Ho) as Hrem.
      pose proof (IH _ _ H3 Hlfr Hor Ho) as IH'.
      replace (i + (length (oe_text e) + added_before r i)
               - (oe_end e - oe_start e + removed_before r i) - cur)
        with (length (firstn (oe_start e - cur) (skipn cur s))
              + (length (oe_text e)
                 + (i + added_before r i - removed_before r i - oe_end e))) by lia.
      rewrite firstn_app_add, firstn_app_add.
      rewrite (firstn_skipn_3 s cur (oe_start e) (oe_end e) i H1 H2 Ho).
      rewrite !count_lf_app. rewrite IH', He1, He2. reflexivity.
Qed.

(* shifts *)
Lemma before_step : forall l i,
  (forall x, In x l -> oe_end x <> S i) ->
  added_before l i = added_before l (S i) /\ removed_before l i = removed_before l (S i).
Proof.
  intros l i; induction l as [|x r IH]; intros H.
  - split; reflexivity.
  - cbn [added_before removed_before].
    destruct IH as [IHa IHr]; [intros z Hz; apply H; right; exact Hz|].
    assert (Hx : oe_end x <> S i) by (apply H; left; reflexivity).
    assert (Hl : Nat.leb (oe_end x) i = Nat.leb (oe_end x) (S i)).
    { destruct (Nat.leb (oe_end x) i) eqn:E1; destruct (Nat.leb (oe_end x) (S i)) eqn:E2;
        try reflexivity.
      - apply Nat.leb_le in E1. apply Nat.leb_gt in E2. lia.
      - apply Nat.leb_gt in E1. apply Nat.leb_le in E2. lia. }
    rewrite Hl, IHa, IHr. split; reflexivity.
Qed.

Lemma range_step : forall l cur n e,
  wf_sorted cur n l = true -> Forall nonempty l -> In e l ->
  added_before l (oe_end e) = added_before l (oe_start e) + length (oe_text e)
  /\ removed_before l (oe_end e) = removed_before l (oe_start e) + (oe_end e - oe_start e).
Proof.
  intros l; induction l as [|x r IH]; intros cur n e H Hne Hin.
  - destruct Hin.
  - apply wf_sorted_cons in H. destruct H as [H1 [H2 H3]].
    inversion Hne as [|x0 r0 Hx Hner]; subst. unfold nonempty in Hx.
    cbn [added_before removed_before].
    destruct Hin as [Heq|Hin].
    + subst x.
      assert (Hl1 : Nat.leb (oe_end e) (oe_end e) = true) by (apply Nat.leb_le; lia).
      assert (Hl2 : Nat.leb (oe_end e) (oe_start e) = false) by (apply Nat.leb_gt; lia).
      rewrite Hl1, Hl2.
      destruct (before_zero_le r (oe_end e) n (oe_end e) H3 Hner) as [Ha Hr]; [lia|].
      destruct (before_zero_le r (oe_end e) n (oe_start e) H3 Hner) as [Ha' Hr']; [lia|].
      rewrite Ha, Hr, Ha', Hr'. split; lia.
    + destruct (wf_sorted_In _ _ _ _ H3 Hin) as [H4 [H5 H6]].
      assert (Hl1 : Nat.leb (oe_end x) (oe_end e) = true) by (apply Nat.leb_le; lia).
      assert (Hl2 : Nat.leb (oe_end x) (oe_start e) = true) by (apply Nat.leb_le; lia).
      rewrite Hl1, Hl2.
      destruct (IH _ _ _ H3 Hner Hin) as [IHa IHr]. rewrite IHa, IHr. split; lia.
Qed.

Lemma wf_sorted_pair : forall l cur n x y,
  wf_sorted cur n l = true -> In x l -> In y l ->
  x = y \/ oe_end x <= oe_start y \/ oe_end y <= oe_start x.
Proof.
  intros l; induction l as [|e r IH]; intros cur n x y H Hx Hy.
  - destruct Hx.
  - apply wf_sorted_cons in H. destruct H as [H1 [H2 H3]].
    destruct Hx as [Hx|Hx]; destruct Hy as [Hy|Hy].
    + left. congruence.
    + subst e. right. left. apply (wf_sorted_In _ _ _ _ H3 Hy).
    + subst e. right. right. apply (wf_sorted_In _ _ _ _ H3 Hx).
    + apply IH with (oe_end e) n; assumption.
Qed.

Lemma outside_unchanged0 : forall s es i,
  wf_sorted 0 (length s) es = true -> outside es i = true ->
  nth_error (simul s 0 es) (new_index es i) = nth_error s i.
Proof.
  intros s es i H Ho. unfold new_index.
  rewrite <- (outside_unchanged_gen s es 0 i H Ho (Nat.le_0_l i)).
  f_equal. lia.
Qed.

Lemma outside_intro : forall es i,
  (forall x, In x es -> i < oe_start x \/ oe_end x <= i) -> outside es i = true.
Proof.
  intros es i H. unfold outside. apply forallb_forall. intros x Hx.
  apply orb_true_iff. destruct (H x Hx) as [H1|H1].
  - left. apply Nat.ltb_lt. exact H1.
  - right. apply Nat.leb_le. exact H1.
Qed.

(* the neighbours of a renamed token in the result *)
Lemma token_neighbours : forall s new ses e,
  wf_sorted 0 (length s) ses = true -> Forall (tok_ok s new) ses -> In e ses ->
  let a' := new_start ses e in
  (forall a'', a' = S a'' -> ident_char_at (simul s 0 ses) a'' = false)
  /\ ident_char_at (simul s 0 ses) (a' + length new) = false.
Proof.
  intros s new ses e Hwf Htok Hin a'.
  pose proof (tok_ok_nonempty _ _ _ Htok) as Hne.
  rewrite Forall_forall in Htok.
  destruct (Htok e Hin) as [E1 [E2 [E3 [E4 [E5 [E6 E7]]]]]].
  pose proof (removed_le _ _ _ (oe_start e) Hwf (Nat.le_0_l _)) as Hrem.
  subst a'. unfold new_start. split.
  - intros a'' Ha.
    destruct (oe_start e) as [|a0] eqn:Ea.
    + exfalso.
      destruct (before_zero_le ses 0 (length s) 0 Hwf Hne (Nat.le_refl 0)) as [Hz1 Hz2].
      rewrite Hz1, Hz2 in Ha. discriminate Ha.
    + assert (Hnoend : forall x, In x ses -> oe_end x <> S a0).
      { intros x Hx Heq. destruct (Htok x Hx) as [_ [_ [_ [_ [_ [X6 _]]]]]].
        rewrite Heq in X6. rewrite X6 in E4. discriminate E4. }
      assert (Hout : outside ses a0 = true).
      { apply outside_intro. intros x Hx.
        pose proof (Hnoend x Hx) as Hx1.
        destruct (wf_sorted_pair _ _ _ x e Hwf Hx Hin) as [Hp|[Hp|Hp]].
        - subst x. left. lia.
        - right. lia.
        - left. lia. }
      destruct (before_step ses a0 Hnoend) as [Hsa Hsr].
      pose proof (outside_unchanged0 s ses a0 Hwf Hout) as Hnth.
      unfold new_index in Hnth.
      assert (Hidx : a'' = a0 + added_before ses a0 - removed_before ses a0).
      { rewrite Hsa, Hsr. lia. }
      unfold ident_char_at, char_at. rewrite Hidx, Hnth.
      apply (E5 a0 eq_refl).
  - assert (Hout : outside ses (oe_end e) = true).
    { apply outside_intro. intros x Hx.
      destruct (wf_sorted_pair _ _ _ x e Hwf Hx Hin) as [Hp|[Hp|Hp]].
      - subst x. right. lia.
      - right. lia.
      - destruct (Nat.eq_dec (oe_start x) (oe_end e)) as [Heq|Hneq]; [|left; lia].
        exfalso. destruct (Htok x Hx) as [_ [_ [_ [X4 _]]]].
        rewrite Heq in X4. rewrite X4 in E6. discriminate E6. }
    destruct (range_step ses 0 (length s) e Hwf Hne Hin) as [Hra Hrr].
    pose proof (outside_unchanged0 s ses (oe_end e) Hwf Hout) as Hnth.
    unfold new_index in Hnth. rewrite Hra, Hrr, E7 in Hnth.
    replace (oe_end e + (added_before ses (oe_start e) + length new)
             - (removed_before ses (oe_start e) + (oe_end e - oe_start e)))
      with (oe_start e + added_before ses (oe_start e) - removed_before ses (oe_start e)
            + length new) in Hnth by lia.
    unfold ident_char_at, char_at. rewrite Hnth. exact E6.
Qed.

Lemma rename_edits_sound :
  forall s old new es, rename_edits_ok s old new es = true ->
    let ses := sort_oe es in
    let r := apply_oedits s es in
    r = simul s 0 ses
    /\ (forall i, i < length s -> outside es i = true ->
          nth_error r (new_index ses i) = nth_error s i
          /\ line_of r (new_index ses i) = line_of s i)
    /\ (forall e, In e es ->
          let a' := new_start ses e in
          ident_token r a' (a' + length new) = true /\ sub r a' (a' + length new) = new)
    /\ count_lf r = count_lf s.
Proof.
  intros s old new es H ses r.
  apply rename_edits_ok_spec in H. destruct H as [Hv [Hwf Htok]].
  fold ses in Hwf.
  assert (Hperm : Permutation es ses) by (apply Permutation_sym; apply sort_oe_perm).
  assert (Htoks : Forall (tok_ok s new) ses) by (apply Permutation_Forall with es; assumption).
  pose proof (tok_ok_nonempty _ _ _ Htoks) as Hne.
  destruct (valid_ident_spec new Hv) as [c0 [new' [Hnew [Hc0 Hnewid]]]].
  assert (Hr : r = simul s 0 ses).
  { subst r. unfold apply_oedits. fold ses. apply edits_replace_exactly. exact Hwf. }
  assert (Hlf : Forall (lf_free_edit s) ses).
  { apply Forall_forall. intros e He. rewrite Forall_forall in Htoks.
    destruct (Htoks e He) as [E1 [E2 [E3 [E4 [E5 [E6 E7]]]]]].
    split.
    - apply count_lf_ident. exact E3.
    - rewrite E7. apply count_lf_ident. exact Hnewid. }
  split; [exact Hr|]. rewrite Hr. clear Hr r.
  split; [|split].
  - intros i Hi Ho.
    assert (Hos : outside ses i = true).
    { unfold outside in *. apply forallb_perm with es; assumption. }
    split.
    + apply outside_unchanged0; assumption.
    + unfold line_of, new_index.
      pose proof (line_of_simul s ses 0 i Hwf Hlf Hos (Nat.le_0_l i)) as Hl.
      rewrite !Nat.sub_0_r in Hl. cbn [skipn] in Hl. exact Hl.
  - intros e He a'.
    assert (Hes : In e ses) by (apply Permutation_in with es; assumption).
    assert (Hinside : forallb (oe_inside (length s)) ses = true).
    { apply forallb_forall. intros x Hx. rewrite Forall_forall in Htoks.
      destruct (Htoks x Hx) as [X1 [X2 _]]. unfold oe_inside.
      apply andb_true_iff. split; [apply Nat.ltb_lt; exact X1|apply Nat.leb_le; exact X2]. }
    assert (Htext : oe_text e = new).
    { rewrite Forall_forall in Htoks. apply (Htoks e Hes). }
    pose proof (replacement_present s ses e Hwf Hinside Hes) as Hsub.
    rewrite Htext in Hsub. fold a' in Hsub.
    split; [|exact Hsub].
    destruct (token_neighbours s new ses e Hwf Htoks Hes) as [Hbefore Hafter].
    fold a' in Hbefore, Hafter.
    assert (Hlen : a' + length new <= length (simul s 0 ses)).
    { pose proof (f_equal (@length char) Hsub) as Hl.
      rewrite sub_add, firstn_length, skipn_length in Hl.
      rewrite Hnew in *. cbn [length] in *. lia. }
    assert (Hfirst : char_at (simul s 0 ses) a' = Some c0).
    { rewrite sub_add in Hsub. unfold char_at.
      replace a' with (a' + 0) by lia. rewrite <- nth_error_skipn_add.
      destruct (skipn a' (simul s 0 ses)) as [|y l].
      - rewrite firstn_nil in Hsub. rewrite Hnew in Hsub. discriminate Hsub.
      - rewrite Hnew in Hsub. cbn [length firstn] in Hsub.
        injection Hsub as Hy _. subst y. reflexivity. }
    unfold ident_token. rewrite Hsub, Hnewid, Hfirst, Hc0, Hafter.
    assert (Hlt : Nat.ltb a' (a' + length new) = true).
    { apply Nat.ltb_lt. rewrite Hnew. cbn [length]. lia. }
    assert (Hle : Nat.leb (a' + length new) (length (simul s 0 ses)) = true).
    { apply Nat.leb_le. exact Hlen. }
    rewrite Hlt, Hle.
    destruct a' as [|a''] eqn:Ea.
    + reflexivity.
    + rewrite (Hbefore a'' eq_refl). reflexivity.
  - rewrite (count_lf_simul s ses 0 Hwf Hlf). reflexivity.
Qed.
