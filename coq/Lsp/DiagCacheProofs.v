(* Lsp/DiagCacheProofs.v — proofs about the model Lsp/DiagCache.v (statements pinned in Props/C14.v). *)
From Coq Require Import List Bool NArith Permutation.
Import ListNotations.
From RH Require Import Lsp.DiagCache.
Open Scope N_scope.


Local Notation keys m := (map fst m).

(* ------------------------------------------------------------------ generic list facts *)
Lemma NoDup_app_intro {A} (l1 l2 : list A) :
  NoDup l1 -> NoDup l2 -> (forall x, In x l1 -> ~ In x l2) -> NoDup (l1 ++ l2).
Proof.
  induction l1 as [|a l1 IH]; intros N1 N2 D; cbn; [exact N2|].
  inversion N1 as [|? ? Na N1']; subst. constructor.
  - intros Hin. apply in_app_or in Hin as [Hin|Hin]; [exact (Na Hin)|].
    exact (D a (or_introl eq_refl) Hin).
  - apply IH; [exact N1'|exact N2|]. intros x Hx. apply D. right. exact Hx.
Qed.

Lemma opt_severity_eqb_eq a b : opt_severity_eqb a b = true -> a = b.
Proof. destruct a as [[]|], b as [[]|]; cbn; intros H; first [reflexivity|discriminate H]. Qed.

Section Proofs.
  Variables uri file code range msg : Type.
  Variable uri_eqb : uri -> uri -> bool.
  Variable file_eqb : file -> file -> bool.
  Variable code_eqb : code -> code -> bool.
  Variable range_eqb : range -> range -> bool.
  Variable msg_eqb : msg -> msg -> bool.
  Variable file_uri : file -> option uri.
  Variable related_msg : msg -> msg.
  Variable related_code : code.
  Variable all_codes : list code.

  Notation diag := (@DiagCache.diag file code range msg).
  Notation lsp_diag := (@DiagCache.lsp_diag uri code range msg).
  Notation amap := (list (uri * list diag)).
  Notation notif := (uri * list lsp_diag)%type.
  Notation sevmap := (code -> option severity).
  Notation server := (@DiagCache.server uri file code range msg).
  Notation client := (uri -> option (list lsp_diag)).
  Notation event := (@DiagCache.event file code range msg).

  Variable reorder : amap -> amap.

  Notation lookup := (DiagCache.lookup uri_eqb).
  Notation remove := (DiagCache.remove uri_eqb).
  Notation insert := (DiagCache.insert uri_eqb).
  Notation push := (@DiagCache.push_by_uri uri file code range msg uri_eqb).
  Notation by_uri_acc := (@DiagCache.by_uri_acc uri file code range msg uri_eqb file_uri).
  Notation by_uri := (DiagCache.diagnostics_by_uri uri_eqb file_uri).
  Notation to_lsp_related := (DiagCache.to_lsp_related file_uri).
  Notation to_lsp_diagnostic := (DiagCache.to_lsp_diagnostic file_uri).
  Notation render := (DiagCache.render file_uri).
  Notation diags_eqb := (DiagCache.diags_eqb file_eqb code_eqb range_eqb msg_eqb).
  Notation diag_eqb := (DiagCache.diag_eqb file_eqb code_eqb range_eqb msg_eqb).
  Notation related_eqb := (@DiagCache.related_eqb file range msg file_eqb range_eqb msg_eqb).
  Notation sev_eqb := (DiagCache.sev_eqb all_codes).
  Notation pass1 := (DiagCache.pass1 uri_eqb file_eqb code_eqb range_eqb msg_eqb file_uri).
  Notation pass2 := (DiagCache.pass2 uri_eqb file_uri).
  Notation prepare := (DiagCache.prepare related_msg related_code).
  Notation flatten := (DiagCache.flatten_related related_msg related_code).
  Notation publish :=
    (DiagCache.publish uri_eqb file_eqb code_eqb range_eqb msg_eqb file_uri related_msg related_code reorder).
  Notation set_severity := (DiagCache.set_severity all_codes).
  Notation step :=
    (DiagCache.step uri_eqb file_eqb code_eqb range_eqb msg_eqb file_uri related_msg related_code all_codes reorder).
  Notation run :=
    (DiagCache.run uri_eqb file_eqb code_eqb range_eqb msg_eqb file_uri related_msg related_code all_codes reorder).
  Notation run_trace :=
    (DiagCache.run_trace uri_eqb file_eqb code_eqb range_eqb msg_eqb file_uri related_msg related_code all_codes reorder).
  Notation deliver := (DiagCache.deliver uri_eqb).
  Notation deliver_all := (DiagCache.deliver_all uri_eqb).
  Notation in_uri := (DiagCache.in_uri uri_eqb file_uri).
  Notation cur_of := (DiagCache.cur_of uri_eqb file_uri related_msg related_code).
  Notation view_ok := (DiagCache.view_ok file_uri).
  Notation diag_files_ok := (DiagCache.diag_files_ok file_uri).
  Notation event_files_ok := (DiagCache.event_files_ok file_uri).

  (* ================================================================ facts that need no hypothesis *)

  Lemma In_remove {V} (x : uri * V) k (m : list (uri * V)) : In x (remove k m) -> In x m.
  Proof.
    induction m as [|[k' v] m IH]; cbn; [tauto|].
    destruct (uri_eqb k k'); cbn; [tauto|]. intros [H|H]; [left; exact H|right; exact (IH H)].
  Qed.

  Lemma lookup_Some_val {V} k (v : V) (m : list (uri * V)) : lookup k m = Some v -> exists k', In (k', v) m.
  Proof.
    induction m as [|[k' v'] m IH]; cbn; [discriminate|].
    destruct (uri_eqb k k').
    - intros H; inversion H; subst. exists k'. left. reflexivity.
    - intros H. destruct (IH H) as [k0 H0]. exists k0. right. exact H0.
  Qed.

  Lemma run_app fixed st (h1 h2 : list event) sc :
    run fixed st sc (h1 ++ h2) =
    match run fixed st sc h1 with Crash => Crash | Ok sc' => run fixed st sc' h2 end.
  Proof.
    revert sc. induction h1 as [|e h1 IH]; intros sc; cbn [DiagCache.run app]; [reflexivity|].
    destruct (step fixed st sc e) as [sc'|]; [apply IH|reflexivity].
  Qed.

  Lemma publish_sev st (s s' : server) raw (ns : list notif) :
    publish st s raw = Ok (s', ns) -> sev s' = sev s.
  Proof.
    unfold DiagCache.publish. destruct (no_lint st).
    - intros H; inversion H; subst. reflexivity.
    - destruct (by_uri (prepare st raw)) as [cur|]; [|discriminate].
      destruct (pass1 (sev s) (reorder (cache s)) cur) as [[[c1 rest] n1]|]; [|discriminate].
      destruct (pass2 (sev s) (reorder rest) c1) as [[c2 n2]|]; [|discriminate].
      intros H; inversion H; subst. reflexivity.
  Qed.

  Lemma sev_set (fixed : bool) (s : server) (sm : sevmap) :
    sev ((if fixed then set_severity else @DiagCache.set_severity_old uri file code range msg) s sm) = sm.
  Proof. destruct fixed; reflexivity. Qed.

  Lemma severity_gen fixed st (h : list event) : forall (s0 : server) (cl0 : client) s cl,
    run fixed st (s0, cl0) h = Ok (s, cl) -> sev s = last_severity (sev s0) h.
  Proof.
    induction h as [|e h IH]; intros s0 cl0 s cl R; cbn [DiagCache.run] in R.
    - inversion R; subst. reflexivity.
    - destruct e as [raw|sm]; cbn [DiagCache.step fst snd] in R; cbn [last_severity].
      + destruct (publish st s0 raw) as [[s1 ns]|] eqn:P; [|discriminate R].
        rewrite (IH _ _ _ _ R). rewrite (publish_sev _ _ _ _ _ P). reflexivity.
      + rewrite (IH _ _ _ _ R). rewrite sev_set. reflexivity.
  Qed.

  Lemma no_lint_gen fixed st (h : list event) : no_lint st = true ->
    forall s0 : server, exists s, run fixed st (s0, no_client) h = Ok (s, no_client).
  Proof.
    intros NL. induction h as [|e h IH]; intros s0; cbn [DiagCache.run].
    - exists s0. reflexivity.
    - destruct e as [raw|sm]; cbn [DiagCache.step fst snd].
      + unfold DiagCache.publish. rewrite NL. cbn [DiagCache.deliver_all fold_left]. apply IH.
      + apply IH.
  Qed.

  Lemma trace_gen fixed st (h : list event) : forall (s0 : server) (cl0 : client) s cl,
    run fixed st (s0, cl0) h = Ok (s, cl) ->
    exists nss, run_trace fixed st s0 h = map Ok nss /\
                forall u, cl u = deliver_all cl0 (concat nss) u.
  Proof.
    induction h as [|e h IH]; intros s0 cl0 s cl R; cbn [DiagCache.run] in R.
    - inversion R; subst. exists []. split; reflexivity.
    - destruct e as [raw|sm]; cbn [DiagCache.step fst snd] in R; cbn [DiagCache.run_trace].
      + destruct (publish st s0 raw) as [[s1 ns]|] eqn:P; [|discriminate R].
        destruct (IH _ _ _ _ R) as (nss & T & C). exists (ns :: nss). split.
        * cbn [map]. rewrite T. reflexivity.
        * intros u. rewrite C. cbn [concat]. unfold DiagCache.deliver_all. rewrite fold_left_app. reflexivity.
      + destruct (IH _ _ _ _ R) as (nss & T & C). exists ([] :: nss). split.
        * cbn [map]. rewrite T. reflexivity.
        * intros u. rewrite C. reflexivity.
  Qed.

  (* ================================================================ association lists (uri_eqb correct) *)
  Hypothesis uri_ok : eqb_correct uri_eqb.

  Lemma ueqb_spec k j : reflect (k = j) (uri_eqb k j).
  Proof.
    destruct (uri_eqb k j) eqn:E; constructor.
    - apply uri_ok. exact E.
    - intros H. apply uri_ok in H. congruence.
  Qed.

  Lemma ueqb_refl k : uri_eqb k k = true.
  Proof. apply uri_ok. reflexivity. Qed.

  Lemma ueqb_neq k j : k <> j -> uri_eqb k j = false.
  Proof. intros N. destruct (ueqb_spec k j) as [E|_]; [contradiction|reflexivity]. Qed.

  Lemma lookup_remove_eq {V} k (m : list (uri * V)) : lookup k (remove k m) = None.
  Proof.
    induction m as [|[k' v] m IH]; cbn; [reflexivity|].
    destruct (uri_eqb k k') eqn:E; [exact IH|]. cbn. rewrite E. exact IH.
  Qed.

  Lemma lookup_remove_neq {V} k j (m : list (uri * V)) : k <> j -> lookup k (remove j m) = lookup k m.
  Proof.
    intros N. induction m as [|[k' v] m IH]; cbn; [reflexivity|].
    destruct (ueqb_spec j k') as [E|E].
    - subst k'. rewrite (ueqb_neq _ _ N). exact IH.
    - cbn. destruct (uri_eqb k k'); [reflexivity|exact IH].
  Qed.

  Lemma lookup_None_notin {V} k (m : list (uri * V)) : lookup k m = None <-> ~ In k (keys m).
  Proof.
    induction m as [|[k' v] m IH]; cbn; [tauto|].
    destruct (ueqb_spec k k') as [E|E].
    - subst. split; [discriminate|]. intros H. exfalso. apply H. left. reflexivity.
    - rewrite IH. split.
      + intros H [H1|H1]; [congruence|exact (H H1)].
      + intros H H1. apply H. right. exact H1.
  Qed.

  Lemma lookup_Some_In {V} k (v : V) (m : list (uri * V)) : lookup k m = Some v -> In (k, v) m.
  Proof.
    induction m as [|[k' v'] m IH]; cbn; [discriminate|].
    destruct (ueqb_spec k k') as [E|E].
    - intros H; inversion H; subst. left. reflexivity.
    - intros H. right. exact (IH H).
  Qed.

  Lemma lookup_Some_key {V} k (v : V) (m : list (uri * V)) : lookup k m = Some v -> In k (keys m).
  Proof. intros H. apply lookup_Some_In in H. apply (in_map fst) in H. exact H. Qed.

  Lemma In_lookup {V} k (v : V) (m : list (uri * V)) : NoDup (keys m) -> In (k, v) m -> lookup k m = Some v.
  Proof.
    induction m as [|[k' v'] m IH]; cbn; intros ND H; [contradiction|].
    inversion ND as [|? ? Nk ND']; subst.
    destruct H as [H|H].
    - inversion H; subst. rewrite ueqb_refl. reflexivity.
    - destruct (ueqb_spec k k') as [E|E].
      + subst. exfalso. apply Nk. apply (in_map fst) in H. exact H.
      + exact (IH ND' H).
  Qed.

  Lemma NoDup_keys_perm {V} (m m' : list (uri * V)) : Permutation m m' -> NoDup (keys m) -> NoDup (keys m').
  Proof. intros P. apply Permutation_NoDup. apply Permutation_map. exact P. Qed.

  Lemma lookup_perm {V} (m m' : list (uri * V)) k :
    NoDup (keys m) -> Permutation m m' -> lookup k m' = lookup k m.
  Proof.
    intros ND P. destruct (lookup k m) as [v|] eqn:L.
    - apply In_lookup; [exact (NoDup_keys_perm _ _ P ND)|].
      apply (Permutation_in _ P). apply lookup_Some_In. exact L.
    - apply lookup_None_notin. apply lookup_None_notin in L. intros H. apply L.
      apply (Permutation_in _ (Permutation_sym (Permutation_map fst P))). exact H.
  Qed.

  Lemma lookup_insert {V} k j (v : V) (m : list (uri * V)) :
    lookup k (insert j v m) = if uri_eqb k j then Some v else lookup k m.
  Proof.
    induction m as [|[k' v'] m IH]; cbn; [reflexivity|].
    destruct (ueqb_spec j k') as [E|E].
    - subst k'. cbn. destruct (uri_eqb k j); reflexivity.
    - cbn. destruct (ueqb_spec k k') as [E2|E2].
      + subst k'. rewrite ueqb_neq; [reflexivity|]. intros H. apply E. symmetry. exact H.
      + exact IH.
  Qed.

  Lemma In_keys_insert {V} k j (v : V) (m : list (uri * V)) :
    In k (keys (insert j v m)) -> k = j \/ In k (keys m).
  Proof.
    induction m as [|[k' v'] m IH]; cbn.
    - intros [H|[]]. left. symmetry. exact H.
    - destruct (uri_eqb j k'); cbn; [tauto|]. intros [H|H]; [tauto|]. destruct (IH H); tauto.
  Qed.

  Lemma NoDup_keys_insert {V} j (v : V) (m : list (uri * V)) : NoDup (keys m) -> NoDup (keys (insert j v m)).
  Proof.
    induction m as [|[k' v'] m IH]; cbn; intros ND.
    - constructor; [intros []|constructor].
    - inversion ND as [|? ? Nk ND']; subst.
      destruct (ueqb_spec j k') as [E|E]; cbn; [exact ND|].
      constructor; [|exact (IH ND')].
      intros H. apply In_keys_insert in H as [H|H]; [apply E; symmetry; exact H|exact (Nk H)].
  Qed.

  Lemma In_keys_remove {V} k j (m : list (uri * V)) : In k (keys (remove j m)) -> In k (keys m).
  Proof.
    induction m as [|[k' v'] m IH]; cbn; [tauto|].
    destruct (uri_eqb j k'); cbn; [tauto|]. intros [H|H]; [tauto|right; exact (IH H)].
  Qed.

  Lemma NoDup_keys_remove {V} j (m : list (uri * V)) : NoDup (keys m) -> NoDup (keys (remove j m)).
  Proof.
    induction m as [|[k' v'] m IH]; cbn; intros ND; [constructor|].
    inversion ND as [|? ? Nk ND']; subst.
    destruct (uri_eqb j k'); cbn; [exact (IH ND')|].
    constructor; [|exact (IH ND')]. intros H. apply Nk. exact (In_keys_remove _ _ _ H).
  Qed.

  (* ---------------------------------------------------------------- the client *)
  Lemma deliver_all_lookup (ns : list notif) : forall (cl : client) u,
    NoDup (keys ns) ->
    deliver_all cl ns u = match lookup u ns with Some l => Some l | None => cl u end.
  Proof.
    induction ns as [|[k l] ns IH]; intros cl u ND; [reflexivity|].
    inversion ND as [|? ? Nk ND']; subst.
    change (deliver_all cl ((k, l) :: ns) u) with (deliver_all (deliver cl (k, l)) ns u).
    rewrite (IH _ _ ND'). unfold DiagCache.deliver. cbn [fst snd DiagCache.lookup].
    destruct (ueqb_spec u k) as [E|E]; [|reflexivity].
    subst. assert (lookup k ns = None) as -> by (apply lookup_None_notin; exact Nk). reflexivity.
  Qed.

  Lemma deliver_all_app_lookup (n1 n2 : list notif) (cl : client) u :
    NoDup (keys n1) -> NoDup (keys n2) ->
    deliver_all cl (n1 ++ n2) u =
    match lookup u n2 with
    | Some l => Some l
    | None => match lookup u n1 with Some l => Some l | None => cl u end
    end.
  Proof.
    intros N1 N2. unfold DiagCache.deliver_all. rewrite fold_left_app.
    change (deliver_all (deliver_all cl n1) n2 u = match lookup u n2 with
    | Some l => Some l
    | None => match lookup u n1 with Some l => Some l | None => cl u end
    end).
    rewrite (deliver_all_lookup n2 _ u N2). rewrite (deliver_all_lookup n1 cl u N1). reflexivity.
  Qed.

  (* ================================================================ rendering *)
  Lemma render_ext (a b : sevmap) (ds : list diag) : (forall c, a c = b c) -> render a ds = render b ds.
  Proof.
    intros E. induction ds as [|d ds IH]; cbn [DiagCache.render]; [reflexivity|].
    unfold DiagCache.to_lsp_diagnostic. rewrite (E (d_code d)). rewrite IH. reflexivity.
  Qed.

  Lemma to_lsp_related_total (rel : list (file * range * msg)) :
    (forall r, In r rel -> file_uri (fst (fst r)) <> None) -> exists l, to_lsp_related rel = Ok l.
  Proof.
    induction rel as [|[[f r] m] rel IH]; intros H; cbn [DiagCache.to_lsp_related].
    - exists []. reflexivity.
    - destruct (file_uri f) as [u|] eqn:F.
      + destruct IH as [l IH]; [intros r0 Hr; apply H; right; exact Hr|]. rewrite IH. eexists. reflexivity.
      + exfalso. apply (H (f, r, m)); [left; reflexivity|exact F].
  Qed.

  Lemma render_total (sm : sevmap) (ds : list diag) :
    (forall d, In d ds -> diag_files_ok d) -> exists l, render sm ds = Ok l.
  Proof.
    induction ds as [|d ds IH]; intros H; cbn [DiagCache.render].
    - exists []. reflexivity.
    - destruct IH as [l IH]; [intros d0 Hd; apply H; right; exact Hd|]. rewrite IH.
      unfold DiagCache.to_lsp_diagnostic. destruct (sm (d_code d)) as [s|].
      + destruct (to_lsp_related_total (d_related d)) as [rel R]; [apply (H d); left; reflexivity|].
        rewrite R. eexists. reflexivity.
      + eexists. reflexivity.
  Qed.

  (* ================================================================ derived equalities *)
  Lemma list_eqb_correct {A} (e : A -> A -> bool) : eqb_correct e -> eqb_correct (list_eqb e).
  Proof.
    intros He a. induction a as [|x a IH]; intros [|y b]; cbn [list_eqb].
    - split; reflexivity.
    - split; discriminate.
    - split; discriminate.
    - rewrite andb_true_iff. rewrite (He x y). rewrite (IH b). split.
      + intros [H1 H2]; subst. reflexivity.
      + intros H; inversion H; subst. split; reflexivity.
  Qed.

  Hypothesis file_ok : eqb_correct file_eqb.
  Hypothesis code_ok : eqb_correct code_eqb.
  Hypothesis range_ok : eqb_correct range_eqb.
  Hypothesis msg_ok : eqb_correct msg_eqb.

  Lemma related_eqb_correct : eqb_correct related_eqb.
  Proof.
    intros [[f1 r1] m1] [[f2 r2] m2]. unfold DiagCache.related_eqb. cbn [fst snd].
    rewrite !andb_true_iff. rewrite (file_ok f1 f2), (range_ok r1 r2), (msg_ok m1 m2). split.
    - intros [[H1 H2] H3]; subst. reflexivity.
    - intros H; inversion H; subst. repeat split.
  Qed.

  Lemma diag_eqb_correct : eqb_correct diag_eqb.
  Proof.
    intros [f1 r1 m1 l1 c1] [f2 r2 m2 l2 c2]. unfold DiagCache.diag_eqb.
    cbn [d_file d_range d_msg d_related d_code].
    rewrite !andb_true_iff. rewrite (file_ok f1 f2), (range_ok r1 r2), (msg_ok m1 m2), (code_ok c1 c2).
    rewrite (list_eqb_correct _ related_eqb_correct l1 l2). split.
    - intros [[[[H1 H2] H3] H4] H5]; subst. reflexivity.
    - intros H; inversion H; subst. repeat split.
  Qed.

  Lemma diags_eqb_correct : eqb_correct diags_eqb.
  Proof. unfold DiagCache.diags_eqb. apply list_eqb_correct. exact diag_eqb_correct. Qed.

  Hypothesis codes_all : forall c, In c all_codes.

  Lemma sev_eqb_true (a b : sevmap) : sev_eqb a b = true -> forall c, a c = b c.
  Proof.
    unfold DiagCache.sev_eqb. intros H c. rewrite forallb_forall in H.
    apply opt_severity_eqb_eq. apply H. apply codes_all.
  Qed.

  (* ================================================================ diagnostics_by_uri *)
  Definition ol (u : uri) (m : amap) : list diag := match lookup u m with Some v => v | None => [] end.

  Lemma push_is_insert u d (m : amap) : push u d m = insert u (ol u m ++ [d]) m.
  Proof.
    unfold ol. induction m as [|[k v] m IH]; cbn [DiagCache.push_by_uri DiagCache.insert DiagCache.lookup]; [reflexivity|].
    destruct (uri_eqb u k); [reflexivity|]. rewrite IH. reflexivity.
  Qed.

  Lemma lookup_of_ol u (m : amap) :
    lookup u m <> Some [] -> lookup u m = match ol u m with [] => None | d :: r => Some (d :: r) end.
  Proof. unfold ol. destruct (lookup u m) as [[|d r]|]; intros H; [exfalso; apply H; reflexivity|reflexivity|reflexivity]. Qed.

  Lemma by_uri_acc_spec (ds : list diag) : forall (m m' : amap),
    by_uri_acc ds m = Ok m' ->
    (NoDup (keys m) -> NoDup (keys m')) /\
    (forall u, ol u m' = ol u m ++ filter (in_uri u) ds) /\
    ((forall u, lookup u m <> Some []) -> forall u, lookup u m' <> Some []).
  Proof.
    induction ds as [|d ds IH]; intros m m' H; cbn [DiagCache.by_uri_acc] in H.
    - inversion H; subst. split; [tauto|]. split; [|tauto]. intros u. cbn [filter]. rewrite app_nil_r. reflexivity.
    - destruct (file_uri (d_file d)) as [k|] eqn:F; [|discriminate H].
      rewrite push_is_insert in H. destruct (IH _ _ H) as (I1 & I2 & I3). split; [|split].
      + intros ND. apply I1. apply NoDup_keys_insert. exact ND.
      + intros u. rewrite I2. cbn [filter]. unfold DiagCache.in_uri at 2. rewrite F.
        unfold ol at 1. rewrite lookup_insert.
        destruct (ueqb_spec k u) as [E|E].
        * subst u. rewrite ueqb_refl. rewrite <- app_assoc. reflexivity.
        * rewrite ueqb_neq; [reflexivity|]. intros E2. apply E. symmetry. exact E2.
      + intros NE. apply I3. intros u. rewrite lookup_insert. destruct (uri_eqb u k); [|apply NE].
        intros E. inversion E as [E1]. symmetry in E1. exact (app_cons_not_nil _ _ _ E1).
  Qed.

  Lemma by_uri_spec (ds : list diag) (m : amap) :
    by_uri ds = Ok m ->
    NoDup (keys m) /\
    forall u, lookup u m = match filter (in_uri u) ds with [] => None | d :: r => Some (d :: r) end.
  Proof.
    unfold DiagCache.diagnostics_by_uri. intros H. destruct (by_uri_acc_spec _ _ _ H) as (I1 & I2 & I3). split.
    - apply I1. constructor.
    - intros u. rewrite lookup_of_ol.
      + rewrite I2. reflexivity.
      + apply I3. intros u0. cbn. discriminate.
  Qed.

  (* ================================================================ the first loop *)
  Lemma pass1_cons sm k old (r cur c' rest : amap) (ns : list notif) :
    pass1 sm ((k, old) :: r) cur = Ok (c', rest, ns) ->
    exists c0 ns0,
      match lookup k cur with
      | None => pass1 sm r cur = Ok (c0, rest, ns0) /\ c' = (k, []) :: c0 /\ ns = (k, []) :: ns0
      | Some nw =>
          pass1 sm r (remove k cur) = Ok (c0, rest, ns0) /\
          ((nw = old /\ c' = (k, old) :: c0 /\ ns = ns0) \/
           (nw <> old /\ exists l, render sm nw = Ok l /\ c' = (k, nw) :: c0 /\ ns = (k, l) :: ns0))
      end.
  Proof.
    cbn [DiagCache.pass1]. destruct (lookup k cur) as [nw|].
    - destruct (diags_eqb nw old) eqn:E.
      + destruct (pass1 sm r (remove k cur)) as [[[c0 r0] ns0]|]; [|discriminate].
        intros H; injection H as <- <- <-. exists c0, ns0. split; [reflexivity|]. left.
        apply diags_eqb_correct in E. auto.
      + destruct (render sm nw) as [l|]; [|discriminate].
        destruct (pass1 sm r (remove k cur)) as [[[c0 r0] ns0]|]; [|discriminate].
        intros H; injection H as <- <- <-. exists c0, ns0. split; [reflexivity|]. right. split.
        * intros E2. apply diags_eqb_correct in E2. congruence.
        * exists l. auto.
    - destruct (pass1 sm r cur) as [[[c0 r0] ns0]|]; [|discriminate].
      intros H; injection H as <- <- <-. exists c0, ns0. auto.
  Qed.

  Lemma pass1_spec sm (c : amap) : forall (cur c' rest : amap) (ns : list notif),
    NoDup (keys c) -> pass1 sm c cur = Ok (c', rest, ns) ->
    keys c' = keys c /\
    (forall u, lookup u rest = match lookup u c with Some _ => None | None => lookup u cur end) /\
    (forall u, In u (keys ns) -> In u (keys c)) /\
    NoDup (keys ns) /\
    (NoDup (keys cur) -> NoDup (keys rest)) /\
    (forall u old, lookup u c = Some old ->
       match lookup u cur with
       | None => lookup u c' = Some [] /\ lookup u ns = Some []
       | Some nw => (nw = old /\ lookup u c' = Some old /\ lookup u ns = None) \/
                    (nw <> old /\ lookup u c' = Some nw /\ exists l, render sm nw = Ok l /\ lookup u ns = Some l)
       end).
  Proof.
    induction c as [|[k old0] c IH]; intros cur c' rest ns ND H.
    - cbn [DiagCache.pass1] in H. inversion H; subst. cbn.
      split; [reflexivity|]. split; [reflexivity|]. split; [tauto|]. split; [constructor|]. split; [tauto|].
      intros u old E. discriminate E.
    - inversion ND as [|? ? Nk ND']; subst.
      destruct (pass1_cons _ _ _ _ _ _ _ _ H) as (c0 & ns0 & HC). clear H.
      destruct (lookup k cur) as [nw|] eqn:Lk.
      + destruct HC as [P HC]. destruct (IH _ _ _ _ ND' P) as (I1 & I2 & I3 & I4 & I5 & I6).
        assert (Nns0 : lookup k ns0 = None).
        { apply lookup_None_notin. intros Hin. apply Nk. apply I3. exact Hin. }
        assert (Rest : forall u, lookup u rest =
                  match lookup u ((k, old0) :: c) with Some _ => None | None => lookup u cur end).
        { intros u. rewrite I2. cbn [DiagCache.lookup]. destruct (ueqb_spec u k) as [E|E].
          - subst u. destruct (lookup k c); [reflexivity|apply lookup_remove_eq].
          - rewrite (lookup_remove_neq _ _ _ E). reflexivity. }
        assert (NDrest : NoDup (keys cur) -> NoDup (keys rest)).
        { intros Hc. apply I5. apply NoDup_keys_remove. exact Hc. }
        destruct HC as [(E1 & E2 & E3)|(E1 & l & E2 & E3 & E4)]; subst c' ns.
        * subst nw. split; [cbn; f_equal; exact I1|]. split; [exact Rest|].
          split; [intros u Hu; right; apply I3; exact Hu|]. split; [exact I4|]. split; [exact NDrest|].
          intros u old Lu. cbn [DiagCache.lookup] in Lu |- *. destruct (ueqb_spec u k) as [E|E].
          -- subst u. inversion Lu; subst old0. rewrite Lk. left. auto.
          -- specialize (I6 u old Lu). rewrite (lookup_remove_neq _ _ _ E) in I6. exact I6.
        * split; [cbn; f_equal; exact I1|]. split; [exact Rest|].
          split; [intros u [Hu|Hu]; [left; exact Hu|right; apply I3; exact Hu]|].
          split; [cbn; constructor; [intros Hin; apply Nk; apply I3; exact Hin|exact I4]|]. split; [exact NDrest|].
          intros u old Lu. cbn [DiagCache.lookup] in Lu |- *. destruct (ueqb_spec u k) as [E|E].
          -- subst u. inversion Lu; subst old0. rewrite Lk. right. split; [exact E1|]. split; [reflexivity|].
             exists l. auto.
          -- specialize (I6 u old Lu). rewrite (lookup_remove_neq _ _ _ E) in I6. exact I6.
      + destruct HC as (P & E2 & E3). subst c' ns. destruct (IH _ _ _ _ ND' P) as (I1 & I2 & I3 & I4 & I5 & I6).
        split; [cbn; f_equal; exact I1|]. split.
        { intros u. rewrite I2. cbn [DiagCache.lookup]. destruct (ueqb_spec u k) as [E|E]; [|reflexivity].
          subst u. destruct (lookup k c); [reflexivity|exact Lk]. }
        split; [intros u [Hu|Hu]; [left; exact Hu|right; apply I3; exact Hu]|].
        split; [cbn; constructor; [intros Hin; apply Nk; apply I3; exact Hin|exact I4]|]. split; [exact I5|].
        intros u old Lu. cbn [DiagCache.lookup] in Lu |- *. destruct (ueqb_spec u k) as [E|E].
        -- subst u. rewrite Lk. auto.
        -- exact (I6 u old Lu).
  Qed.

  (* ================================================================ the second loop *)
  Lemma pass2_spec sm (rest : amap) : forall (c c2 : amap) (ns : list notif),
    pass2 sm rest c = Ok (c2, ns) ->
    keys ns = keys rest /\
    (NoDup (keys c) -> NoDup (keys c2)) /\
    (NoDup (keys rest) ->
       forall u, lookup u c2 = match lookup u rest with Some v => Some v | None => lookup u c end) /\
    (forall u, match lookup u rest with
               | Some nw => exists l, render sm nw = Ok l /\ lookup u ns = Some l
               | None => lookup u ns = None
               end).
  Proof.
    induction rest as [|[k nw] rest IH]; intros c c2 ns H; cbn [DiagCache.pass2] in H.
    - inversion H; subst. cbn. split; [reflexivity|]. split; [tauto|]. split; [reflexivity|]. reflexivity.
    - destruct (render sm nw) as [l|] eqn:R; [|discriminate H].
      destruct (pass2 sm rest (insert k nw c)) as [[c0 ns0]|] eqn:P; [|discriminate H].
      inversion H; subst c0 ns. clear H. destruct (IH _ _ _ P) as (I1 & I2 & I3 & I4).
      split; [cbn; f_equal; exact I1|]. split; [intros ND; apply I2; apply NoDup_keys_insert; exact ND|]. split.
      + intros ND u. inversion ND as [|? ? Nk ND']; subst. rewrite (I3 ND'). rewrite lookup_insert.
        cbn [DiagCache.lookup]. destruct (ueqb_spec u k) as [E|E]; [|reflexivity].
        subst u. assert (lookup k rest = None) as -> by (apply lookup_None_notin; exact Nk). reflexivity.
      + intros u. cbn [DiagCache.lookup]. destruct (ueqb_spec u k) as [E|E]; [|exact (I4 u)].
        exists l. auto.
  Qed.

  (* ================================================================ one publish *)
  Hypothesis reorder_perm : forall m, Permutation (reorder m) m.

  Lemma publish_spec st (s s' : server) raw (ns : list notif) :
    no_lint st = false -> NoDup (keys (cache s)) ->
    publish st s raw = Ok (s', ns) ->
    exists cur, by_uri (prepare st raw) = Ok cur /\
      sev s' = sev s /\ NoDup (keys (cache s')) /\ NoDup (keys ns) /\
      forall u,
        match lookup u cur with
        | None =>
            match lookup u (cache s) with
            | None => lookup u (cache s') = None /\ forall cl : client, deliver_all cl ns u = cl u
            | Some _ => lookup u (cache s') = Some [] /\ forall cl : client, deliver_all cl ns u = Some []
            end
        | Some nw =>
            lookup u (cache s') = Some nw /\
            ((lookup u (cache s) = Some nw /\ forall cl : client, deliver_all cl ns u = cl u) \/
             (exists l, render (sev s) nw = Ok l /\ forall cl : client, deliver_all cl ns u = Some l))
        end.
  Proof.
    intros NL ND. unfold DiagCache.publish. rewrite NL.
    destruct (by_uri (prepare st raw)) as [cur|] eqn:B; [|discriminate].
    destruct (pass1 (sev s) (reorder (cache s)) cur) as [[[c1 rest] n1]|] eqn:P1; [|discriminate].
    destruct (pass2 (sev s) (reorder rest) c1) as [[c2 n2]|] eqn:P2; [|discriminate].
    intros H; injection H as <- <-. exists cur. split; [reflexivity|]. cbn [sev cache]. split; [reflexivity|].
    destruct (by_uri_spec _ _ B) as [NDcur _].
    pose proof (Permutation_sym (reorder_perm (cache s))) as Pc.
    assert (NDc : NoDup (keys (reorder (cache s)))) by exact (NoDup_keys_perm _ _ Pc ND).
    assert (Lc : forall u, lookup u (reorder (cache s)) = lookup u (cache s))
      by (intros u; exact (lookup_perm _ _ u ND Pc)).
    destruct (pass1_spec _ _ _ _ _ _ NDc P1) as (K1 & R1 & NK1 & NDn1 & NDr & E1).
    specialize (NDr NDcur).
    pose proof (Permutation_sym (reorder_perm rest)) as Pr.
    assert (NDr' : NoDup (keys (reorder rest))) by exact (NoDup_keys_perm _ _ Pr NDr).
    assert (Lr : forall u, lookup u (reorder rest) = lookup u rest)
      by (intros u; exact (lookup_perm _ _ u NDr Pr)).
    destruct (pass2_spec _ _ _ _ _ P2) as (K2 & ND2 & L2 & E2).
    specialize (L2 NDr').
    assert (NDc1 : NoDup (keys c1)) by (rewrite K1; exact NDc).
    assert (NDn2 : NoDup (keys n2)) by (rewrite K2; exact NDr').
    split; [exact (ND2 NDc1)|]. split.
    { rewrite map_app. apply NoDup_app_intro; [exact NDn1|exact NDn2|]. intros x H1 H2.
      apply NK1 in H1.
      assert (H3 : In x (keys (reorder rest))) by (rewrite <- K2; exact H2).
      assert (X : lookup x (reorder rest) = None).
      { rewrite Lr, R1. destruct (lookup x (reorder (cache s))) eqn:Lx; [reflexivity|].
        apply lookup_None_notin in Lx. contradiction. }
      apply lookup_None_notin in X. contradiction. }
    intros u.
    assert (D : forall cl : client, deliver_all cl (n1 ++ n2) u =
              match lookup u n2 with
              | Some l => Some l
              | None => match lookup u n1 with Some l => Some l | None => cl u end
              end) by (intros cl; apply deliver_all_app_lookup; assumption).
    specialize (E2 u). rewrite Lr in E2. specialize (L2 u). rewrite Lr in L2.
    specialize (R1 u). rewrite Lc in R1. pose proof (Lc u) as Lcu.
    destruct (lookup u cur) as [nw|] eqn:Lcur; destruct (lookup u (cache s)) as [old|] eqn:Ls;
      cbv beta iota in R1; rewrite R1 in E2, L2; cbv beta iota in E2, L2.
    - specialize (E1 u old Lcu). rewrite Lcur in E1.
      destruct E1 as [(A1 & A2 & A3)|(A1 & A2 & l & A3 & A4)].
      + subst old. split; [rewrite L2; exact A2|]. left. split; [reflexivity|].
        intros cl. rewrite D, E2, A3. reflexivity.
      + split; [rewrite L2; exact A2|]. right. exists l. split; [exact A3|].
        intros cl. rewrite D, E2, A4. reflexivity.
    - destruct E2 as (l & A3 & A4). split; [exact L2|]. right. exists l. split; [exact A3|].
      intros cl. rewrite D, A4. reflexivity.
    - specialize (E1 u old Lcu). rewrite Lcur in E1. destruct E1 as [A2 A3].
      split; [rewrite L2; exact A2|]. intros cl. rewrite D, E2, A3. reflexivity.
    - assert (A2 : lookup u c1 = None).
      { apply lookup_None_notin. rewrite K1. apply lookup_None_notin. exact Lcu. }
      assert (A3 : lookup u n1 = None).
      { apply lookup_None_notin. intros Hin. apply NK1 in Hin. apply lookup_None_notin in Lcu. contradiction. }
      split; [rewrite L2; exact A2|]. intros cl. rewrite D, E2, A3. reflexivity.
  Qed.

  (* ================================================================ the invariant *)
  Definition Inv (s : server) (cl : client) : Prop :=
    NoDup (keys (cache s)) /\
    (forall u, lookup u (cache s) = None -> cl u = None) /\
    (forall u d ds, lookup u (cache s) = Some (d :: ds) ->
                    exists l, render (sev s) (d :: ds) = Ok l /\ cl u = Some l).

  Lemma inv_publish st (s s' : server) (cl : client) raw (ns : list notif) :
    no_lint st = false -> Inv s cl -> publish st s raw = Ok (s', ns) ->
    Inv s' (deliver_all cl ns) /\
    forall u, view_ok (sev s') (cur_of st raw u) (deliver_all cl ns u).
  Proof.
    intros NL (ND & I2 & I3) P.
    destruct (publish_spec _ _ _ _ _ NL ND P) as (cur & B & Sv & ND' & _ & F).
    destruct (by_uri_spec _ _ B) as [_ Lcur]. split.
    - split; [exact ND'|]. split.
      + intros u Lu. specialize (F u). destruct (lookup u cur) as [nw|].
        * destruct F as [F1 _]. congruence.
        * destruct (lookup u (cache s)) as [old|] eqn:Ls; destruct F as [F1 F2]; [congruence|].
          rewrite F2. apply I2. exact Ls.
      + intros u d ds Lu. specialize (F u). rewrite Sv. destruct (lookup u cur) as [nw|].
        * destruct F as [F1 F2]. assert (nw = d :: ds) as -> by congruence.
          destruct F2 as [[A1 A2]|(l & R & A2)].
          -- destruct (I3 u d ds A1) as (l & R & C). exists l. split; [exact R|]. rewrite A2. exact C.
          -- exists l. split; [exact R|apply A2].
        * destruct (lookup u (cache s)) as [old|]; destruct F as [F1 _]; congruence.
    - intros u. unfold DiagCache.cur_of. specialize (F u). specialize (Lcur u). rewrite Sv.
      unfold DiagCache.view_ok.
      destruct (filter (in_uri u) (prepare st raw)) as [|d ds]; rewrite Lcur in F; cbv beta iota in F.
      + destruct (lookup u (cache s)) as [old|] eqn:Ls; destruct F as [_ F2]; rewrite F2.
        * right. reflexivity.
        * left. apply I2. exact Ls.
      + destruct F as [F1 [[A1 A2]|(l & R & A2)]].
        * destruct (I3 u d ds A1) as (l & R & C). exists l. split; [exact R|]. rewrite A2. exact C.
        * exists l. split; [exact R|apply A2].
  Qed.

  Lemma keys_clear (c : amap) : keys (clear_values c) = keys c.
  Proof. unfold clear_values. rewrite map_map. reflexivity. Qed.

  Lemma lookup_clear u (c : amap) :
    lookup u (clear_values c) = match lookup u c with Some _ => Some [] | None => None end.
  Proof.
    induction c as [|[k v] c IH]; cbn; [reflexivity|]. destruct (uri_eqb u k); [reflexivity|exact IH].
  Qed.

  Lemma inv_set_severity (s : server) (cl : client) sm : Inv s cl -> Inv (set_severity s sm) cl.
  Proof.
    intros (ND & I2 & I3). unfold DiagCache.set_severity, Inv. cbn [cache sev].
    destruct (sev_eqb (sev s) sm) eqn:E.
    - split; [exact ND|]. split; [exact I2|]. intros u d ds L.
      destruct (I3 u d ds L) as (l & R & C). exists l. split; [|exact C].
      rewrite <- (render_ext (sev s) sm); [exact R|]. apply sev_eqb_true. exact E.
    - split; [rewrite keys_clear; exact ND|]. split.
      + intros u L. rewrite lookup_clear in L. apply I2. destruct (lookup u (cache s)); [discriminate L|reflexivity].
      + intros u d ds L. rewrite lookup_clear in L. destruct (lookup u (cache s)); discriminate L.
  Qed.

  Lemma inv_run st (h : list event) : no_lint st = false ->
    forall (s : server) (cl : client) s' cl', Inv s cl -> run true st (s, cl) h = Ok (s', cl') -> Inv s' cl'.
  Proof.
    intros NL. induction h as [|e h IH]; intros s cl s' cl' I R; cbn [DiagCache.run] in R.
    - injection R as <- <-. exact I.
    - destruct e as [raw|sm]; cbn [DiagCache.step fst snd] in R.
      + destruct (publish st s raw) as [[s1 ns]|] eqn:P; [|discriminate R].
        apply (IH _ _ _ _ (proj1 (inv_publish _ _ _ _ _ _ NL I P)) R).
      + apply (IH _ _ _ _ (inv_set_severity _ _ sm I) R).
  Qed.

  Lemma inv_init (sev0 : sevmap) : Inv (mkServer [] sev0) no_client.
  Proof.
    split; [constructor|]. split; [reflexivity|]. intros u d ds L. discriminate L.
  Qed.

  Lemma client_view_sec st (sev0 : sevmap) (h : list event) raw (s : server) (cl : client) :
    no_lint st = false ->
    run true st (init sev0) (h ++ [Publish raw]) = Ok (s, cl) ->
    forall u, view_ok (sev s) (cur_of st raw u) (cl u).
  Proof.
    intros NL R. rewrite run_app in R. unfold init in R.
    destruct (run true st (mkServer [] sev0, no_client) h) as [[s0 cl0]|] eqn:R0; [|discriminate R].
    pose proof (inv_run _ _ NL _ _ _ _ (inv_init sev0) R0) as I.
    cbn [DiagCache.run DiagCache.step fst snd] in R.
    destruct (publish st s0 raw) as [[s1 ns]|] eqn:P; [|discriminate R].
    injection R as <- <-. exact (proj2 (inv_publish _ _ _ _ _ _ NL I P)).
  Qed.

  (* ================================================================ one notification per file *)
  Lemma publish_nodup st (s s' : server) raw (ns : list notif) :
    NoDup (keys (cache s)) -> publish st s raw = Ok (s', ns) ->
    NoDup (keys (cache s')) /\ NoDup (keys ns).
  Proof.
    intros ND P. destruct (no_lint st) eqn:NL.
    - unfold DiagCache.publish in P. rewrite NL in P. injection P as <- <-. split; [exact ND|constructor].
    - destruct (publish_spec _ _ _ _ _ NL ND P) as (cur & _ & _ & A1 & A2 & _). split; assumption.
  Qed.

  Lemma nodup_trace fixed st (h : list event) : forall (s0 : server),
    NoDup (keys (cache s0)) ->
    forall ns : list notif, In (Ok ns) (run_trace fixed st s0 h) -> NoDup (keys ns).
  Proof.
    induction h as [|e h IH]; intros s0 ND ns H; cbn [DiagCache.run_trace] in H; [contradiction H|].
    destruct e as [raw|sm].
    - destruct (publish st s0 raw) as [[s1 ns1]|] eqn:P.
      + destruct (publish_nodup _ _ _ _ _ ND P) as [A1 A2]. destruct H as [H|H].
        * injection H as <-. exact A2.
        * exact (IH _ A1 _ H).
      + destruct H as [H|[]]. discriminate H.
    - destruct H as [H|H].
      + injection H as <-. constructor.
      + refine (IH _ _ _ H).
        destruct fixed; [|exact ND]. unfold DiagCache.set_severity. cbn [cache].
        destruct (sev_eqb (sev s0) sm); [exact ND|rewrite keys_clear; exact ND].
  Qed.

  (* ================================================================ no crash when every file has a Url *)
  Definition all_vals (m : amap) : Prop := forall k v, In (k, v) m -> forall d, In d v -> diag_files_ok d.

  Lemma push_all_vals u d (m : amap) : diag_files_ok d -> all_vals m -> all_vals (push u d m).
  Proof.
    intros Pd. induction m as [|[k0 v0] m IH]; intros A k v H d0 Hd; cbn [DiagCache.push_by_uri] in H.
    - destruct H as [H|[]]. injection H as <- <-. destruct Hd as [<-|[]]. exact Pd.
    - destruct (uri_eqb u k0).
      + destruct H as [H|H].
        * injection H as <- <-. apply in_app_or in Hd as [Hd|Hd].
          -- exact (A k0 v0 (or_introl eq_refl) d0 Hd).
          -- destruct Hd as [<-|[]]. exact Pd.
        * exact (A k v (or_intror H) d0 Hd).
      + destruct H as [H|H].
        * injection H as <- <-. exact (A k0 v0 (or_introl eq_refl) d0 Hd).
        * refine (IH _ k v H d0 Hd). intros k1 v1 H1. exact (A k1 v1 (or_intror H1)).
  Qed.

  Lemma by_uri_acc_total (ds : list diag) : forall m : amap,
    (forall d, In d ds -> diag_files_ok d) -> all_vals m ->
    exists m', by_uri_acc ds m = Ok m' /\ all_vals m'.
  Proof.
    induction ds as [|d ds IH]; intros m H A; cbn [DiagCache.by_uri_acc].
    - exists m. split; [reflexivity|exact A].
    - pose proof (H d (or_introl eq_refl)) as Pd. destruct (file_uri (d_file d)) as [k|] eqn:F.
      + apply IH; [intros d0 Hd; apply H; right; exact Hd|]. apply push_all_vals; assumption.
      + exfalso. exact (proj1 Pd F).
  Qed.

  Lemma flatten_files_ok (raw : list diag) :
    (forall d, In d raw -> diag_files_ok d) -> forall d, In d (flatten raw) -> diag_files_ok d.
  Proof.
    induction raw as [|d0 raw IH]; intros H d Hd; cbn [DiagCache.flatten_related] in Hd; [contradiction Hd|].
    pose proof (H d0 (or_introl eq_refl)) as [P1 P2].
    apply in_app_or in Hd as [Hd|[Hd|Hd]].
    - unfold DiagCache.drain_related in Hd. apply in_map_iff in Hd as (r & <- & Hr).
      split; cbn [d_file d_related]; [exact (P2 r Hr)|intros r0 []].
    - subst d. split; cbn [d_file d_related DiagCache.without_related]; [exact P1|intros r0 []].
    - apply IH; [intros d1 H1; apply H; right; exact H1|exact Hd].
  Qed.

  Lemma pass1_total sm (c : amap) : forall cur : amap, all_vals cur ->
    exists c' rest ns, pass1 sm c cur = Ok (c', rest, ns) /\ all_vals rest.
  Proof.
    induction c as [|[k old] c IH]; intros cur A; cbn [DiagCache.pass1].
    - exists [], cur, []. split; [reflexivity|exact A].
    - destruct (lookup k cur) as [nw|] eqn:L.
      + destruct (lookup_Some_val _ _ _ L) as [k' Hin].
        destruct (render_total sm nw (A k' nw Hin)) as [l R].
        destruct (IH (remove k cur)) as (c0 & rest & ns0 & P & A').
        { intros k1 v1 H1. exact (A k1 v1 (In_remove _ _ _ H1)). }
        rewrite P, R. destruct (diags_eqb nw old); eexists; eexists; eexists; (split; [reflexivity|exact A']).
      + destruct (IH cur A) as (c0 & rest & ns0 & P & A'). rewrite P.
        eexists; eexists; eexists; (split; [reflexivity|exact A']).
  Qed.

  Lemma pass2_total sm (rest : amap) : forall c : amap, all_vals rest ->
    exists c2 ns, pass2 sm rest c = Ok (c2, ns).
  Proof.
    induction rest as [|[k nw] rest IH]; intros c A; cbn [DiagCache.pass2].
    - eexists; eexists; reflexivity.
    - destruct (render_total sm nw (A k nw (or_introl eq_refl))) as [l R]. rewrite R.
      destruct (IH (insert k nw c)) as (c2 & ns & P).
      { intros k1 v1 H1. exact (A k1 v1 (or_intror H1)). }
      rewrite P. eexists; eexists; reflexivity.
  Qed.

  Lemma publish_total st (s : server) raw :
    (forall (m : amap) x, In x (reorder m) -> In x m) ->
    (forall d, In d raw -> diag_files_ok d) ->
    exists s' ns, publish st s raw = Ok (s', ns).
  Proof.
    intros RS H. unfold DiagCache.publish. destruct (no_lint st); [eexists; eexists; reflexivity|].
    assert (Hp : forall d, In d (prepare st raw) -> diag_files_ok d).
    { unfold DiagCache.prepare. destruct (related_information st); [exact H|apply flatten_files_ok; exact H]. }
    unfold DiagCache.diagnostics_by_uri.
    destruct (by_uri_acc_total _ [] Hp) as (cur & B & A); [intros k v []|]. rewrite B.
    destruct (pass1_total (sev s) (reorder (cache s)) cur A) as (c1 & rest & n1 & P1 & A1). rewrite P1.
    destruct (pass2_total (sev s) (reorder rest) c1) as (c2 & n2 & P2).
    { intros k v Hin. exact (A1 k v (RS _ _ Hin)). }
    rewrite P2. eexists; eexists; reflexivity.
  Qed.

  Lemma run_total_gen fixed st (h : list event) :
    (forall (m : amap) x, In x (reorder m) -> In x m) ->
    (forall e, In e h -> event_files_ok e) ->
    forall (s0 : server) (cl0 : client), exists s cl, run fixed st (s0, cl0) h = Ok (s, cl).
  Proof.
    intros RS. induction h as [|e h IH]; intros H s0 cl0; cbn [DiagCache.run].
    - exists s0, cl0. reflexivity.
    - assert (H' : forall e0, In e0 h -> event_files_ok e0) by (intros e0 He; apply H; right; exact He).
      pose proof (H e (or_introl eq_refl)) as He. destruct e as [raw|sm]; cbn [DiagCache.step fst snd].
      + destruct (publish_total st s0 raw RS He) as (s1 & ns & P). rewrite P. apply IH. exact H'.
      + apply IH. exact H'.
  Qed.

End Proofs.

(* ================================================================== the statements pinned by Props/C14.v *)
Lemma client_view_current :
  forall (uri file code range msg : Type)
         (uri_eqb : uri -> uri -> bool) (file_eqb : file -> file -> bool) (code_eqb : code -> code -> bool)
         (range_eqb : range -> range -> bool) (msg_eqb : msg -> msg -> bool)
         (file_uri : file -> option uri) (related_msg : msg -> msg) (related_code : code) (all_codes : list code)
         (reorder : list (uri * list (@diag file code range msg)) -> list (uri * list (@diag file code range msg))),
    params_ok uri_eqb file_eqb code_eqb range_eqb msg_eqb all_codes reorder ->
    forall st sev0 h raw s cl,
      no_lint st = false ->
      run uri_eqb file_eqb code_eqb range_eqb msg_eqb file_uri related_msg related_code all_codes reorder
          true st (init sev0) (h ++ [Publish raw]) = Ok (s, cl) ->
      forall u, view_ok file_uri (sev s) (cur_of uri_eqb file_uri related_msg related_code st raw u) (cl u).
Proof.
  intros uri file code range msg uri_eqb file_eqb code_eqb range_eqb msg_eqb file_uri related_msg related_code
         all_codes reorder (U & F & C & R & M & A & P) st sev0 h raw s cl NL H.
  exact (client_view_sec _ _ _ _ _ _ _ _ _ _ _ _ _ _ _ U F C R M A P st sev0 h raw s cl NL H).
Qed.

Lemma severity_is_configured :
  forall (uri file code range msg : Type)
         (uri_eqb : uri -> uri -> bool) (file_eqb : file -> file -> bool) (code_eqb : code -> code -> bool)
         (range_eqb : range -> range -> bool) (msg_eqb : msg -> msg -> bool)
         (file_uri : file -> option uri) (related_msg : msg -> msg) (related_code : code) (all_codes : list code)
         (reorder : list (uri * list (@diag file code range msg)) -> list (uri * list (@diag file code range msg))),
    forall fixed st sev0 h s cl,
      run uri_eqb file_eqb code_eqb range_eqb msg_eqb file_uri related_msg related_code all_codes reorder
          fixed st (init sev0) h = Ok (s, cl) ->
      sev s = last_severity sev0 h.
Proof.
  intros uri file code range msg uri_eqb file_eqb code_eqb range_eqb msg_eqb file_uri related_msg related_code
         all_codes reorder fixed st sev0 h s cl H.
  exact (severity_gen _ _ _ _ _ _ _ _ _ _ _ _ _ _ _ fixed st h _ _ s cl H).
Qed.

Lemma run_total :
  forall (uri file code range msg : Type)
         (uri_eqb : uri -> uri -> bool) (file_eqb : file -> file -> bool) (code_eqb : code -> code -> bool)
         (range_eqb : range -> range -> bool) (msg_eqb : msg -> msg -> bool)
         (file_uri : file -> option uri) (related_msg : msg -> msg) (related_code : code) (all_codes : list code)
         (reorder : list (uri * list (@diag file code range msg)) -> list (uri * list (@diag file code range msg))),
    params_ok uri_eqb file_eqb code_eqb range_eqb msg_eqb all_codes reorder ->
    forall fixed st sev0 h,
      (forall e, In e h -> event_files_ok file_uri e) ->
      exists s cl,
        run uri_eqb file_eqb code_eqb range_eqb msg_eqb file_uri related_msg related_code all_codes reorder
            fixed st (init sev0) h = Ok (s, cl).
Proof.
  intros uri file code range msg uri_eqb file_eqb code_eqb range_eqb msg_eqb file_uri related_msg related_code
         all_codes reorder (_ & _ & _ & _ & _ & _ & P) fixed st sev0 h H.
  apply run_total_gen; [|exact H].
  intros m x Hx. exact (Permutation_in x (P m) Hx).
Qed.

Lemma no_lint_silent :
  forall (uri file code range msg : Type)
         (uri_eqb : uri -> uri -> bool) (file_eqb : file -> file -> bool) (code_eqb : code -> code -> bool)
         (range_eqb : range -> range -> bool) (msg_eqb : msg -> msg -> bool)
         (file_uri : file -> option uri) (related_msg : msg -> msg) (related_code : code) (all_codes : list code)
         (reorder : list (uri * list (@diag file code range msg)) -> list (uri * list (@diag file code range msg))),
    forall fixed st sev0 h,
      no_lint st = true ->
      exists s,
        run uri_eqb file_eqb code_eqb range_eqb msg_eqb file_uri related_msg related_code all_codes reorder
            fixed st (init sev0) h = Ok (s, no_client).
Proof.
  intros uri file code range msg uri_eqb file_eqb code_eqb range_eqb msg_eqb file_uri related_msg related_code
         all_codes reorder fixed st sev0 h NL.
  apply no_lint_gen. exact NL.
Qed.

Lemma trace_is_client_view :
  forall (uri file code range msg : Type)
         (uri_eqb : uri -> uri -> bool) (file_eqb : file -> file -> bool) (code_eqb : code -> code -> bool)
         (range_eqb : range -> range -> bool) (msg_eqb : msg -> msg -> bool)
         (file_uri : file -> option uri) (related_msg : msg -> msg) (related_code : code) (all_codes : list code)
         (reorder : list (uri * list (@diag file code range msg)) -> list (uri * list (@diag file code range msg))),
    forall fixed st sev0 h s cl,
      run uri_eqb file_eqb code_eqb range_eqb msg_eqb file_uri related_msg related_code all_codes reorder
          fixed st (init sev0) h = Ok (s, cl) ->
      exists nss,
        run_trace uri_eqb file_eqb code_eqb range_eqb msg_eqb file_uri related_msg related_code all_codes reorder
                  fixed st (mkServer [] sev0) h = map Ok nss /\
        forall u, cl u = deliver_all uri_eqb no_client (concat nss) u.
Proof.
  intros uri file code range msg uri_eqb file_eqb code_eqb range_eqb msg_eqb file_uri related_msg related_code
         all_codes reorder fixed st sev0 h s cl H.
  exact (trace_gen _ _ _ _ _ _ _ _ _ _ _ _ _ _ _ fixed st h _ _ s cl H).
Qed.

Lemma one_notification_per_file :
  forall (uri file code range msg : Type)
         (uri_eqb : uri -> uri -> bool) (file_eqb : file -> file -> bool) (code_eqb : code -> code -> bool)
         (range_eqb : range -> range -> bool) (msg_eqb : msg -> msg -> bool)
         (file_uri : file -> option uri) (related_msg : msg -> msg) (related_code : code) (all_codes : list code)
         (reorder : list (uri * list (@diag file code range msg)) -> list (uri * list (@diag file code range msg))),
    params_ok uri_eqb file_eqb code_eqb range_eqb msg_eqb all_codes reorder ->
    forall fixed st sev0 h ns,
      In (Ok ns)
         (run_trace uri_eqb file_eqb code_eqb range_eqb msg_eqb file_uri related_msg related_code all_codes reorder
                    fixed st (mkServer [] sev0) h) ->
      NoDup (map fst ns).
Proof.
  intros uri file code range msg uri_eqb file_eqb code_eqb range_eqb msg_eqb file_uri related_msg related_code
         all_codes reorder (U & F & C & R & M & _ & P) fixed st sev0 h ns H.
  refine (nodup_trace _ _ _ _ _ _ _ _ _ _ _ _ _ _ _ U F C R M P fixed st h (mkServer [] sev0) _ ns H).
  constructor.
Qed.

(* ------------------------------------------------------------------ closed examples (by computation) *)
Lemma client_view_old_refuted :
  exists st sev0 h raw u s cl,
    no_lint st = false /\
    NInst.n_run 3 false st (NInst.n_init sev0) (h ++ [Publish raw]) = Ok (s, cl) /\
    ~ NInst.n_view_ok (sev s) (NInst.n_cur_of st raw u) (cl u).
Proof.
  exists (mkSettings false true), (NInst.table_sev [(2, Some Warning)] (Some Error)).
  exists [Publish [mkDiag 7 100 200 [] 2]; SetSeverity (NInst.table_sev [(2, Some Error)] (Some Error))].
  exists [mkDiag 7 100 200 [] 2], 7. eexists. eexists.
  split; [reflexivity|]. split; [vm_compute; reflexivity|].
  vm_compute. intros [l [H1 H2]]. inversion H1; subst. discriminate H2.
Qed.

Lemma example_history :
  let st := mkSettings false true in
  let dflt := NInst.table_sev [(0, Some Hint); (2, Some Warning)] (Some Error) in
  let unused_error := NInst.table_sev [(0, Some Hint); (2, Some Error)] (Some Error) in
  let unused_hidden := NInst.table_sev [(0, Some Hint); (2, None)] (Some Error) in
  let d1 : NInst.ndiag := mkDiag 7 100 200 [(8, 101, 201)] 2 in
  let d2 : NInst.ndiag := mkDiag 8 102 202 [] 1 in
  let l1 sv : NInst.nlsp := mkLsp 100 sv 2 200 [(8, 101, 201)] in
  let l2 : NInst.nlsp := mkLsp 102 1 1 202 [] in
  NInst.n_run_trace 3 true st (mkServer [] dflt)
    [Publish [d1; d2]; Publish [d2]; SetSeverity unused_error; Publish [d1; d2]; Publish [d1; d2];
     SetSeverity unused_hidden; Publish [d1; d2]]
  = [Ok [(7, [l1 2]); (8, [l2])]; Ok [(7, [])]; Ok []; Ok [(7, [l1 1]); (8, [l2])]; Ok [];
     Ok []; Ok [(7, []); (8, [l2])]].
Proof. vm_compute. reflexivity. Qed.

Lemma code3_eqb_correct : eqb_correct code3_eqb.
Proof. intros [] []; cbn; split; intros H; first [reflexivity|discriminate H]. Qed.

Lemma hyps_satisfiable :
  let all := [K_related; K_syntax; K_unused] in
  let reorder := @rev (N * list (@diag N code3 N N)) in
  let st := mkSettings false false in
  let dflt : code3 -> option severity := fun c => match c with K_related => Some Hint | K_syntax => Some Error | K_unused => Some Warning end in
  let hidden : code3 -> option severity := fun c => match c with K_related => Some Info | K_syntax => Some Error | K_unused => None end in
  let d1 : @diag N code3 N N := mkDiag 7 100 200 [(8, 101, 201)] K_unused in
  let d2 : @diag N code3 N N := mkDiag 8 102 202 [] K_syntax in
  params_ok N.eqb N.eqb code3_eqb N.eqb N.eqb all reorder /\
  exists s cl,
    run N.eqb N.eqb code3_eqb N.eqb N.eqb NInst.n_file_uri NInst.n_related_msg K_related all reorder
        true st (init dflt) ([Publish [d1; d2]; SetSeverity hidden] ++ [Publish [d1; d2]]) = Ok (s, cl) /\
    cl 7 = Some [] /\
    cl 8 = Some [mkLsp 101 3 K_related 1000201 []; mkLsp 102 1 K_syntax 202 []] /\
    cl 9 = None.
Proof.
  cbv zeta. split.
  - unfold params_ok. split; [exact N.eqb_eq|]. split; [exact N.eqb_eq|]. split; [exact code3_eqb_correct|].
    split; [exact N.eqb_eq|]. split; [exact N.eqb_eq|]. split.
    + intros []; cbn; auto.
    + intros m. apply Permutation_sym. apply Permutation_rev.
  - eexists. eexists. split; [vm_compute; reflexivity|]. vm_compute. auto.
Qed.
