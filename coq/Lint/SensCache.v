(* Lint/SensCache.v — the per-unit diagnostics cache of `SensitivityListLinter::lint`
   (vhdl_lang/src/lint/sensitivity_list.rs), definitions only.

   The cache is keyed by (library name, UnitKey) exactly as in the code.  One call of `lint` =
   one `step`: what exists in the design root now (`existing`: the keys for which
   `root.get_lib(lib).get_unit(key)` is Some), what `analyze_unit` yields for an existing unit
   (`lintu`), the `analyzed_units` returned by `DesignRoot::analyze`, and the configuration
   (`reported lib` = `config.get_library(lib)` is Some and not third party).
   The diagnostics type is a parameter: in C20 it is the list of `diag` of the processes of a unit.
   HashMap iteration order is not modelled: results are stated up to Permutation. *)
From Coq Require Import List NArith Bool.
Import ListNotations.
Open Scope N_scope.

Inductive ukey :=
| KPrimary (name : N)                  (* UnitKey::Primary(name) *)
| KSecondary (primary name : N).       (* UnitKey::Secondary(primary name, name) *)
Definition key := (N * ukey)%type.     (* (library name, unit key) *)

Definition ukey_eqb (a b : ukey) : bool :=
  match a, b with
  | KPrimary n, KPrimary m => n =? m
  | KSecondary p n, KSecondary q m => (p =? q) && (n =? m)
  | _, _ => false
  end.
Definition key_eqb (a b : key) : bool := (fst a =? fst b) && ukey_eqb (snd a) (snd b).
Fixpoint memk (k : key) (l : list key) : bool :=
  match l with [] => false | x :: r => key_eqb k x || memk k r end.

Section Cache.
Variable D : Type.                       (* Vec<Diagnostic> of one unit *)
Definition cache := list (key * D).

Record step := mkStep {
  existing : list key;
  lintu : key -> D;
  analyzed : list key;
  reported : N -> bool
}.

Fixpoint c_lookup (k : key) (c : cache) : option D :=
  match c with [] => None | (k', v) :: r => if key_eqb k k' then Some v else c_lookup k r end.
Fixpoint c_remove (k : key) (c : cache) : cache :=
  match c with [] => [] | (k', v) :: r => if key_eqb k k' then c_remove k r else (k', v) :: c_remove k r end.

(* for unit in analyzed_units { self.diagnostics.remove(&key) } *)
Definition prune_analyzed (c : cache) (ks : list key) : cache := fold_left (fun c k => c_remove k c) ks c.
(* self.diagnostics.retain(|(lib, key), _| root.get_lib(lib).and_then(|l| l.get_unit(key)).is_some()) *)
Definition prune_missing (ex : list key) (c : cache) : cache := filter (fun e : key * D => memk (fst e) ex) c.
(* for unit in analyzed_units { Vacant => if the unit exists, insert analyze_unit(..); Occupied => {} } *)
Definition recompute (st : step) (c : cache) : cache :=
  fold_left (fun c k => match c_lookup k c with
                        | Some _ => c
                        | None => if memk k (existing st) then c ++ [(k, lintu st k)] else c
                        end) (analyzed st) c.
(* for ((lib, _), ds) in self.diagnostics.iter() { if config.get_library(lib) is not third party { append } } *)
Definition emit (st : step) (c : cache) : list (key * D) := filter (fun e : key * D => reported st (fst (fst e))) c.

Definition lint_step_gen (prune : list key -> cache -> cache) (c : cache) (st : step) : cache * list (key * D) :=
  let c3 := recompute st (prune (existing st) (prune_analyzed c (analyzed st))) in
  (c3, emit st c3).
Definition lint_step := lint_step_gen prune_missing.

(* a seeded variant: an entry is kept while the PRIMARY unit of its key still exists *)
Definition primary_of (k : key) : key :=
  match snd k with KPrimary n => k | KSecondary p _ => (fst k, KPrimary p) end.
Definition prune_missing_by_primary (ex : list key) (c : cache) : cache :=
  filter (fun e : key * D => memk (primary_of (fst e)) ex) c.
Definition lint_step_by_primary := lint_step_gen prune_missing_by_primary.

(* the linter lives as long as the Project: a history of lint calls; the emitted diagnostics of the last call *)
Definition run_gen (stepf : cache -> step -> cache * list (key * D)) (steps : list step) : cache * list (key * D) :=
  fold_left (fun acc st => stepf (fst acc) st) steps ([], []).
Definition run := run_gen lint_step.
Definition run_by_primary := run_gen lint_step_by_primary.

(* ---- specification ---- *)
(* exactly the diagnostics of the units that exist now, in the reported libraries *)
Definition spec_emitted (st : step) : list (key * D) :=
  map (fun k => (k, lintu st k)) (filter (fun k : key => reported st (fst k)) (existing st)).

(* what `DesignRoot::analyze` guarantees about `analyzed_units` (tied to the code by the incremental stage of the
   check and by C01): a unit that exists now and is not reported as analysed existed at the previous call with
   the same lint result *)
Definition wf_step (prev : option step) (st : step) : Prop :=
  forall k, In k (existing st) ->
    In k (analyzed st) \/
    match prev with
    | Some p => In k (existing p) /\ lintu st k = lintu p k
    | None => False
    end.
Fixpoint wf_hist (prev : option step) (steps : list step) : Prop :=
  match steps with
  | [] => True
  | st :: r => wf_step prev st /\ NoDup (existing st) /\ wf_hist (Some st) r
  end.
End Cache.
Arguments mkStep {D}.
Arguments existing {D}.
Arguments lintu {D}.
Arguments analyzed {D}.
Arguments reported {D}.

(* ---- witness for the refutation of the seeded variant (Props/C20.v) ---- *)
Definition w_ent : key := (1, KPrimary 1).
Definition w_arch : key := (1, KSecondary 1 2).
Definition w_lint (k : key) : N := match snd k with KSecondary _ _ => 7 | KPrimary _ => 0 end.
Definition w_s1 : step N := mkStep [w_ent; w_arch] w_lint [w_ent; w_arch] (fun _ => true).
(* the architecture is gone; `analyze` reports the primary unit of the removed secondary unit *)
Definition w_s2 : step N := mkStep [w_ent] w_lint [w_ent] (fun _ => true).

