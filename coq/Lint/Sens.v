(* Lint/Sens.v — the sensitivity-list lint of vhdl_lang/src/lint/sensitivity_list.rs on a
   process AST (definitions only, no proofs).

   Three layers:
   * the AST: a mirror of `Expression / Name / Waveform / AssignmentRightHand /
     SequentialStatement / ProcessStatement` for the constructs of the C20 family.  Names and
     expressions share one type `expr`; every node carries its own token span
     (`WithTokenSpan<..>.span`: index of the first and of the last token).
   * the SPECIFICATION: `occ_*` = the signals mentioned in value positions in TEXTUAL order,
     `reads` (first occurrence per signal), `spec_missing`, `spec_superfluous`, and the family
     predicate `in_family`.
   * the MODEL of the code: `ev_*` = the sequence of `analyze_designator` calls in the order in
     which `Search` + `SensitivityListChecker::search_decl` make them (statement first, then the
     nested statements; all conditions of an `if` before its branches), with the spans the Rust
     code passes; `analyze_designator` (keeps the textually smallest position: repaired code)
     and `analyze_designator_old` (`or_insert_with`: first visited), `ev_*` with version `VPreF14`
     gives every procedure-call actual the span of the whole call (pre-fix code, F15);
     `get_likely_process_category` / `is_likely_clocked`; `lint_sensitivity_list`.

   Entities: a designator holds `Option<EntityId>` (`desig := option N`); what the entity is comes
   from the design root (`root : N -> ent_kind`), exactly as `self.root.get_ent(reference)`.
   SrcPos order: `impl Ord for SrcPos` compares the range START only, i.e. the first token. *)
From Coq Require Import List NArith Bool.
Import ListNotations.
Open Scope N_scope.

Definition span := (N * N)%type.
Definition sp_start (s : span) : N := fst s.

(* interface mode of a subprogram parameter or of a port *)
Inductive mode := MIn | MOut | MInOut | MBuffer | MLinkage.

Inductive ent_kind :=
| KSignal                                        (* AnyEntKind::Object(Object{class: Signal}) without interface: declared signal *)
| KPort (m : mode)                               (* AnyEntKind::Object(Object{class: Signal, iface: Port}) with its mode *)
| KOverloaded (formals : list N) (ret_bool : bool) (* AnyEntKind::Overloaded: the formals of its signature; return type BOOLEAN *)
| KParam (m : mode) (is_sig : bool)              (* AnyEntKind::Object that `is_param()`: its mode; class signal? *)
| KOther.
Definition desig := option N.

Inductive attr_kind :=
| AkImage      (* AttributeDesignator::Ident(_) | Image *)
| AkEvent      (* AttributeDesignator::Signal(SignalAttribute::Event) *)
| AkOther.

Inductive expr : Type :=
| ELit (sp : span)
| EDesig (sp : span) (d : desig)                                   (* Name::Designator *)
| ESelected (sp : span) (prefix : expr) (suffix : desig)           (* Name::Selected *)
| ESlice (sp : span) (prefix : expr) (bounds : list expr)          (* Name::Slice; the expressions of the discrete range *)
| EAttr (sp : span) (prefix : expr) (k : attr_kind) (arg : option expr) (* Name::Attribute *)
| ECall (sp : span) (prefix : expr) (args : list expr)             (* Name::CallOrIndexed; actuals (formals are never visited) *)
| EUnary (sp : span) (e : expr)
| EBinary (sp : span) (l r : expr)
| EAggregate (sp : span) (es : list expr)                          (* element expressions (choices are never visited) *)
| EQualified (sp : span) (e : expr)
| EParen (sp : span) (e : expr).                                   (* Parenthesized(ConditionalExpression::Simple) *)

Definition span_of (e : expr) : span :=
  match e with
  | ELit sp | EDesig sp _ | ESelected sp _ _ | ESlice sp _ _ | EAttr sp _ _ _ | ECall sp _ _
  | EUnary sp _ | EBinary sp _ _ | EAggregate sp _ | EQualified sp _ | EParen sp _ => sp
  end.

Inductive range := RRange (l r : expr) | RAttr (a : expr).
Inductive drange := DSubtype (tm : expr) (r : option range) | DRange (r : range).

Inductive rhs (A : Type) : Type :=
| RSimple (a : A)
| RConditional (cs : list (A * expr)) (els : option A)
| RSelected (sel : expr) (alts : list A).
Arguments RSimple {A} a.
Arguments RConditional {A} cs els.
Arguments RSelected {A} sel alts.

Definition wave_elem := (expr * option expr)%type.        (* value, `after` expression *)
Definition waveform := option (list wave_elem).           (* None = unaffected *)

Inductive iter_scheme := IFor (r : drange) | IWhile (c : expr) | INone.

(* one association element of a procedure call: the mode of the formal it is associated with (the static
   semantics of the call: SPEC only), the formal part of a named association, the actual *)
Record assoc := mkAssoc { a_mode : mode; a_formal : option expr; a_actual : expr }.

Inductive stmt : Type :=
| SSigAssign (t : expr) (r : rhs waveform)
| SVarAssign (t : expr) (r : rhs expr)
| SForce (t : expr) (r : rhs expr)
| SRelease (t : expr)
| SIf (branches : list (expr * list stmt)) (els : list stmt)
| SCase (sel : expr) (alts : list (list stmt))
| SLoop (it : iter_scheme) (body : list stmt)
| SCall (sp : span) (prefix : expr) (args : list assoc)
| SAssert (c : expr) (rep sev : option expr)
| SReport (m : expr) (sev : option expr)
| SNext (c : option expr)
| SExit (c : option expr)
| SReturn (e : option expr)
| SNull
| SWait (ons : list expr) (until for_ : option expr).

Inductive sens := SensAll | SensNames (names : list expr).
Record process := mkProcess { p_kw : span; p_sens : option sens; p_body : list stmt }.

(* ------------------------------------------------------------------------------------------ *)
(* shared helpers                                                                               *)
(* ------------------------------------------------------------------------------------------ *)
Definition is_signal (root : N -> ent_kind) (i : N) : bool :=
  (* EntRef::is_signal looks at the object class only: a port of ANY mode is a signal whose value the process
     may read (VHDL-2008 allows reading an out port); an alias is a different entity (ObjectAlias): KOther *)
  match root i with KSignal => true | KPort _ => true | KParam _ s => s | _ => false end.

Fixpoint memN (k : N) (l : list N) : bool :=
  match l with [] => false | x :: r => (k =? x) || memN k r end.

Fixpoint assoc_mem {V} (k : N) (m : list (N * V)) : bool :=
  match m with [] => false | (k', _) :: r => (k =? k') || assoc_mem k r end.
Fixpoint assoc_remove {V} (k : N) (m : list (N * V)) : list (N * V) :=
  match m with [] => [] | (k', v) :: r => if k =? k' then assoc_remove k r else (k', v) :: assoc_remove k r end.
(* HashMap::insert: overwrite or add *)
Fixpoint assoc_insert {V} (k : N) (v : V) (m : list (N * V)) : list (N * V) :=
  match m with
  | [] => [(k, v)]
  | (k', v') :: r => if k =? k' then (k, v) :: r else (k', v') :: assoc_insert k v r
  end.

Definition opt_list {A B} (f : A -> list B) (o : option A) : list B :=
  match o with Some a => f a | None => [] end.

(* ------------------------------------------------------------------------------------------ *)
(* SPECIFICATION                                                                                *)
(* ------------------------------------------------------------------------------------------ *)
(* A mention of a signal: (signal, span, demanded).  demanded = the value of the signal itself is
   read; not demanded = only an element of the (record) signal is selected: the lint deliberately
   does not demand the record, but the signal counts as used. *)
Definition mention := (N * span * bool)%type.
Inductive role := RValue | RPrefix | RNone.   (* RNone: the name is written (target, out actual) *)
Definition weaken (r : role) : role := match r with RValue => RPrefix | x => x end.

Definition mention_of (root : N -> ent_kind) (r : role) (d : desig) (sp : span) : list mention :=
  match d with
  | None => []
  | Some i => if is_signal root i then
                match r with RValue => [(i, sp, true)] | RPrefix => [(i, sp, false)] | RNone => [] end
              else []
  end.

Section Spec.
Variable root : N -> ent_kind.

Fixpoint occ_expr (r : role) (e : expr) : list mention :=
  match e with
  | ELit _ => []
  | EDesig sp d => mention_of root r d sp
  | ESelected sp p suf => occ_expr (weaken r) p ++ mention_of root r suf sp
  | ESlice _ p bounds => occ_expr r p ++ flat_map (occ_expr RValue) bounds
  | EAttr _ p k arg =>
      match k with
      | AkImage => occ_expr RValue p ++ opt_list (occ_expr RValue) arg
      | _ => opt_list (occ_expr RValue) arg
      end
  | ECall _ p args => occ_expr r p ++ flat_map (occ_expr RValue) args
  | EUnary _ x => occ_expr RValue x
  | EBinary _ l r' => occ_expr RValue l ++ occ_expr RValue r'
  | EAggregate _ es => flat_map (occ_expr RValue) es
  | EQualified _ x => occ_expr RValue x
  | EParen _ x => occ_expr RValue x
  end.
Definition occ_val (e : expr) := occ_expr RValue e.

Definition occ_range (r : range) : list mention :=
  match r with RRange l h => occ_val l ++ occ_val h | RAttr a => occ_val a end.
Definition occ_drange (d : drange) : list mention :=
  match d with
  | DSubtype tm r => occ_val tm ++ opt_list occ_range r
  | DRange r => occ_range r
  end.
Definition occ_wave (w : waveform) : list mention :=
  match w with
  | None => []
  | Some els => flat_map (fun el : wave_elem => occ_val (fst el) ++ opt_list occ_val (snd el)) els
  end.
(* target [<=|:=] rhs in textual order; for the selected form the selector comes first *)
Definition occ_assign {A} (f : A -> list mention) (t : expr) (r : rhs A) : list mention :=
  match r with
  | RSimple a => occ_expr RNone t ++ f a
  | RConditional cs els =>
      occ_expr RNone t ++ flat_map (fun c : A * expr => f (fst c) ++ occ_val (snd c)) cs ++ opt_list f els
  | RSelected sel alts => occ_val sel ++ occ_expr RNone t ++ flat_map f alts
  end.
Definition role_of_mode (m : mode) : role := match m with MOut => RNone | _ => RValue end.
Definition occ_iter (it : iter_scheme) : list mention :=
  match it with IFor r => occ_drange r | IWhile c => occ_val c | INone => [] end.

Fixpoint occ_stmt (s : stmt) : list mention :=
  match s with
  | SSigAssign t r => occ_assign occ_wave t r
  | SVarAssign t r => occ_assign occ_val t r
  | SForce t r => occ_assign occ_val t r
  | SRelease t => occ_expr RNone t
  | SIf branches els =>
      flat_map (fun b : expr * list stmt => occ_val (fst b) ++ flat_map occ_stmt (snd b)) branches
      ++ flat_map occ_stmt els
  | SCase sel alts => occ_val sel ++ flat_map (flat_map occ_stmt) alts
  | SLoop it body => occ_iter it ++ flat_map occ_stmt body
  | SCall _ _ args => flat_map (fun a : assoc => occ_expr (role_of_mode (a_mode a)) (a_actual a)) args
  | SAssert c rep sev => occ_val c ++ opt_list occ_val rep ++ opt_list occ_val sev
  | SReport m sev => occ_val m ++ opt_list occ_val sev
  | SNext c => opt_list occ_val c
  | SExit c => opt_list occ_val c
  | SReturn e => opt_list occ_val e
  | SNull => []
  | SWait ons u f => flat_map occ_val ons ++ opt_list occ_val u ++ opt_list occ_val f
  end.
Definition occ_stmts (ss : list stmt) : list mention := flat_map occ_stmt ss.

Definition demanded (l : list mention) : list (N * span) :=
  flat_map (fun m : mention => match m with (i, sp, true) => [(i, sp)] | _ => [] end) l.
Definition mentioned (l : list mention) : list N := map (fun m : mention => fst (fst m)) l.

Fixpoint first_occ (seen : list N) (l : list (N * span)) : list (N * span) :=
  match l with
  | [] => []
  | (k, sp) :: r => if memN k seen then first_occ seen r else (k, sp) :: first_occ (k :: seen) r
  end.

(* the SPEC: signals read, in textual order, first occurrence per signal, with its span *)
Definition reads (p : process) : list (N * span) := first_occ [] (demanded (occ_stmts (p_body p))).

(* ---- the family ---- *)
Definition nil_b {A} (l : list A) : bool := match l with [] => true | _ => false end.
Definition mention_eqb (a b : mention) : bool :=
  match a, b with (i, (s, e), v), (i', (s', e'), v') => (i =? i') && (s =? s') && (e =? e') && Bool.eqb v v' end.
Fixpoint mentions_eqb (a b : list mention) : bool :=
  match a, b with
  | [], [] => true
  | x :: r, y :: r' => mention_eqb x y && mentions_eqb r r'
  | _, _ => false
  end.

(* positions the walker never looks at must not mention a signal; no 'event attribute *)
Fixpoint fam_expr (e : expr) : bool :=
  match e with
  | ELit _ | EDesig _ _ => true
  | ESelected _ p _ => fam_expr p
  | ESlice _ p bounds => fam_expr p && nil_b (flat_map (occ_expr RValue) bounds)
  | EAttr _ p k arg =>
      match k with
      | AkImage => fam_expr p && match arg with Some a => fam_expr a | None => true end
      | AkEvent => false
      | AkOther => nil_b (opt_list (occ_expr RValue) arg)
      end
  | ECall _ p args => fam_expr p && forallb fam_expr args
  | EUnary _ x => fam_expr x
  | EBinary _ l r => fam_expr l && fam_expr r
  | EAggregate _ es => forallb fam_expr es
  | EQualified _ x => fam_expr x
  | EParen _ x => fam_expr x
  end.
(* a name that is written (actual of an out-mode formal): the walker reads its index expressions AND its slice
   ranges (analyze_written_name); anything that is not a name is analysed as an expression *)
Fixpoint fam_written (e : expr) : bool :=
  match e with
  | EDesig _ _ => true
  | ESelected _ p _ => fam_written p
  | ESlice _ p bounds => fam_written p && forallb fam_expr bounds
  | ECall _ p args => fam_written p && forallb fam_expr args
  | _ => fam_expr e
  end.
Definition fam_opt (o : option expr) : bool := match o with Some e => fam_expr e | None => true end.
Definition fam_range (r : range) : bool :=
  match r with RRange l h => fam_expr l && fam_expr h | RAttr a => fam_expr a end.
Definition fam_drange (d : drange) : bool :=
  match d with
  | DSubtype tm r => fam_expr tm && match r with Some x => fam_range x | None => true end
  | DRange r => fam_range r
  end.
Definition fam_wave (w : waveform) : bool :=
  match w with
  | None => true
  | Some els => forallb (fun el : wave_elem => fam_expr (fst el) && nil_b (opt_list occ_val (snd el))) els
  end.
Definition fam_assign {A} (f : A -> bool) (t : expr) (r : rhs A) : bool :=
  nil_b (occ_expr RNone t) &&
  match r with
  | RSimple a => f a
  | RConditional cs els =>
      forallb (fun c : A * expr => f (fst c) && fam_expr (snd c)) cs && match els with Some a => f a | None => true end
  | RSelected sel alts => fam_expr sel && forallb f alts
  end.
Definition fam_iter (it : iter_scheme) : bool :=
  match it with IFor r => fam_drange r | IWhile c => fam_expr c | INone => true end.

Fixpoint fam_stmt (s : stmt) : bool :=
  match s with
  | SSigAssign t r => fam_assign fam_wave t r
  | SVarAssign t r => fam_assign fam_expr t r
  | SForce t r => fam_assign fam_expr t r
  | SRelease t => nil_b (occ_expr RNone t)
  | SIf branches els =>
      forallb (fun b : expr * list stmt => fam_expr (fst b) && forallb fam_stmt (snd b)) branches
      && forallb fam_stmt els
  | SCase sel alts => fam_expr sel && forallb (forallb fam_stmt) alts
  | SLoop it body => fam_iter it && forallb fam_stmt body
  | SCall _ _ args =>
      forallb (fun a : assoc => match a_mode a with
                                | MOut => fam_written (a_actual a)
                                | _ => fam_expr (a_actual a)
                                end) args
  | SAssert c rep sev => fam_expr c && nil_b (opt_list occ_val rep) && nil_b (opt_list occ_val sev)
  | SReport m sev => fam_expr m && nil_b (opt_list occ_val sev)
  | SNext c => fam_opt c
  | SExit c => fam_opt c
  | SReturn e => fam_opt e
  | SNull => true
  | SWait _ _ _ => false
  end.
Definition in_family (p : process) : bool := forallb fam_stmt (p_body p).

(* token positions are consistent with the text: the demanded reads, listed in textual order,
   start at strictly increasing tokens *)
Fixpoint increasing (l : list N) : bool :=
  match l with
  | [] => true
  | x :: r => match r with [] => true | y :: _ => (x <? y) && increasing r end
  end.
Definition wf_pos (p : process) : bool :=
  increasing (map (fun x : N * span => sp_start (snd x)) (demanded (occ_stmts (p_body p)))).

End Spec.

(* ------------------------------------------------------------------------------------------ *)
(* MODEL of the code                                                                            *)
(* ------------------------------------------------------------------------------------------ *)
(* one call of `analyze_designator(designator, pos, ctx, remove_only)` whose designator has a reference *)
Record event := mkEvent { ev_id : N; ev_sp : span; ev_ro : bool }.

Definition ev_desig (d : desig) (sp : span) (ro : bool) : list event :=
  match d with Some i => [mkEvent i sp ro] | None => [] end.

(* analyze_expression / analyze_name / analyze_attribute_name / analyze_conditional_expression:
   `sp` is the span argument of the Rust function, `ro` = remove_only *)
Fixpoint ev_expr (ro : bool) (e : expr) (sp : span) {struct e} : list event :=
  match e with
  | ELit _ => []
  | EDesig _ d => ev_desig d sp ro
  | ESelected _ p suf => ev_expr true p (span_of p) ++ ev_desig suf sp ro
  | ESlice _ p _ => ev_expr ro p (span_of p)
  | EAttr _ p k arg =>
      match k with
      | AkImage => ev_expr false p (span_of p)
                   ++ match arg with Some a => ev_expr false a (span_of a) | None => [] end
      | _ => []
      end
  | ECall _ p args => ev_expr ro p (span_of p) ++ flat_map (fun a => ev_expr false a (span_of a)) args
  | EUnary _ x => ev_expr false x (span_of x)
  | EBinary _ l r => ev_expr false l (span_of l) ++ ev_expr false r (span_of r)
  | EAggregate _ es => flat_map (fun a => ev_expr false a (span_of a)) es
  | EQualified _ x => ev_expr false x (span_of x)
  | EParen _ x => ev_expr false x (span_of x)
  end.
Definition ev (e : expr) : list event := ev_expr false e (span_of e).
Definition ev_opt (o : option expr) : list event := opt_list ev o.

(* Name::get_suffix_reference *)
Definition suffix_ref (e : expr) : desig :=
  match e with EDesig _ d => d | ESelected _ _ suf => suf | _ => None end.

(* the guard `Expression::Name(name)` of analyze_procedure_call *)
Definition is_name (e : expr) : bool :=
  match e with
  | EDesig _ _ | ESelected _ _ _ | ESlice _ _ _ | EAttr _ _ _ _ | ECall _ _ _ => true
  | _ => false
  end.

(* analyze_written_name: only the expressions within indexes and slices are read (a slice range goes through
   analyze_discrete_range: here its expressions in order) *)
Fixpoint ev_written (e : expr) : list event :=
  match e with
  | EDesig _ _ => []
  | ESelected _ p _ => ev_written p
  | ESlice _ p bounds => ev_written p ++ flat_map (fun a => ev_expr false a (span_of a)) bounds
  | ECall _ p args => ev_written p ++ flat_map (fun a => ev_expr false a (span_of a)) args
  | _ => ev_expr false e (span_of e)     (* Attribute => analyze_attribute_name; the other constructors are not names *)
  end.

(* parameter_object + mode() *)
Definition param_mode (root : N -> ent_kind) (i : N) : option mode :=
  match root i with KParam m _ => Some m | _ => None end.
(* formal_parameter: the formal denoted by the formal part of a named association (selected, indexed, sliced,
   or converted: `conv(formal) => actual`) *)
Fixpoint formal_parameter (root : N -> ent_kind) (e : expr) : option mode :=
  match e with
  | EDesig _ (Some i) => param_mode root i
  | ESelected _ p _ => formal_parameter root p
  | ESlice _ p _ => formal_parameter root p
  | ECall _ p args =>
      match formal_parameter root p with
      | Some m => Some m
      | None => match args with
                | [a] => if is_name a then formal_parameter root a else None
                | _ => None
                end
      end
  | _ => None
  end.
(* is_out_mode_formal(call, idx, elem); false when the callee or the formal is not resolved *)
Definition is_out_mode_formal (root : N -> ent_kind) (callee : expr) (idx : nat) (formal : option expr) : bool :=
  match suffix_ref callee with
  | None => false
  | Some r =>
      match root r with
      | KOverloaded formals _ =>
          match (match formal with
                 | Some fe => formal_parameter root fe
                 | None => match nth_error formals idx with Some f => param_mode root f | None => None end
                 end) with
          | Some MOut => true
          | _ => false
          end
      | _ => false
      end
  end.

(* three versions of the code: today; before 8599f6f (F20: every actual is read); before d3610d9 (F14/F15: every
   actual is read with the span of the call, first visited position kept) *)
Inductive version := VNow | VPreF20 | VPreF14.

(* analyze_procedure_call *)
Fixpoint ev_args (root : N -> ent_kind) (ver : version) (sp : span) (callee : expr) (idx : nat) (args : list assoc)
  : list event :=
  match args with
  | [] => []
  | a :: r =>
      (match ver with
       | VPreF14 => ev_expr false (a_actual a) sp
       | VPreF20 => ev_expr false (a_actual a) (span_of (a_actual a))
       | VNow => if is_name (a_actual a) && is_out_mode_formal root callee idx (a_formal a)
                 then ev_written (a_actual a)
                 else ev_expr false (a_actual a) (span_of (a_actual a))
       end) ++ ev_args root ver sp callee (S idx) r
  end.

(* analyze_range / analyze_discrete_range *)
Definition ev_range (r : range) : list event :=
  match r with RRange l h => ev l ++ ev h | RAttr a => ev a end.
Definition ev_drange (d : drange) : list event :=
  match d with
  | DSubtype tm r => ev tm ++ opt_list ev_range r
  | DRange r => ev_range r
  end.
(* analyze_waveform: only `element.value` *)
Definition ev_wave (w : waveform) : list event :=
  match w with None => [] | Some els => flat_map (fun el : wave_elem => ev (fst el)) els end.
(* analyze_signal_rhs / analyze_variable_rhs (+ analyze_conditionals) *)
Definition ev_rhs {A} (f : A -> list event) (r : rhs A) : list event :=
  match r with
  | RSimple a => f a
  | RConditional cs els => flat_map (fun c : A * expr => f (fst c) ++ ev (snd c)) cs ++ opt_list f els
  | RSelected sel alts => ev sel ++ flat_map f alts
  end.
Definition ev_iter (it : iter_scheme) : list event :=
  match it with IFor r => ev_drange r | IWhile c => ev c | INone => [] end.

(* `search_decl` on one sequential statement: its own expressions *)
Definition ev_own (root : N -> ent_kind) (ver : version) (s : stmt) : list event :=
  match s with
  | SSigAssign _ r => ev_rhs ev_wave r
  | SVarAssign _ r => ev_rhs ev r
  | SForce _ r => ev_rhs ev r
  | SRelease _ => []
  | SIf branches _ => flat_map (fun b : expr * list stmt => ev (fst b)) branches
  | SCase sel _ => ev sel
  | SLoop it _ => ev_iter it
  | SCall sp callee args => ev_args root ver sp callee 0 args
  | SAssert c _ _ => ev c
  | SReport m _ => ev m
  | SNext c => ev_opt c
  | SExit c => ev_opt c
  | SReturn e => ev_opt e
  | SNull => []
  | SWait _ _ _ => []
  end.

(* `LabeledSequentialStatement::search`: search_decl first, then the nested statements *)
Fixpoint ev_stmt (root : N -> ent_kind) (ver : version) (s : stmt) : list event :=
  ev_own root ver s ++
  match s with
  | SIf branches els =>
      flat_map (fun b : expr * list stmt => flat_map (ev_stmt root ver) (snd b)) branches
      ++ flat_map (ev_stmt root ver) els
  | SCase _ alts => flat_map (flat_map (ev_stmt root ver)) alts
  | SLoop _ body => flat_map (ev_stmt root ver) body
  | _ => []
  end.
Definition ev_stmts (root : N -> ent_kind) (ver : version) (ss : list stmt) : list event :=
  flat_map (ev_stmt root ver) ss.

(* SensitivityListChecker *)
Record checker := mkChecker { superfluous : list (N * span); found : list (N * span) }.

Fixpoint upsert_min (k : N) (sp : span) (m : list (N * span)) : list (N * span) :=
  match m with
  | [] => [(k, sp)]
  | (k', sp') :: r =>
      if k =? k' then (if sp_start sp <? sp_start sp' then (k, sp) :: r else (k', sp') :: r)
      else (k', sp') :: upsert_min k sp r
  end.
Fixpoint insert_first (k : N) (sp : span) (m : list (N * span)) : list (N * span) :=
  match m with
  | [] => [(k, sp)]
  | (k', sp') :: r => if k =? k' then (k', sp') :: r else (k', sp') :: insert_first k sp r
  end.

Section Model.
Variable root : N -> ent_kind.
Variable sens_list : list (N * span).     (* self.sensitivity_list *)

Definition analyze_designator_gen (ins : N -> span -> list (N * span) -> list (N * span))
           (st : checker) (e : event) : checker :=
  let sup := assoc_remove (ev_id e) (superfluous st) in
  if is_signal root (ev_id e) && negb (assoc_mem (ev_id e) sens_list) && negb (ev_ro e)
  then mkChecker sup (ins (ev_id e) (ev_sp e) (found st))
  else mkChecker sup (found st).
Definition analyze_designator := analyze_designator_gen upsert_min.
Definition analyze_designator_old := analyze_designator_gen insert_first.
End Model.

(* Name::get_suffix_reference_disregard_index *)
Fixpoint suffix_ref_disregard_index (e : expr) : desig :=
  match e with
  | EDesig _ d => d
  | ESelected _ _ suf => suf
  | ESlice _ p _ => suffix_ref_disregard_index p
  | ECall _ p _ => suffix_ref_disregard_index p
  | _ => None
  end.
(* names.iter().flat_map(..).collect::<FnvHashMap<_,_>>() — iteration order of the map: first insertion *)
Definition sens_map (names : list expr) : list (N * span) :=
  fold_left (fun m n => match suffix_ref_disregard_index n with
                        | Some i => assoc_insert i (span_of n) m
                        | None => m
                        end) names [].

(* missing_signals.sort_by(pos): stable insertion sort by the start of the position *)
Fixpoint insert_sorted (x : N * span) (l : list (N * span)) : list (N * span) :=
  match l with
  | [] => [x]
  | y :: r => if sp_start (snd y) <? sp_start (snd x) then y :: insert_sorted x r else x :: y :: r
  end.
Definition sort_by_pos (l : list (N * span)) : list (N * span) := fold_right insert_sorted [] l.

(* is_likely_clocked *)
Fixpoint is_likely_clocked (root : N -> ent_kind) (e : expr) : bool :=
  match e with
  | EBinary _ l r => is_likely_clocked root l || is_likely_clocked root r
  | EUnary _ x => is_likely_clocked root x
  | EAggregate _ _ => false
  | EQualified _ _ => false
  | EAttr _ _ k _ => match k with AkEvent => true | _ => false end
  | ECall _ p _ =>
      match suffix_ref p with
      | Some i => match root i with
                  | KOverloaded [_] true => true     (* signature.formals.len() == 1, return type BOOLEAN *)
                  | _ => false
                  end
      | None => false
      end
  | EDesig _ _ | ESelected _ _ _ | ESlice _ _ _ => false
  | ELit _ => false
  | EParen _ x => is_likely_clocked root x
  end.

Inductive category := Combinational | Sequential.

(* the closure of `process.statements.iter().any(..)`; None = the panic of `conditionals[0]` *)
Definition stmt_clocked (root : N -> ent_kind) (s : stmt) : option bool :=
  match s with
  | SIf branches _ =>
      match branches with
      | [] => None
      | (c0, _) :: rest =>
          Some (is_likely_clocked root c0
                || match rest with
                   | [(c1, _)] => is_likely_clocked root c1
                   | _ => false
                   end)
      end
  | _ => Some false
  end.
Fixpoint any_clocked (root : N -> ent_kind) (ss : list stmt) : option bool :=
  match ss with
  | [] => Some false
  | s :: r => match stmt_clocked root s with
              | None => None
              | Some true => Some true
              | Some false => any_clocked root r
              end
  end.
Definition get_likely_process_category (root : N -> ent_kind) (p : process) : option category :=
  match any_clocked root (p_body p) with
  | None => None
  | Some true => Some Sequential
  | Some false => Some Combinational
  end.

Inductive diag :=
| DMissing (at_ : span) (sigs : list (N * span))   (* one diagnostic at the process keyword; names + related positions *)
| DSuperfluous (at_ : span).                        (* at the sensitivity-list entry *)

(* lint_sensitivity_list; None = panic *)
Definition lint_gen (ver : version) (root : N -> ent_kind) (p : process) : option (list diag) :=
  match p_sens p with
  | None => Some []
  | Some SensAll => Some []
  | Some (SensNames names) =>
      match get_likely_process_category root p with
      | None => None
      | Some Sequential => Some []
      | Some Combinational =>
          let sl := sens_map names in
          let step := match ver with
                      | VPreF14 => analyze_designator_old root sl
                      | _ => analyze_designator root sl
                      end in
          let st := fold_left step (ev_stmts root ver (p_body p)) (mkChecker sl []) in
          let missing := sort_by_pos (found st) in
          Some ((match missing with [] => [] | _ => [DMissing (p_kw p) missing] end)
                ++ map (fun x : N * span => DSuperfluous (snd x)) (superfluous st))
      end
  end.
Definition lint_model := lint_gen VNow.
Definition lint_model_f20 := lint_gen VPreF20.   (* before 8599f6f *)
Definition lint_model_old := lint_gen VPreF14.   (* before d3610d9 *)

(* ---- the specification of the two diagnostics ---- *)
Definition spec_missing (root : N -> ent_kind) (p : process) (names : list expr) : list (N * span) :=
  filter (fun x : N * span => negb (assoc_mem (fst x) (sens_map names))) (reads root p).
Definition spec_superfluous (root : N -> ent_kind) (p : process) (names : list expr) : list span :=
  map snd (filter (fun x : N * span => negb (memN (fst x) (mentioned (occ_stmts root (p_body p)))))
                  (sens_map names)).
Definition spec_diags (root : N -> ent_kind) (p : process) (names : list expr) : list diag :=
  (match spec_missing root p names with [] => [] | m => [DMissing (p_kw p) m] end)
  ++ map DSuperfluous (spec_superfluous root p names).

(* every listed name denotes a signal *)
Definition listed_signals (root : N -> ent_kind) (names : list expr) : bool :=
  forallb (fun n => match suffix_ref_disregard_index n with
                    | Some i => is_signal root i
                    | None => false
                    end) names.

(* the static semantics of the procedure calls as the SPEC sees it (`a_mode`) is what the code resolves:
   for every association element, `is_out_mode_formal` holds exactly when the associated formal has mode out
   (the callee and the formal are resolved: always the case in a design that analyses without errors) *)
Fixpoint resolved_args (root : N -> ent_kind) (callee : expr) (idx : nat) (args : list assoc) : bool :=
  match args with
  | [] => true
  | a :: r =>
      Bool.eqb (is_out_mode_formal root callee idx (a_formal a)) (match a_mode a with MOut => true | _ => false end)
      && resolved_args root callee (S idx) r
  end.
Fixpoint resolved_stmt (root : N -> ent_kind) (s : stmt) : bool :=
  match s with
  | SIf branches els =>
      forallb (fun b : expr * list stmt => forallb (resolved_stmt root) (snd b)) branches
      && forallb (resolved_stmt root) els
  | SCase _ alts => forallb (forallb (resolved_stmt root)) alts
  | SLoop _ body => forallb (resolved_stmt root) body
  | SCall _ callee args => resolved_args root callee 0 args
  | _ => true
  end.
Definition calls_resolved (root : N -> ent_kind) (p : process) : bool := forallb (resolved_stmt root) (p_body p).

(* a root for executable cases: ids in [slo,shi] are signals, the other entities of interest are listed *)
Fixpoint tab_lookup (tab : list (N * ent_kind)) (i : N) : option ent_kind :=
  match tab with [] => None | (k, v) :: r => if i =? k then Some v else tab_lookup r i end.
Definition root_tab (slo shi : N) (tab : list (N * ent_kind)) (i : N) : ent_kind :=
  match tab_lookup tab i with
  | Some k => k
  | None => if (slo <=? i) && (i <=? shi) then KSignal else KOther
  end.

(* ------------------------------------------------------------------------------------------ *)
(* projections of the diagnostic list and the witness processes used in Props/C20.v            *)
(* ------------------------------------------------------------------------------------------ *)
Definition missing_of (ds : list diag) : list (span * list (N * span)) :=
  flat_map (fun d => match d with DMissing a s => [(a, s)] | _ => [] end) ds.
Definition superfluous_of (ds : list diag) : list span :=
  flat_map (fun d => match d with DSuperfluous a => [a] | _ => [] end) ds.


(* ---- witnesses ---- *)
Definition tk (n : N) : span := (n, n).
Definition sg (n i : N) : expr := EDesig (tk n) (Some i).
Definition lit (n : N) : expr := ELit (tk n).
Definition assign (tn ti vn vi : N) : stmt := SSigAssign (sg tn ti) (RSimple (Some [(sg vn vi, None)])).
(* signals 1..6, of which 6 (`o2`) is an OUT PORT of the entity; 200 = procedure pr(a, b, c, d : in bit); 201 = procedure po(signal a : in bit; signal o : out bit) *)
Definition root6 : N -> ent_kind :=
  root_tab 1 6 [(200, KOverloaded [301; 302; 303; 304] false); (201, KOverloaded [311; 312] false);
                (301, KParam MIn false); (302, KParam MIn false); (303, KParam MIn false); (304, KParam MIn false);
                (311, KParam MIn true); (312, KParam MOut true); (6, KPort MOut)].
Definition arg (m : mode) (e : expr) : assoc := mkAssoc m None e.

(* F14:  process (o) begin if a = 1 then o <= x; o2 <= z; elsif x = 2 then o <= y; end if; end process;
   tokens: process 0 ( 1 o 2 ) 3 begin 4 if 5 a 6 = 7 1 8 then 9 o 10 <= 11 x 12 ; 13 o2 14 <= 15 z 16 ; 17
           elsif 18 x 19 = 20 2 21 then 22 o 23 <= 24 y 25 ; 26 ...   signals a=1 x=2 z=3 y=4 o=5 o2=6 *)
Definition f14 : process :=
  mkProcess (tk 0) (Some (SensNames [sg 2 5]))
    [SIf [(EBinary (6, 8) (sg 6 1) (lit 8), [assign 10 5 12 2; assign 14 6 16 3]);
          (EBinary (19, 21) (sg 19 2) (lit 21), [assign 23 5 25 4])] []].
(* F15:  process (o) begin pr(s4, s2, s3, s1); end process;   pr 5 ( 6 s4 7 , 8 s2 9 , 10 s3 11 , 12 s1 13 ) 14 *)
Definition f15 : process :=
  mkProcess (tk 0) (Some (SensNames [sg 2 5]))
    [SCall (5, 14) (EDesig (tk 5) (Some 200)) [arg MIn (sg 7 4); arg MIn (sg 9 2); arg MIn (sg 11 3); arg MIn (sg 13 1)]].
(* F20:  process (a) begin po(a, o); end process;   po 5 ( 6 a 7 , 8 o 9 ) 10;  o is the actual of an out parameter *)
Definition f20 : process :=
  mkProcess (tk 0) (Some (SensNames [sg 2 1]))
    [SCall (5, 10) (EDesig (tk 5) (Some 201)) [arg MIn (sg 7 1); arg MOut (sg 9 5)]].
(* the same call with a named association and an indexed out actual:  po ( o => v ( i ) , a => a ) ;
   po 5 ( 6 o 7 => 8 v 9 ( 10 i 11 ) 12 , 13 a 14 => 15 a 16 ) 17;  v = 6, i = 3: i is read, v is written *)
Definition f20n : process :=
  mkProcess (tk 0) (Some (SensNames [sg 2 1]))
    [SCall (5, 17) (EDesig (tk 5) (Some 201))
       [mkAssoc MOut (Some (EDesig (tk 7) (Some 312))) (ECall (9, 12) (sg 9 6) [sg 11 3]);
        mkAssoc MIn (Some (EDesig (tk 14) (Some 311))) (sg 16 1)]].

(* an unlisted OUT PORT that the process reads:  process (a) begin o <= a and o2 ; end process;
   o 5 <= 6 a 7 and 8 o2 9;  o2 = 6 is an out port of the entity (readable since VHDL-2008) *)
Definition f_outport : process :=
  mkProcess (tk 0) (Some (SensNames [sg 2 1]))
    [SSigAssign (sg 5 5) (RSimple (Some [(EBinary (7, 9) (sg 7 1) (sg 9 6), None)]))].

Definition hyps (root : N -> ent_kind) (p : process) (names : list expr) : Prop :=
  p_sens p = Some (SensNames names) /\ get_likely_process_category root p = Some Combinational /\
  in_family root p = true /\ calls_resolved root p = true /\ wf_pos root p = true /\
  listed_signals root names = true.


(* ------------------------------------------------------------------------------------------ *)
(* unit level: `analyze_unit` = every process the Search traversal reaches in a design unit     *)
(* ------------------------------------------------------------------------------------------ *)
(* concurrent statements: a process (plain, labelled, postponed: the same ProcessStatement), a block, a
   generate statement (for / if / case: its bodies), anything else *)
Inductive conc : Type :=
| CProcess (p : process)
| CBlock (body : list conc)
| CGenerate (bodies : list (list conc))
| COther.
Inductive unit_kind := UEntity | UArchitecture | UPackage | UPackageBody | UConfiguration | UContext.
(* a design unit with its statement part: entity declarations (passive processes) and architecture bodies have
   one; `ProcessSearcher` is run on EVERY unit (a package body is pruned: it has no statement part) *)
Record dunit := mkUnit { u_kind : unit_kind; u_stmts : list conc }.

Fixpoint procs_conc (c : conc) : list process :=
  match c with
  | CProcess p => [p]
  | CBlock body => flat_map procs_conc body
  | CGenerate bodies => flat_map (flat_map procs_conc) bodies
  | COther => []
  end.
Definition procs_of (u : dunit) : list process := flat_map procs_conc (u_stmts u).

(* diagnostics.append(lint_sensitivity_list(..)) for every process found; None = panic *)
Fixpoint lint_all (root : N -> ent_kind) (ps : list process) : option (list diag) :=
  match ps with
  | [] => Some []
  | p :: r => match lint_model root p, lint_all root r with
              | Some a, Some b => Some (a ++ b)
              | _, _ => None
              end
  end.
Definition analyze_unit (root : N -> ent_kind) (u : dunit) : option (list diag) := lint_all root (procs_of u).
(* seeded variant: only architecture bodies are searched *)
Definition analyze_unit_arch_only (root : N -> ent_kind) (u : dunit) : option (list diag) :=
  match u_kind u with UArchitecture => lint_all root (procs_of u) | _ => Some [] end.

(* what the statement says about one process, and when it says it *)
Definition expected (root : N -> ent_kind) (p : process) : list diag :=
  match p_sens p with
  | Some (SensNames names) =>
      match get_likely_process_category root p with
      | Some Combinational => spec_diags root p names
      | _ => []
      end
  | _ => []
  end.
Definition covered (root : N -> ent_kind) (p : process) : Prop :=
  match p_sens p with
  | Some (SensNames names) =>
      get_likely_process_category root p = Some Sequential \/
      (get_likely_process_category root p = Some Combinational /\ in_family root p = true /\
       calls_resolved root p = true /\ wf_pos root p = true /\ listed_signals root names = true)
  | _ => True
  end.

(* witness: the passive process of f_outport in the statement part of an ENTITY, inside a block in a generate *)
Definition u_entity : dunit := mkUnit UEntity [COther; CGenerate [[CBlock [CProcess f_outport]]; []]].
