(* Lint/DeadCodeProofs.v — proofs about the model of vhdl_lang/src/lint/dead_code.rs (C19).
   Main results (pinned in Props/C19.v):
     unused_exact, can_be_locally_unused_iff, pair_rule, pair_rule_explicit, wf_events_b_sound,
     emit_exact, third_party_silent, all_third_party_silent, lint_step, history_exact,
     nofilter_refuted, emit_nofilter_refuted, stale_cache_refuted, hyps_satisfiable,
     history_satisfiable. *)
From Coq Require Import List NArith Bool Lia.
Import ListNotations.
From RH Require Import Lint.DeadCode.
Open Scope N_scope.

#[local] Arguments N.eqb : simpl never.

(* ------------------------------------------------------------------------- *)
(* 0. Induction principle for the nested inductive `ent`                      *)
(* ------------------------------------------------------------------------- *)

Lemma ent_ind' : forall (P : ent -> Prop),
  (forall i k p r dp,
      (forall x, p = Some x -> P x) ->
      (forall x, r = DeclaredBy x -> P x) -> P (Ent i k p r dp)) ->
  forall e, P e.
Proof.
  intros P H. fix IH 1. intros [i k p r dp]. apply H.
  - intros x Hx. destruct p as [y|]; [|discriminate Hx].
    injection Hx as Hx. rewrite <- Hx. apply IH.
  - intros x Hx. destruct r as [y| |]; [|discriminate Hx|discriminate Hx].
    injection Hx as Hx. rewrite <- Hx. apply IH.
Qed.

(* ------------------------------------------------------------------------- *)
(* 1. can_be_locally_unused decides `eligible`                                *)
(* ------------------------------------------------------------------------- *)

Lemma is_package_header_iff : forall p, is_package_header p = true <-> pkg_header p.
Proof.
  intros p. unfold is_package_header, pkg_header.
  destruct (ekind p); split; intros H;
    try discriminate H; try (left; reflexivity); try (right; reflexivity);
    try reflexivity; destruct H as [H|H]; discriminate H.
Qed.

Lemma is_interface_iff : forall d, is_interface d = true <-> generic_interface d.
Proof.
  intros d. unfold is_interface, generic_interface.
  destruct (ekind d) as [| | | | | | | | | | |[|]| | | |]; split; intros H;
    try discriminate H; try (left; reflexivity); try (right; reflexivity);
    try reflexivity; destruct H as [H|H]; discriminate H.
Qed.

Lemma kind_is_component_iff : forall k, kind_is_component k = true <-> k = KComponent.
Proof. intros k. destruct k; cbn; split; intros H; try discriminate H; reflexivity. Qed.

Lemma kind_is_protected_iff : forall k, kind_is_protected k = true <-> k = KTypeProtected.
Proof. intros k. destruct k; cbn; split; intros H; try discriminate H; reflexivity. Qed.

Lemma kind_is_subprogram_decl_iff : forall k, kind_is_subprogram_decl k = true <-> k = KSubprogramDecl.
Proof. intros k. destruct k; cbn; split; intros H; try discriminate H; reflexivity. Qed.

Lemma kind_allows_iff : forall d,
  kind_allows (ekind d) = true <->
  ~ design_unit d /\ ~ label d /\ ~ loop_parameter d /\ ~ record_element d /\ ~ enumeration_literal d.
Proof.
  intros d.
  unfold design_unit, label, loop_parameter, record_element, enumeration_literal.
  destruct (ekind d); cbn; split; intros H;
    try discriminate H; try reflexivity;
    try (repeat split; intros Hc;
         repeat (destruct Hc as [Hc|Hc]; try discriminate Hc); discriminate Hc);
    destruct H as [H1 [H2 [H3 [H4 H5]]]]; exfalso;
    first [ apply H1; auto; fail | apply H2; auto; fail | apply H3; reflexivity
          | apply H4; reflexivity | apply H5; reflexivity ].
Qed.

Definition grand_is_header (p : ent) : bool :=
  match eparent p with Some g => is_package_header g | None => false end.

Lemma parent_allows_some : forall d p, eparent d = Some p ->
  parent_allows d =
  negb (is_package_header p && negb (is_interface d))
  && negb (kind_is_component (ekind p))
  && negb (kind_is_protected (ekind p) && grand_is_header p)
  && negb (kind_is_subprogram_decl (ekind p)).
Proof.
  intros d p Hp. unfold parent_allows, grand_is_header. rewrite Hp.
  destruct (is_package_header p && negb (is_interface d)); [reflexivity|].
  destruct (kind_is_component (ekind p)); [reflexivity|].
  destruct (kind_is_protected (ekind p) &&
            match eparent p with Some g => is_package_header g | None => false end);
    [reflexivity|].
  destruct (kind_is_subprogram_decl (ekind p)); reflexivity.
Qed.

Lemma package_header_item_iff : forall d p, eparent d = Some p ->
  (package_header_item d <->
   (is_package_header p && negb (is_interface d))
   || (kind_is_protected (ekind p) && grand_is_header p) = true).
Proof.
  intros d p Hp. unfold package_header_item, grand_is_header.
  rewrite orb_true_iff, !andb_true_iff, negb_true_iff. split.
  - intros [[p' [E [H1 H2]]] | [p' [g [E [H1 [H2 H3]]]]]];
      rewrite Hp in E; injection E as E; subst p'.
    + left. split.
      * apply is_package_header_iff. exact H1.
      * destruct (is_interface d) eqn:Hi; [|reflexivity].
        exfalso. apply H2. apply is_interface_iff. exact Hi.
    + right. rewrite H2. split.
      * apply kind_is_protected_iff. exact H1.
      * apply is_package_header_iff. exact H3.
  - intros [[H1 H2] | [H1 H2]].
    + left. exists p. split; [exact Hp|]. split.
      * apply is_package_header_iff. exact H1.
      * intros Hg. apply is_interface_iff in Hg. rewrite Hg in H2. discriminate H2.
    + right. destruct (eparent p) as [g|] eqn:Hg; [|discriminate H2].
      exists p, g. split; [exact Hp|]. split; [apply kind_is_protected_iff; exact H1|].
      split; [exact Hg|]. apply is_package_header_iff. exact H2.
Qed.

Lemma component_port_iff : forall d p, eparent d = Some p ->
  (component_port d <-> kind_is_component (ekind p) = true).
Proof.
  intros d p Hp. unfold component_port. split.
  - intros [p' [E H]]. rewrite Hp in E. injection E as E. subst p'.
    apply kind_is_component_iff. exact H.
  - intros H. exists p. split; [exact Hp|]. apply kind_is_component_iff. exact H.
Qed.

Lemma formal_of_subprogram_declaration_iff : forall d p, eparent d = Some p ->
  (formal_of_subprogram_declaration d <-> kind_is_subprogram_decl (ekind p) = true).
Proof.
  intros d p Hp. unfold formal_of_subprogram_declaration. split.
  - intros [p' [E H]]. rewrite Hp in E. injection E as E. subst p'.
    apply kind_is_subprogram_decl_iff. exact H.
  - intros H. exists p. split; [exact Hp|]. apply kind_is_subprogram_decl_iff. exact H.
Qed.

Lemma parent_allows_iff : forall d,
  parent_allows d = true <->
  ~ package_header_item d /\ ~ component_port d /\ ~ formal_of_subprogram_declaration d.
Proof.
  intros d. destruct (eparent d) as [p|] eqn:Hp.
  - rewrite (parent_allows_some d p Hp).
    rewrite (package_header_item_iff d p Hp), (component_port_iff d p Hp),
            (formal_of_subprogram_declaration_iff d p Hp).
    destruct (is_package_header p && negb (is_interface d));
      destruct (kind_is_component (ekind p));
      destruct (kind_is_protected (ekind p) && grand_is_header p);
      destruct (kind_is_subprogram_decl (ekind p)); cbn;
      split; intros H; try discriminate H; try reflexivity;
      try (repeat split; intros Hc; discriminate Hc);
      destruct H as [H1 [H2 H3]]; exfalso;
      first [ apply H1; reflexivity | apply H2; reflexivity | apply H3; reflexivity ].
  - unfold parent_allows. rewrite Hp. split; [|reflexivity]. intros _.
    unfold package_header_item, component_port, formal_of_subprogram_declaration.
    rewrite Hp. repeat split.
    + intros [[p [E _]] | [p [g [E _]]]]; discriminate E.
    + intros [p [E _]]. discriminate E.
    + intros [p [E _]]. discriminate E.
Qed.

Lemma eligible1_iff : forall d,
  eligible1 d <-> kind_allows (ekind d) = true /\ parent_allows d = true.
Proof.
  intros d. unfold eligible1. rewrite kind_allows_iff, parent_allows_iff. tauto.
Qed.

Lemma can_be_locally_unused_unfold : forall d,
  can_be_locally_unused d =
  (match erelated d with DeclaredBy o => can_be_locally_unused o | _ => true end)
  && kind_allows (ekind d) && parent_allows d.
Proof.
  intros [i k p r dp]. cbn [can_be_locally_unused erelated ekind].
  destruct r as [o| |].
  - destruct (can_be_locally_unused o); cbn [negb andb]; [|reflexivity].
    destruct (kind_allows k); reflexivity.
  - destruct (kind_allows k); reflexivity.
  - destruct (kind_allows k); reflexivity.
Qed.

Lemma eligible_unfold : forall d,
  eligible d <->
  eligible1 d /\ match erelated d with DeclaredBy o => eligible o | _ => True end.
Proof. intros [i k p r dp]. cbn [eligible erelated]. tauto. Qed.

Lemma can_be_locally_unused_iff : forall d, can_be_locally_unused d = true <-> eligible d.
Proof.
  intros d. induction d as [i k p r dp _ IHr] using ent_ind'.
  rewrite can_be_locally_unused_unfold, eligible_unfold, eligible1_iff.
  rewrite !andb_true_iff. cbn [erelated].
  destruct r as [o| |].
  - rewrite (IHr o eq_refl). tauto.
  - tauto.
  - tauto.
Qed.

(* ------------------------------------------------------------------------- *)
(* 2. Soundness of the executable well-formedness test                        *)
(* ------------------------------------------------------------------------- *)

Lemma kind_eqb_eq : forall a b, kind_eqb a b = true -> a = b.
Proof.
  intros a b H. destruct a, b; try discriminate H; try reflexivity.
  cbn in H. apply eqb_prop in H. rewrite H. reflexivity.
Qed.

Lemma opt_n_eqb_eq : forall a b, opt_n_eqb a b = true -> a = b.
Proof.
  intros [x|] [y|] H; try discriminate H; try reflexivity.
  cbn in H. apply N.eqb_eq in H. rewrite H. reflexivity.
Qed.

Lemma ent_struct_eqb_eq : forall a b, ent_struct_eqb a b = true -> a = b.
Proof.
  intros a. induction a as [i k p r dp IHp IHr] using ent_ind'.
  intros [i' k' p' r' dp'] H. cbn [ent_struct_eqb] in H.
  rewrite !andb_true_iff in H. destruct H as [[[[Hi Hk] Hd] Hp] Hr].
  apply N.eqb_eq in Hi. apply kind_eqb_eq in Hk. apply opt_n_eqb_eq in Hd.
  assert (Ep : p = p').
  { destruct p as [x|], p' as [y|]; try discriminate Hp; [|reflexivity].
    rewrite (IHp x eq_refl y Hp). reflexivity. }
  assert (Er : r = r').
  { destruct r as [x| |], r' as [y| |]; try discriminate Hr; try reflexivity.
    rewrite (IHr x eq_refl y Hr). reflexivity. }
  subst. reflexivity.
Qed.

Lemma wf_ids_b_sound : forall evs, wf_ids_b evs = true -> wf_ids evs.
Proof.
  intros evs H a b Ha Hb E. unfold wf_ids_b in H.
  rewrite forallb_forall in H. specialize (H a Ha).
  rewrite forallb_forall in H. specialize (H b Hb).
  apply N.eqb_eq in E. rewrite E in H. apply ent_struct_eqb_eq. exact H.
Qed.

Lemma wf_depth_b_sound : forall evs, wf_depth_b evs = true -> wf_depth evs.
Proof.
  intros evs H a o Ha E. unfold wf_depth_b in H.
  rewrite forallb_forall in H. specialize (H a Ha). rewrite E in H.
  destruct (erelated o); [discriminate H|exact I|exact I].
Qed.

Lemma wf_events_b_sound : forall evs, wf_events_b evs = true -> wf_events evs.
Proof.
  intros evs H. unfold wf_events_b in H. apply andb_true_iff in H. destruct H as [H1 H2].
  split; [apply wf_ids_b_sound; exact H1 | apply wf_depth_b_sound; exact H2].
Qed.

(* ------------------------------------------------------------------------- *)
(* 3. Sets of entities (by id)                                                *)
(* ------------------------------------------------------------------------- *)

Lemma set_mem_iff : forall x s, set_mem x s = true <-> exists y, In y s /\ eid y = eid x.
Proof.
  intros x s. induction s as [|a s IH]; cbn [set_mem In].
  - split; [intros H; discriminate H | intros [y [[] _]]].
  - unfold ent_eqb. destruct (eid x =? eid a) eqn:E.
    + apply N.eqb_eq in E. split; [|reflexivity]. intros _. exists a. split; [left; reflexivity|].
      symmetry. exact E.
    + apply N.eqb_neq in E. rewrite IH. split.
      * intros [y [Hy Ey]]. exists y. split; [right; exact Hy|exact Ey].
      * intros [y [[Hy|Hy] Ey]].
        -- subst y. exfalso. apply E. symmetry. exact Ey.
        -- exists y. split; assumption.
Qed.

Lemma set_mem_false_iff : forall x s, set_mem x s = false <-> forall y, In y s -> eid y <> eid x.
Proof.
  intros x s. split.
  - intros H y Hy E. assert (Ht : set_mem x s = true) by (apply set_mem_iff; exists y; auto).
    rewrite Ht in H. discriminate H.
  - intros H. destruct (set_mem x s) eqn:E; [|reflexivity].
    apply set_mem_iff in E. destruct E as [y [Hy Ey]]. exfalso. exact (H y Hy Ey).
Qed.

Lemma in_set_insert : forall x e s, In x (set_insert e s) <-> In x s \/ (x = e /\ set_mem e s = false).
Proof.
  intros x e s. unfold set_insert. destruct (set_mem e s) eqn:E.
  - split; [intros H; left; exact H | intros [H|[_ H]]; [exact H|discriminate H]].
  - rewrite in_app_iff. cbn [In]. split.
    + intros [H|[H|[]]]; [left; exact H | right; split; [symmetry; exact H|reflexivity]].
    + intros [H|[H _]]; [left; exact H | right; left; symmetry; exact H].
Qed.

Lemma set_mem_insert : forall x e s,
  set_mem x (set_insert e s) = true <-> set_mem x s = true \/ eid e = eid x.
Proof.
  intros x e s. rewrite !set_mem_iff. split.
  - intros [y [Hy Ey]]. apply in_set_insert in Hy. destruct Hy as [Hy|[Hy _]].
    + left. exists y. split; assumption.
    + right. subst y. exact Ey.
  - intros [[y [Hy Ey]]|E].
    + exists y. split; [|exact Ey]. apply in_set_insert. left. exact Hy.
    + destruct (set_mem e s) eqn:Em.
      * apply set_mem_iff in Em. destruct Em as [y [Hy Ey]]. exists y.
        split; [apply in_set_insert; left; exact Hy|]. rewrite Ey. exact E.
      * exists e. split; [|exact E]. apply in_set_insert. right. split; [reflexivity|exact Em].
Qed.

Lemma nodup_set_insert : forall e s, NoDup (map eid s) -> NoDup (map eid (set_insert e s)).
Proof.
  intros e s H. unfold set_insert. destruct (set_mem e s) eqn:E; [exact H|].
  rewrite map_app. cbn [map].
  assert (Hn : ~ In (eid e) (map eid s)).
  { intros Hi. apply in_map_iff in Hi. destruct Hi as [y [Ey Hy]].
    rewrite set_mem_false_iff in E. exact (E y Hy Ey). }
  clear E. induction (map eid s) as [|a l IH]; cbn [app].
  - constructor; [intros []|constructor].
  - inversion H as [|a' l' Ha Hl]; subst a' l'. constructor.
    + rewrite in_app_iff. cbn [In]. intros [Hi|[Hi|[]]].
      * exact (Ha Hi).
      * apply Hn. left. symmetry. exact Hi.
    + apply IH; [exact Hl|]. intros Hi. apply Hn. right. exact Hi.
Qed.

Lemma nodup_map_filter : forall (A B : Type) (f : A -> B) (p : A -> bool) (l : list A),
  NoDup (map f l) -> NoDup (map f (filter p l)).
Proof.
  intros A B f p l. induction l as [|a l IH]; cbn [map filter]; intros H.
  - constructor.
  - inversion H as [|a' l' Ha Hl]; subst a' l'. destruct (p a); cbn [map].
    + constructor; [|apply IH; exact Hl].
      intros Hi. apply Ha. apply in_map_iff in Hi. destruct Hi as [y [Ey Hy]].
      apply filter_In in Hy. destruct Hy as [Hy _]. apply in_map_iff. exists y. split; assumption.
    + apply IH. exact Hl.
Qed.

(* ------------------------------------------------------------------------- *)
(* 4. Invariants of the searcher                                              *)
(* ------------------------------------------------------------------------- *)

(* x is (by id) a referenced entity or the DeclaredBy target of one *)
Definition refd (evs : list event) (x : ent) : Prop :=
  exists r, In (EvRef (Some r)) evs /\
            (eid r = eid x \/ exists o, erelated r = DeclaredBy o /\ eid o = eid x).

Definition decld (evs : list event) (x : ent) : Prop :=
  exists x', In (EvDecl (Some x')) evs /\ eid x' = eid x.

Lemma refd_nil : forall x, ~ refd [] x.
Proof. intros x [r [[] _]]. Qed.

Lemma decld_nil : forall x, ~ decld [] x.
Proof. intros x [r [[] _]]. Qed.

Lemma refd_cons : forall ev evs x,
  refd (ev :: evs) x <->
  (exists r, ev = EvRef (Some r) /\
             (eid r = eid x \/ exists o, erelated r = DeclaredBy o /\ eid o = eid x))
  \/ refd evs x.
Proof.
  intros ev evs x. unfold refd. cbn [In]. split.
  - intros [r [[E|Hi] H]].
    + left. exists r. split; assumption.
    + right. exists r. split; assumption.
  - intros [[r [E H]]|[r [Hi H]]].
    + exists r. split; [left; exact E|exact H].
    + exists r. split; [right; exact Hi|exact H].
Qed.

Lemma decld_cons : forall ev evs x,
  decld (ev :: evs) x <-> (exists x', ev = EvDecl (Some x') /\ eid x' = eid x) \/ decld evs x.
Proof.
  intros ev evs x. unfold decld. cbn [In]. split.
  - intros [r [[E|Hi] H]].
    + left. exists r. split; assumption.
    + right. exists r. split; assumption.
  - intros [[r [E H]]|[r [Hi H]]].
    + exists r. split; [left; exact E|exact H].
    + exists r. split; [right; exact Hi|exact H].
Qed.

Lemma search_event_refs : forall s ev x,
  set_mem x (references (search_event s ev)) = true <->
  set_mem x (references s) = true \/
  (exists r, ev = EvRef (Some r) /\
             (eid r = eid x \/ exists o, erelated r = DeclaredBy o /\ eid o = eid x)).
Proof.
  intros s ev x. destruct ev as [[r|]|[d|]]; cbn [search_event search_pos_with_ref search_decl references].
  - destruct (erelated r) as [o| |] eqn:Er.
    + rewrite !set_mem_insert. split.
      * intros [[H|H]|H].
        -- left. exact H.
        -- right. exists r. split; [reflexivity|left; exact H].
        -- right. exists r. split; [reflexivity|]. right. exists o. split; [exact Er|exact H].
      * intros [H|[r' [E H]]].
        -- left. left. exact H.
        -- injection E as E. subst r'. destruct H as [H|[o' [Eo H]]].
           ++ left. right. exact H.
           ++ rewrite Er in Eo. injection Eo as Eo. subst o'. right. exact H.
    + rewrite set_mem_insert. split.
      * intros [H|H]; [left; exact H|]. right. exists r. split; [reflexivity|left; exact H].
      * intros [H|[r' [E H]]]; [left; exact H|]. injection E as E. subst r'.
        destruct H as [H|[o' [Eo _]]]; [right; exact H|]. rewrite Er in Eo. discriminate Eo.
    + rewrite set_mem_insert. split.
      * intros [H|H]; [left; exact H|]. right. exists r. split; [reflexivity|left; exact H].
      * intros [H|[r' [E H]]]; [left; exact H|]. injection E as E. subst r'.
        destruct H as [H|[o' [Eo _]]]; [right; exact H|]. rewrite Er in Eo. discriminate Eo.
  - split; [intros H; left; exact H|]. intros [H|[r [E _]]]; [exact H|discriminate E].
  - split; [intros H; left; exact H|]. intros [H|[r [E _]]]; [exact H|discriminate E].
  - split; [intros H; left; exact H|]. intros [H|[r [E _]]]; [exact H|discriminate E].
Qed.

Lemma search_event_decls_mem : forall s ev x,
  set_mem x (declarations (search_event s ev)) = true <->
  set_mem x (declarations s) = true \/ (exists x', ev = EvDecl (Some x') /\ eid x' = eid x).
Proof.
  intros s ev x. destruct ev as [[r|]|[d|]]; cbn [search_event search_pos_with_ref search_decl declarations].
  - split; [intros H; left; exact H|]. intros [H|[r' [E _]]]; [exact H|discriminate E].
  - split; [intros H; left; exact H|]. intros [H|[r' [E _]]]; [exact H|discriminate E].
  - rewrite set_mem_insert. split.
    + intros [H|H]; [left; exact H|]. right. exists d. split; [reflexivity|exact H].
    + intros [H|[d' [E H]]]; [left; exact H|]. injection E as E. subst d'. right. exact H.
  - split; [intros H; left; exact H|]. intros [H|[r' [E _]]]; [exact H|discriminate E].
Qed.

Lemma search_event_decls_in : forall s ev x,
  In x (declarations (search_event s ev)) -> In x (declarations s) \/ ev = EvDecl (Some x).
Proof.
  intros s ev x. destruct ev as [[r|]|[d|]]; cbn [search_event search_pos_with_ref search_decl declarations];
    intros H; try (left; exact H).
  apply in_set_insert in H. destruct H as [H|[H _]]; [left; exact H|]. right. subst x. reflexivity.
Qed.

Lemma search_event_decls_nodup : forall s ev,
  NoDup (map eid (declarations s)) -> NoDup (map eid (declarations (search_event s ev))).
Proof.
  intros s ev H. destruct ev as [[r|]|[d|]]; cbn [search_event search_pos_with_ref search_decl declarations];
    try exact H.
  apply nodup_set_insert. exact H.
Qed.

Lemma fold_refs : forall evs s x,
  set_mem x (references (fold_left search_event evs s)) = true <->
  set_mem x (references s) = true \/ refd evs x.
Proof.
  induction evs as [|ev evs IH]; intros s x; cbn [fold_left].
  - split; [intros H; left; exact H|]. intros [H|H]; [exact H|]. exfalso. exact (refd_nil x H).
  - rewrite IH, search_event_refs, refd_cons. tauto.
Qed.

Lemma fold_decls_mem : forall evs s x,
  set_mem x (declarations (fold_left search_event evs s)) = true <->
  set_mem x (declarations s) = true \/ decld evs x.
Proof.
  induction evs as [|ev evs IH]; intros s x; cbn [fold_left].
  - split; [intros H; left; exact H|]. intros [H|H]; [exact H|]. exfalso. exact (decld_nil x H).
  - rewrite IH, search_event_decls_mem, decld_cons. tauto.
Qed.

Lemma fold_decls_in : forall evs s x,
  In x (declarations (fold_left search_event evs s)) ->
  In x (declarations s) \/ In (EvDecl (Some x)) evs.
Proof.
  induction evs as [|ev evs IH]; intros s x; cbn [fold_left]; intros H.
  - left. exact H.
  - apply IH in H. destruct H as [H|H].
    + apply search_event_decls_in in H. destruct H as [H|H]; [left; exact H|].
      right. left. exact H.
    + right. right. exact H.
Qed.

Lemma fold_decls_nodup : forall evs s,
  NoDup (map eid (declarations s)) ->
  NoDup (map eid (declarations (fold_left search_event evs s))).
Proof.
  induction evs as [|ev evs IH]; intros s H; cbn [fold_left].
  - exact H.
  - apply IH. apply search_event_decls_nodup. exact H.
Qed.

Lemma fold_units_concat : forall us s,
  fold_left search_unit us s = fold_left search_event (concat us) s.
Proof.
  induction us as [|u us IH]; intros s; cbn [fold_left concat].
  - reflexivity.
  - rewrite fold_left_app. rewrite IH. reflexivity.
Qed.

Lemma run_searcher_events : forall g,
  run_searcher g = fold_left search_event (group_events g) searcher_new.
Proof.
  intros g. unfold run_searcher, group_events. rewrite fold_left_app, fold_units_concat.
  destruct (primary g); reflexivity.
Qed.

Lemma run_refs : forall g x,
  set_mem x (references (run_searcher g)) = true <-> refd (group_events g) x.
Proof.
  intros g x. rewrite run_searcher_events, fold_refs. cbn [searcher_new references set_mem].
  split; [intros [H|H]; [discriminate H|exact H] | intros H; right; exact H].
Qed.

Lemma run_decls_mem : forall g x,
  set_mem x (declarations (run_searcher g)) = true <-> decld (group_events g) x.
Proof.
  intros g x. rewrite run_searcher_events, fold_decls_mem. cbn [searcher_new declarations set_mem].
  split; [intros [H|H]; [discriminate H|exact H] | intros H; right; exact H].
Qed.

Lemma run_decls_in : forall g x,
  In x (declarations (run_searcher g)) -> In (EvDecl (Some x)) (group_events g).
Proof.
  intros g x H. rewrite run_searcher_events in H. apply fold_decls_in in H.
  destruct H as [[]|H]. exact H.
Qed.

Lemma run_decls_nodup : forall g, NoDup (map eid (declarations (run_searcher g))).
Proof.
  intros g. rewrite run_searcher_events. apply fold_decls_nodup. constructor.
Qed.

(* ------------------------------------------------------------------------- *)
(* 5. The pair rule                                                           *)
(* ------------------------------------------------------------------------- *)

Lemma in_unused_inv : forall s d,
  In d (unused_of_searcher s) <->
  In d (declarations s) /\ set_mem d (references s) = false
  /\ declared_by_filter (references s) d = true /\ can_be_locally_unused d = true.
Proof.
  intros s d. unfold unused_of_searcher. rewrite !filter_In, negb_true_iff. tauto.
Qed.

Lemma referenced_root_mem : forall g r x,
  referenced_in (group_events g) r -> eid (root_of r) = eid x ->
  set_mem x (references (run_searcher g)) = true.
Proof.
  intros g r x Hr E. apply run_refs. exists r. split; [exact Hr|].
  unfold root_of in E. destruct (erelated r) as [o| |] eqn:Er.
  - right. exists o. split; [reflexivity|exact E].
  - left. exact E.
  - left. exact E.
Qed.

Lemma pair_rule :
  forall g r d, referenced_in (group_events g) r -> eid (root_of r) = eid (root_of d) ->
    ~ In d (find_unused_declarations g).
Proof.
  intros g r d Hr E Hin. unfold find_unused_declarations in Hin.
  apply in_unused_inv in Hin. destruct Hin as [_ [Hm [Hf _]]].
  pose proof (referenced_root_mem g r (root_of d) Hr E) as Hmem.
  unfold declared_by_filter in Hf. unfold root_of in Hmem.
  destruct (erelated d) as [o| |].
  - rewrite Hmem in Hf. discriminate Hf.
  - rewrite Hmem in Hm. discriminate Hm.
  - rewrite Hmem in Hm. discriminate Hm.
Qed.

Lemma pair_rule_explicit :
  forall g h b, erelated b = DeclaredBy h -> erelated h = RelNone ->
    referenced_in (group_events g) h \/ referenced_in (group_events g) b ->
    ~ In h (find_unused_declarations g) /\ ~ In b (find_unused_declarations g).
Proof.
  intros g h b Hb Hh Hr.
  assert (Rh : root_of h = h) by (unfold root_of; rewrite Hh; reflexivity).
  assert (Rb : root_of b = h) by (unfold root_of; rewrite Hb; reflexivity).
  destruct Hr as [Hr|Hr]; split; apply (pair_rule g _ _ Hr); rewrite ?Rh, ?Rb; reflexivity.
Qed.

(* ------------------------------------------------------------------------- *)
(* 6. Exactness of find_unused_declarations                                   *)
(* ------------------------------------------------------------------------- *)

Lemma universe_in : forall evs e, In e (flat_map ev_ents evs) -> In e (universe evs).
Proof.
  intros evs e H. unfold universe. apply in_flat_map. exists e. split; [exact H|].
  unfold with_related. destruct (erelated e); left; reflexivity.
Qed.

Lemma universe_related : forall evs e o,
  In e (flat_map ev_ents evs) -> erelated e = DeclaredBy o -> In o (universe evs).
Proof.
  intros evs e o H E. unfold universe. apply in_flat_map. exists e. split; [exact H|].
  unfold with_related. rewrite E. right. left. reflexivity.
Qed.

Lemma decl_ev_ent : forall evs e, In (EvDecl (Some e)) evs -> In e (flat_map ev_ents evs).
Proof.
  intros evs e H. apply in_flat_map. exists (EvDecl (Some e)). split; [exact H|]. left. reflexivity.
Qed.

Lemma ref_ev_ent : forall evs e, In (EvRef (Some e)) evs -> In e (flat_map ev_ents evs).
Proof.
  intros evs e H. apply in_flat_map. exists (EvRef (Some e)). split; [exact H|]. left. reflexivity.
Qed.

Lemma wf_root_of_target : forall evs a o,
  wf_depth evs -> In a (universe evs) -> erelated a = DeclaredBy o -> root_of o = o.
Proof.
  intros evs a o Hd Ha E. specialize (Hd a o Ha E). unfold root_of.
  destruct (erelated o); [destruct Hd|reflexivity|reflexivity].
Qed.

Lemma unused_exact :
  forall g, wf_events (group_events g) ->
    (forall d, In d (find_unused_declarations g) <-> unused_spec (group_events g) d)
    /\ NoDup (map eid (find_unused_declarations g)).
Proof.
  intros g [Hids Hdepth]. set (evs := group_events g) in *. split.
  - intros d. split.
    + intros Hin. pose proof Hin as Hin'.
      unfold find_unused_declarations in Hin'. apply in_unused_inv in Hin'.
      destruct Hin' as [Hd [_ [_ Hc]]]. split; [|split].
      * apply run_decls_in. exact Hd.
      * apply can_be_locally_unused_iff. exact Hc.
      * intros [r [Hr E]]. exact (pair_rule g r d Hr E Hin).
    + intros [Hdecl [Hel Hnu]]. unfold declared_in in Hdecl.
      assert (Ud : In d (universe evs)) by (apply universe_in, decl_ev_ent; exact Hdecl).
      unfold find_unused_declarations. apply in_unused_inv. split; [|split; [|split]].
      * assert (Hm : set_mem d (declarations (run_searcher g)) = true).
        { apply run_decls_mem. exists d. split; [exact Hdecl|reflexivity]. }
        apply set_mem_iff in Hm. destruct Hm as [x' [Hx' Ex']].
        assert (Ux : In x' (universe evs)).
        { apply universe_in, decl_ev_ent. apply run_decls_in. exact Hx'. }
        rewrite <- (Hids x' d Ux Ud Ex'). exact Hx'.
      * destruct (set_mem d (references (run_searcher g))) eqn:Hm; [|reflexivity].
        exfalso. apply Hnu. apply run_refs in Hm. destruct Hm as [r [Hr [E|[o [Er E]]]]].
        -- exists r. split; [exact Hr|].
           assert (Ur : In r (universe evs)) by (apply universe_in, ref_ev_ent; exact Hr).
           rewrite (Hids r d Ur Ud E). reflexivity.
        -- exists r. split; [exact Hr|].
           assert (Uo : In o (universe evs)).
           { apply (universe_related evs r o); [apply ref_ev_ent; exact Hr|exact Er]. }
           assert (Ur : In r (universe evs)) by (apply universe_in, ref_ev_ent; exact Hr).
           pose proof (Hids o d Uo Ud E) as Eo. subst o.
           rewrite (wf_root_of_target evs r d Hdepth Ur Er).
           unfold root_of. rewrite Er. reflexivity.
      * unfold declared_by_filter. destruct (erelated d) as [od| |] eqn:Ed; [|reflexivity|reflexivity].
        destruct (set_mem od (references (run_searcher g))) eqn:Hm; [|reflexivity].
        exfalso. apply Hnu. apply run_refs in Hm.
        assert (Rd : root_of d = od) by (unfold root_of; rewrite Ed; reflexivity).
        assert (Uod : In od (universe evs)).
        { apply (universe_related evs d od); [apply decl_ev_ent; exact Hdecl|exact Ed]. }
        destruct Hm as [r [Hr [E|[o [Er E]]]]].
        -- exists r. split; [exact Hr|].
           assert (Ur : In r (universe evs)) by (apply universe_in, ref_ev_ent; exact Hr).
           pose proof (Hids r od Ur Uod E) as Eo. subst r.
           rewrite (wf_root_of_target evs d od Hdepth Ud Ed). rewrite Rd. reflexivity.
        -- exists r. split; [exact Hr|]. rewrite Rd. unfold root_of. rewrite Er. exact E.
      * apply can_be_locally_unused_iff. exact Hel.
  - unfold find_unused_declarations, unused_of_searcher.
    repeat apply nodup_map_filter. apply run_decls_nodup.
Qed.

(* ------------------------------------------------------------------------- *)
(* 7. emit                                                                    *)
(* ------------------------------------------------------------------------- *)

Lemma emit_exact :
  forall cfg c dg, In dg (emit cfg c) <->
    exists k ds, In (k, ds) c /\ cfg (fst k) = Some false /\ In dg ds.
Proof.
  intros cfg c dg. unfold emit. rewrite in_flat_map. split.
  - intros [[k ds] [Hin H]]. cbn [fst snd] in H.
    destruct (cfg (fst k)) as [[|]|] eqn:E; try (destruct H; fail).
    exists k, ds. repeat split; assumption.
  - intros [k [ds [Hin [E H]]]]. exists (k, ds). split; [exact Hin|].
    cbn [fst snd]. rewrite E. exact H.
Qed.

Lemma lint_fst : forall c rt cfg an,
  fst (lint c rt cfg an) =
  fold_left (lint_insert rt) an
    (filter (fun kv => primary_exists rt (fst kv))
       (fold_left (fun c k => cache_remove k c) an c)).
Proof. reflexivity. Qed.

Lemma lint_snd : forall c rt cfg an,
  snd (lint c rt cfg an) = emit cfg (fst (lint c rt cfg an)).
Proof. reflexivity. Qed.

Lemma third_party_silent :
  forall c rt cfg an dg, In dg (snd (lint c rt cfg an)) ->
    exists k ds, In (k, ds) (fst (lint c rt cfg an)) /\ cfg (fst k) = Some false /\ In dg ds.
Proof.
  intros c rt cfg an dg H. rewrite lint_snd in H. apply emit_exact. exact H.
Qed.

Lemma all_third_party_silent :
  forall c rt cfg an, (forall l, cfg l <> Some false) -> snd (lint c rt cfg an) = [].
Proof.
  intros c rt cfg an H. destruct (snd (lint c rt cfg an)) as [|dg l] eqn:E; [reflexivity|].
  exfalso. assert (Hin : In dg (snd (lint c rt cfg an))) by (rewrite E; left; reflexivity).
  apply third_party_silent in Hin. destruct Hin as [k [ds [_ [Hc _]]]]. exact (H (fst k) Hc).
Qed.

(* ------------------------------------------------------------------------- *)
(* 8. The cache                                                               *)
(* ------------------------------------------------------------------------- *)

Lemma key_eqb_eq : forall a b : key, key_eqb a b = true <-> a = b.
Proof.
  intros [a1 a2] [b1 b2]. unfold key_eqb. cbn [fst snd].
  rewrite andb_true_iff, !N.eqb_eq. split.
  - intros [H1 H2]. subst. reflexivity.
  - intros H. injection H as H1 H2. split; assumption.
Qed.

Lemma key_eqb_refl : forall a : key, key_eqb a a = true.
Proof. intros a. apply key_eqb_eq. reflexivity. Qed.

Lemma key_eqb_neq : forall a b : key, key_eqb a b = false <-> a <> b.
Proof.
  intros a b. split.
  - intros H E. apply key_eqb_eq in E. rewrite E in H. discriminate H.
  - intros H. destruct (key_eqb a b) eqn:E; [|reflexivity]. apply key_eqb_eq in E. contradiction.
Qed.

Lemma key_eq_dec : forall a b : key, {a = b} + {a <> b}.
Proof.
  intros a b. destruct (key_eqb a b) eqn:E.
  - left. apply key_eqb_eq. exact E.
  - right. apply key_eqb_neq. exact E.
Qed.

Lemma cache_mem_iff : forall k (c : cache), cache_mem k c = true <-> exists ds, In (k, ds) c.
Proof.
  intros k c. induction c as [|[k' v] c IH]; cbn [cache_mem In].
  - split; [intros H; discriminate H | intros [ds []]].
  - destruct (key_eqb k k') eqn:E.
    + apply key_eqb_eq in E. subst k'. split; [|reflexivity]. intros _. exists v. left. reflexivity.
    + apply key_eqb_neq in E. rewrite IH. split.
      * intros [ds H]. exists ds. right. exact H.
      * intros [ds [H|H]].
        -- injection H as H1 H2. exfalso. apply E. symmetry. exact H1.
        -- exists ds. exact H.
Qed.

Lemma cache_mem_in_map : forall k (c : cache), cache_mem k c = true <-> In k (map fst c).
Proof.
  intros k c. rewrite cache_mem_iff, in_map_iff. split.
  - intros [ds H]. exists (k, ds). split; [reflexivity|exact H].
  - intros [[k' ds] [E H]]. cbn [fst] in E. subst k'. exists ds. exact H.
Qed.

Lemma cache_remove_filter : forall k c,
  cache_remove k c = filter (fun kv => negb (key_eqb k (fst kv))) c.
Proof.
  intros k c. induction c as [|[k' v] c IH]; cbn [cache_remove filter fst].
  - reflexivity.
  - destruct (key_eqb k k'); cbn [negb]; rewrite IH; reflexivity.
Qed.

Lemma in_cache_remove : forall k k' v c,
  In (k', v) (cache_remove k c) <-> In (k', v) c /\ k' <> k.
Proof.
  intros k k' v c. rewrite cache_remove_filter, filter_In. cbn [fst].
  rewrite negb_true_iff, key_eqb_neq. split; intros [H1 H2]; split; auto.
Qed.

Lemma nodup_cache_remove : forall k (c : cache),
  NoDup (map fst c) -> NoDup (map fst (cache_remove k c)).
Proof. intros k c H. rewrite cache_remove_filter. apply nodup_map_filter. exact H. Qed.

Lemma in_remove_all : forall an k v (c : cache),
  In (k, v) (fold_left (fun c k => cache_remove k c) an c) <-> In (k, v) c /\ ~ In k an.
Proof.
  induction an as [|a an IH]; intros k v c; cbn [fold_left In].
  - tauto.
  - rewrite IH, in_cache_remove. split.
    + intros [[H1 H2] H3]. split; [exact H1|]. intros [E|E]; [apply H2; symmetry; exact E|exact (H3 E)].
    + intros [H1 H2]. split; [split; [exact H1|]|].
      * intros E. apply H2. left. symmetry. exact E.
      * intros E. apply H2. right. exact E.
Qed.

Lemma nodup_remove_all : forall an (c : cache),
  NoDup (map fst c) -> NoDup (map fst (fold_left (fun c k => cache_remove k c) an c)).
Proof.
  induction an as [|a an IH]; intros c H; cbn [fold_left].
  - exact H.
  - apply IH. apply nodup_cache_remove. exact H.
Qed.

Definition fresh (rt : design_root) (k : key) : list diag :=
  diags_of (find_unused_declarations (group_of rt k)).

Lemma in_lint_insert : forall rt c k k' v,
  In (k', v) (lint_insert rt c k) <->
  In (k', v) c \/ (k' = k /\ cache_mem k c = false /\ rt (fst k) <> None /\ v = fresh rt k).
Proof.
  intros rt c k k' v. unfold lint_insert, fresh, group_of.
  destruct (rt (fst k)) as [l|] eqn:El.
  - destruct (cache_mem k c) eqn:Em.
    + split; [intros H; left; exact H|]. intros [H|[_ [H _]]]; [exact H|discriminate H].
    + rewrite in_app_iff. cbn [In]. split.
      * intros [H|[H|[]]]; [left; exact H|]. injection H as H1 H2. right.
        split; [symmetry; exact H1|]. split; [reflexivity|]. split; [discriminate|].
        symmetry. exact H2.
      * intros [H|[H1 [_ [_ H2]]]]; [left; exact H|]. right. left. subst k' v. reflexivity.
  - split; [intros H; left; exact H|]. intros [H|[_ [_ [H _]]]]; [exact H|]. exfalso. apply H. reflexivity.
Qed.

Lemma nodup_lint_insert : forall rt (c : cache) k,
  NoDup (map fst c) -> NoDup (map fst (lint_insert rt c k)).
Proof.
  intros rt c k H. unfold lint_insert. destruct (rt (fst k)) as [l|]; [|exact H].
  destruct (cache_mem k c) eqn:Em; [exact H|].
  rewrite map_app. cbn [map fst].
  assert (Hn : ~ In k (map fst c)).
  { intros Hi. apply cache_mem_in_map in Hi. rewrite Hi in Em. discriminate Em. }
  clear Em. induction (map fst c) as [|a l' IH]; cbn [app].
  - constructor; [intros []|constructor].
  - inversion H as [|a' l'' Ha Hl]; subst a' l''. constructor.
    + rewrite in_app_iff. cbn [In]. intros [Hi|[Hi|[]]].
      * exact (Ha Hi).
      * apply Hn. left. symmetry. exact Hi.
    + apply IH; [exact Hl|]. intros Hi. apply Hn. right. exact Hi.
Qed.

Lemma cache_mem_lint_insert : forall rt c k k',
  cache_mem k' (lint_insert rt c k) = true <->
  cache_mem k' c = true \/ (k' = k /\ rt (fst k) <> None).
Proof.
  intros rt c k k'. rewrite !cache_mem_iff. split.
  - intros [ds H]. apply in_lint_insert in H. destruct H as [H|[H1 [_ [H2 _]]]].
    + left. exists ds. exact H.
    + right. split; assumption.
  - intros [[ds H]|[H1 H2]].
    + exists ds. apply in_lint_insert. left. exact H.
    + subst k'. destruct (cache_mem k c) eqn:Em.
      * apply cache_mem_iff in Em. destruct Em as [ds H]. exists ds. apply in_lint_insert. left. exact H.
      * exists (fresh rt k). apply in_lint_insert. right. repeat split; assumption.
Qed.

Lemma in_insert_all : forall rt an (c : cache) k v,
  In (k, v) (fold_left (lint_insert rt) an c) ->
  In (k, v) c \/ (In k an /\ rt (fst k) <> None /\ v = fresh rt k).
Proof.
  intros rt. induction an as [|a an IH]; intros c k v H; cbn [fold_left In] in *.
  - left. exact H.
  - apply IH in H. destruct H as [H|[H1 H2]].
    + apply in_lint_insert in H. destruct H as [H|[H1 [_ [H2 H3]]]].
      * left. exact H.
      * subst a. right. split; [left; reflexivity|]. split; assumption.
    + right. split; [right; exact H1|exact H2].
Qed.

Lemma nodup_insert_all : forall rt an (c : cache),
  NoDup (map fst c) -> NoDup (map fst (fold_left (lint_insert rt) an c)).
Proof.
  intros rt. induction an as [|a an IH]; intros c H; cbn [fold_left].
  - exact H.
  - apply IH. apply nodup_lint_insert. exact H.
Qed.

Lemma cache_mem_insert_all : forall rt an (c : cache) k,
  cache_mem k (fold_left (lint_insert rt) an c) = true <->
  cache_mem k c = true \/ (In k an /\ rt (fst k) <> None).
Proof.
  intros rt. induction an as [|a an IH]; intros c k; cbn [fold_left In].
  - tauto.
  - rewrite IH, cache_mem_lint_insert. split.
    + intros [[H|[H1 H2]]|[H1 H2]].
      * left. exact H.
      * right. split; [left; symmetry; exact H1|]. subst a. exact H2.
      * right. split; [right; exact H1|exact H2].
    + intros [H|[[H1|H1] H2]].
      * left. left. exact H.
      * left. right. subst a. split; [reflexivity|exact H2].
      * right. split; assumption.
Qed.

Lemma lint_step :
  forall c rt_old rt cfg an,
    cache_ok c rt_old -> analyzed_covers rt_old rt an ->
    let c' := fst (lint c rt cfg an) in
    let out := snd (lint c rt cfg an) in
    cache_ok c' rt
    /\ (forall k, cache_mem k c' = true <->
                  (In k an /\ rt (fst k) <> None)
                  \/ (cache_mem k c = true /\ ~ In k an /\ primary_exists rt k = true))
    /\ (forall dg, In dg out <->
          exists k, cache_mem k c' = true /\ cfg (fst k) = Some false
                    /\ In dg (diags_of (find_unused_declarations (group_of rt k)))).
Proof.
  intros c rt_old rt cfg an [Hnd Hent] Hcov c' out.
  assert (Hok : cache_ok c' rt).
  { unfold c'. rewrite lint_fst. split.
    - apply nodup_insert_all. apply nodup_map_filter. apply nodup_remove_all. exact Hnd.
    - intros k ds Hin. apply in_insert_all in Hin. destruct Hin as [Hin|[_ [_ Hin]]].
      + apply filter_In in Hin. destruct Hin as [Hin _]. apply in_remove_all in Hin.
        destruct Hin as [Hin Hna]. rewrite (Hent k ds Hin). rewrite (Hcov k Hna). reflexivity.
      + exact Hin. }
  split; [exact Hok|]. split.
  - intros k. unfold c'. rewrite lint_fst, cache_mem_insert_all.
    assert (Hmid : cache_mem k (filter (fun kv => primary_exists rt (fst kv))
                      (fold_left (fun c k => cache_remove k c) an c)) = true <->
                   cache_mem k c = true /\ ~ In k an /\ primary_exists rt k = true).
    { rewrite !cache_mem_iff. split.
      - intros [ds H]. apply filter_In in H. cbn [fst] in H. destruct H as [H Hp].
        apply in_remove_all in H. destruct H as [H Hna]. split; [exists ds; exact H|]. split; assumption.
      - intros [[ds H] [Hna Hp]]. exists ds. apply filter_In. cbn [fst]. split; [|exact Hp].
        apply in_remove_all. split; assumption. }
    rewrite Hmid. tauto.
  - intros dg. unfold out. rewrite lint_snd. fold c'. rewrite emit_exact. split.
    + intros [k [ds [Hin [Hc Hd]]]]. exists k. split; [apply cache_mem_iff; exists ds; exact Hin|].
      split; [exact Hc|]. destruct Hok as [_ Hok]. rewrite <- (Hok k ds Hin). exact Hd.
    + intros [k [Hm [Hc Hd]]]. apply cache_mem_iff in Hm. destruct Hm as [ds Hin].
      exists k, ds. split; [exact Hin|]. split; [exact Hc|].
      destruct Hok as [_ Hok]. rewrite (Hok k ds Hin). exact Hd.
Qed.

(* ------------------------------------------------------------------------- *)
(* 9. Histories                                                               *)
(* ------------------------------------------------------------------------- *)

Lemma lint_history_cons : forall c rt cfg an r,
  lint_history c ((rt, cfg, an) :: r) =
  snd (lint c rt cfg an) :: lint_history (fst (lint c rt cfg an)) r.
Proof. reflexivity. Qed.

Lemma primary_exists_group : forall rt k,
  primary_exists rt k = match primary (group_of rt k) with Some _ => true | None => false end.
Proof.
  intros rt k. unfold primary_exists, group_of. destruct (rt (fst k)) as [l|]; reflexivity.
Qed.

Lemma in_diags_of : forall dg l,
  In dg (diags_of l) <-> exists d p, In d l /\ edecl_pos d = Some p /\ dg = (p, eid d).
Proof.
  intros dg l. unfold diags_of. rewrite in_flat_map. split.
  - intros [d [Hd H]]. destruct (edecl_pos d) as [p|] eqn:E; [|destruct H].
    destruct H as [H|[]]. exists d, p. split; [exact Hd|]. split; [exact E|]. symmetry. exact H.
  - intros [d [p [Hd [E H]]]]. exists d. split; [exact Hd|]. rewrite E. left. symmetry. exact H.
Qed.

Definition inv (c : cache) (rt : design_root) : Prop :=
  cache_ok c rt /\ forall k, cache_mem k c = true <-> primary_exists rt k = true.

Lemma inv_empty : inv [] empty_root.
Proof.
  split.
  - split; [constructor|]. intros k ds [].
  - intros k. cbn. split; intros H; discriminate H.
Qed.

Lemma inv_step : forall c rt_old rt cfg an,
  inv c rt_old -> analyzed_covers rt_old rt an -> no_orphans rt an ->
  inv (fst (lint c rt cfg an)) rt.
Proof.
  intros c rt_old rt cfg an [Hok Hkeys] Hcov Hno.
  destruct (lint_step c rt_old rt cfg an Hok Hcov) as [Hok' [Hmem _]].
  split; [exact Hok'|]. intros k. rewrite Hmem. split.
  - intros [[Hin Hl]|[_ [_ Hp]]]; [apply Hno; assumption|exact Hp].
  - intros Hp. destruct (in_dec key_eq_dec k an) as [Hin|Hna].
    + left. split; [exact Hin|]. unfold primary_exists in Hp.
      destruct (rt (fst k)); [discriminate|discriminate Hp].
    + right. split; [|split; assumption]. apply Hkeys.
      rewrite primary_exists_group, (Hcov k Hna), <- primary_exists_group. exact Hp.
Qed.

Lemma step_output : forall c rt_old rt cfg an,
  inv c rt_old -> analyzed_covers rt_old rt an -> no_orphans rt an -> root_wf rt ->
  forall dg, In dg (snd (lint c rt cfg an)) <-> spec_output rt cfg dg.
Proof.
  intros c rt_old rt cfg an Hinv Hcov Hno Hwf dg.
  pose proof (inv_step c rt_old rt cfg an Hinv Hcov Hno) as [_ Hkeys].
  destruct Hinv as [Hok _].
  destruct (lint_step c rt_old rt cfg an Hok Hcov) as [_ [_ Hout]].
  rewrite Hout. unfold spec_output. split.
  - intros [k [Hm [Hc Hd]]]. apply in_diags_of in Hd. destruct Hd as [d [p [Hd [Ep E]]]].
    exists k, d, p. split; [apply Hkeys; exact Hm|]. split; [exact Hc|].
    split; [|split; assumption].
    apply (proj1 (unused_exact (group_of rt k) (Hwf k))). exact Hd.
  - intros [k [d [p [Hp [Hc [Hu [Ep E]]]]]]]. exists k. split; [apply Hkeys; exact Hp|].
    split; [exact Hc|]. apply in_diags_of. exists d, p. split; [|split; assumption].
    apply (proj1 (unused_exact (group_of rt k) (Hwf k))). exact Hu.
Qed.

Lemma history_exact_gen : forall steps rt_prev c,
  inv c rt_prev -> history_ok rt_prev steps -> history_wf steps ->
  Forall2 (fun out step => forall dg, In dg out <-> spec_output (fst (fst step)) (snd (fst step)) dg)
          (lint_history c steps) steps.
Proof.
  induction steps as [|[[rt cfg] an] steps IH]; intros rt_prev c Hinv Hok Hwf.
  - constructor.
  - rewrite lint_history_cons. cbn [history_ok] in Hok. destruct Hok as [Hcov [Hno Hok]].
    unfold history_wf in Hwf. inversion Hwf as [|st sts Hw Hws]; subst st sts. cbn [fst] in Hw.
    constructor.
    + cbn [fst snd]. apply (step_output c rt_prev rt cfg an); assumption.
    + apply (IH rt).
      * apply (inv_step c rt_prev rt cfg an); assumption.
      * exact Hok.
      * exact Hws.
Qed.

Lemma history_exact :
  forall steps, history_ok empty_root steps -> history_wf steps ->
    Forall2 (fun out step => forall dg, In dg out <-> spec_output (fst (fst step)) (snd (fst step)) dg)
            (lint_history [] steps) steps.
Proof.
  intros steps Hok Hwf. apply (history_exact_gen steps empty_root []); [exact inv_empty|exact Hok|exact Hwf].
Qed.

(* ------------------------------------------------------------------------- *)
(* 10. Examples, refuted mutations                                            *)
(* ------------------------------------------------------------------------- *)

Lemma example_wf : wf_events (group_events example_group).
Proof. apply wf_events_b_sound. vm_compute. reflexivity. Qed.

Lemma example_nobody_wf :
  wf_events (group_events {| primary := Some example_primary; secondaries := [] |}).
Proof. apply wf_events_b_sound. vm_compute. reflexivity. Qed.

Lemma empty_wf : wf_events (group_events {| primary := None; secondaries := [] |}).
Proof. apply wf_events_b_sound. vm_compute. reflexivity. Qed.

Lemma nofilter_refuted :
  exists g d, wf_events (group_events g)
              /\ In d (unused_of_searcher_nofilter (run_searcher g))
              /\ ~ unused_spec (group_events g) d.
Proof.
  exists example_group, ex_priv_b. split; [exact example_wf|]. split.
  - vm_compute. repeat first [left; reflexivity | right].
  - intros [_ [_ Hnu]]. apply Hnu. exists ex_priv. split.
    + unfold referenced_in. vm_compute. repeat first [left; reflexivity | right].
    + reflexivity.
Qed.

Lemma emit_nofilter_refuted :
  exists c cfg dg, (forall l, cfg l <> Some false) /\ In dg (emit_nofilter c) /\ ~ In dg (emit cfg c).
Proof.
  exists [((2, 100), [(14, 14)])], (fun _ => Some true), (14, 14). split; [|split].
  - intros l H. discriminate H.
  - cbn. left. reflexivity.
  - cbn. intros [].
Qed.

Lemma ex_root1_group : forall a b,
  group_of ex_root1 (a, b) =
  if ((a =? 1) || (a =? 2)) && (b =? 100) then example_group else empty_group.
Proof.
  intros a b. unfold group_of, ex_root1. cbn [fst snd].
  destruct (a =? 1); [|destruct (a =? 2)]; cbn [orb andb];
    unfold lib_group, ex_lib_full; cbn [lib_primary lib_secondaries];
    destruct (b =? 100); reflexivity.
Qed.

Lemma ex_root2_group : forall a b,
  group_of ex_root2 (a, b) =
  if (a =? 1) && (b =? 100) then {| primary := Some example_primary; secondaries := [] |}
  else if (a =? 2) && (b =? 100) then example_group else empty_group.
Proof.
  intros a b. unfold group_of, ex_root2. cbn [fst snd].
  destruct (a =? 1); destruct (a =? 2); cbn [orb andb];
    unfold lib_group, ex_lib_full, ex_lib_nobody; cbn [lib_primary lib_secondaries];
    destruct (b =? 100); reflexivity.
Qed.

Lemma ex_root1_wf : root_wf ex_root1.
Proof.
  intros [a b]. rewrite ex_root1_group.
  destruct (((a =? 1) || (a =? 2)) && (b =? 100)); [exact example_wf|exact empty_wf].
Qed.

Lemma ex_root2_wf : root_wf ex_root2.
Proof.
  intros [a b]. rewrite ex_root2_group.
  destruct ((a =? 1) && (b =? 100)); [exact example_nobody_wf|].
  destruct ((a =? 2) && (b =? 100)); [exact example_wf|exact empty_wf].
Qed.

Lemma ex_covers1 : analyzed_covers empty_root ex_root1 [(1, 100); (1, 100); (2, 100)].
Proof.
  intros [a b] Hn. rewrite ex_root1_group.
  destruct (a =? 1) eqn:E1; [|destruct (a =? 2) eqn:E2]; cbn [orb andb];
    try reflexivity; destruct (b =? 100) eqn:Eb; try reflexivity; exfalso; apply Hn;
    apply N.eqb_eq in Eb; subst b.
  - apply N.eqb_eq in E1. subst a. left. reflexivity.
  - apply N.eqb_eq in E2. subst a. right. right. left. reflexivity.
Qed.

Lemma ex_covers2 : analyzed_covers ex_root1 ex_root2 [(1, 100)].
Proof.
  intros [a b] Hn. rewrite ex_root1_group, ex_root2_group.
  destruct (a =? 1) eqn:E1; destruct (a =? 2) eqn:E2; cbn [orb andb];
    destruct (b =? 100) eqn:Eb; try reflexivity;
    exfalso; apply Hn; apply N.eqb_eq in Eb; apply N.eqb_eq in E1; subst a b; left; reflexivity.
Qed.

Definition ex_cache1 : cache := fst (lint [] ex_root1 ex_cfg [(1, 100); (1, 100); (2, 100)]).

Lemma ex_cache1_ok : cache_ok ex_cache1 ex_root1.
Proof.
  assert (H0 : cache_ok [] empty_root) by exact (proj1 inv_empty).
  exact (proj1 (lint_step [] empty_root ex_root1 ex_cfg _ H0 ex_covers1)).
Qed.

Lemma stale_cache_refuted :
  exists c rt_old rt cfg an dg,
    cache_ok c rt_old /\ ~ analyzed_covers rt_old rt an
    /\ In dg (snd (lint c rt cfg an))
    /\ ~ spec_output rt cfg dg.
Proof.
  exists ex_cache1, ex_root1, ex_root2, ex_cfg, [], (14, 14).
  split; [exact ex_cache1_ok|]. split; [|split].
  - intros H. assert (Hn : ~ In (1, 100) (@nil key)) by (intros []).
    specialize (H (1, 100) Hn). apply (f_equal secondaries) in H.
    vm_compute in H. discriminate H.
  - vm_compute. repeat first [left; reflexivity | right].
  - intros [[a b] [d [p [Hp [Hc [[Hdecl _] [Ep E]]]]]]].
    unfold ex_cfg in Hc. cbn [fst] in Hc.
    rewrite primary_exists_group in Hp. rewrite ex_root2_group in Hp, Hdecl.
    destruct (a =? 1) eqn:E1.
    + destruct (b =? 100) eqn:Eb; cbn [andb] in Hp, Hdecl.
      * unfold declared_in in Hdecl. vm_compute in Hdecl.
        destruct Hdecl as [Hd|[Hd|[]]]; injection Hd as Hd; subst d;
          cbn [eid] in E; injection E as _ E; discriminate E.
      * rewrite andb_false_r in Hp. cbn in Hp. discriminate Hp.
    + destruct (a =? 2); discriminate Hc.
Qed.

Lemma hyps_satisfiable :
  wf_events (group_events example_group)
  /\ map eid (find_unused_declarations example_group) = example_unused_ids
  /\ example_unused_ids <> []
  /\ (exists d, declared_in (group_events example_group) d /\ eligible d /\ used (group_events example_group) d)
  /\ (exists d, declared_in (group_events example_group) d /\ ~ eligible d /\ ~ used (group_events example_group) d).
Proof.
  split; [exact example_wf|]. split; [vm_compute; reflexivity|]. split; [discriminate|]. split.
  - exists ex_c_used. split; [|split].
    + unfold declared_in. vm_compute. repeat first [left; reflexivity | right].
    + apply can_be_locally_unused_iff. vm_compute. reflexivity.
    + exists ex_c_used. split; [|reflexivity].
      unfold referenced_in. vm_compute. repeat first [left; reflexivity | right].
  - exists ex_x. split; [|split].
    + unfold declared_in. vm_compute. repeat first [left; reflexivity | right].
    + intros H. apply can_be_locally_unused_iff in H. vm_compute in H. discriminate H.
    + intros [r [Hr E]]. unfold referenced_in in Hr. vm_compute in Hr.
      repeat (destruct Hr as [Hr|Hr];
              [try discriminate Hr; injection Hr as Hr; subst r; vm_compute in E; discriminate E|]).
      destruct Hr.
Qed.

Lemma history_satisfiable :
  history_ok empty_root example_history /\ history_wf example_history
  /\ lint_history [] example_history = example_history_output
  /\ exists out, In out example_history_output /\ out <> [].
Proof.
  split; [|split; [|split]].
  - cbn [history_ok example_history]. split; [exact ex_covers1|]. split.
    + intros k Hin _. cbn [In] in Hin.
      destruct Hin as [Hk|[Hk|[Hk|[]]]]; subst k; vm_compute; reflexivity.
    + split; [exact ex_covers2|]. split; [|exact I].
      intros k Hin _. cbn [In] in Hin. destruct Hin as [Hk|[]]. subst k. vm_compute. reflexivity.
  - unfold history_wf, example_history. constructor; [exact ex_root1_wf|].
    constructor; [exact ex_root2_wf|constructor].
  - vm_compute. reflexivity.
  - exists [(12, 12); (13, 13); (23, 23); (14, 14); (24, 24); (16, 16)]. split.
    + left. reflexivity.
    + discriminate.
Qed.

(* ------------------------------------------------------------------------------------------ *)
(* name-only pruning refuted; Config::append                                                    *)
(* ------------------------------------------------------------------------------------------ *)
Lemma nameonly_pruning_refuted :
  exists c rt cfg an dg,
    cache_ok c rt /\ analyzed_covers rt rt an
    /\ In dg (snd (lint c rt cfg an)) /\ spec_output rt cfg dg
    /\ ~ In dg (snd (lint_nameonly c rt cfg an)).
Proof.
  exists (fst (lint [] ex_root_twin ex_cfg_twin [(1, 100); (3, 100)])).
  exists ex_root_twin, ex_cfg_twin, [(1, 100)], (514, 514).
  split; [|split; [|split; [|split]]].
  - split.
    + vm_compute. repeat constructor; cbn; intuition discriminate.
    + intros k ds Hin. vm_compute in Hin.
      destruct Hin as [H|[H|[]]]; injection H as Hk Hds; subst k ds; vm_compute; reflexivity.
  - intros k _. reflexivity.
  - vm_compute. repeat first [left; reflexivity | right].
  - exists (3, 100), ex_o_c, 514.
    split; [vm_compute; reflexivity|]. split; [vm_compute; reflexivity|].
    split; [|split; reflexivity].
    assert (W : wf_events (group_events (group_of ex_root_twin (3, 100)))).
    { apply wf_events_b_sound. vm_compute. reflexivity. }
    destruct (unused_exact (group_of ex_root_twin (3, 100)) W) as [HU _].
    apply (proj1 (HU ex_o_c)).
    vm_compute. repeat first [left; reflexivity | right].
  - vm_compute. intros H.
    repeat (destruct H as [H|H]; [discriminate H|]). exact H.
Qed.

Lemma cm_get_set : forall m l v l',
  cm_get (cm_set m l v) l' = if l =? l' then Some v else cm_get m l'.
Proof.
  induction m as [|[k x] r IH]; intros l v l'.
  - cbn [cm_set cm_get]. reflexivity.
  - cbn [cm_set]. destruct (k =? l) eqn:E.
    + apply N.eqb_eq in E. subst k. cbn [cm_get]. destruct (l =? l'); reflexivity.
    + cbn [cm_get]. destruct (k =? l') eqn:E2.
      * apply N.eqb_eq in E2. subst l'. rewrite N.eqb_sym in E. rewrite E. reflexivity.
      * apply IH.
Qed.

Lemma cm_get_notin : forall m l, ~ In l (map fst m) -> cm_get m l = None.
Proof.
  induction m as [|[k x] r IH]; intros l H; [reflexivity|].
  cbn [cm_get]. destruct (k =? l) eqn:E.
  - apply N.eqb_eq in E. subst k. exfalso. apply H. left. reflexivity.
  - apply IH. intros Hin. apply H. right. exact Hin.
Qed.

Lemma config_append_last_wins : forall other self l,
  NoDup (map fst other) ->
  cm_get (config_append self other) l =
    match cm_get other l with Some v => Some v | None => cm_get self l end.
Proof.
  unfold config_append.
  induction other as [|[k v] r IH]; intros self l ND; [reflexivity|].
  cbn [fold_left fst snd map] in *. inversion ND as [|? ? Hnot ND']; subst.
  rewrite (IH _ l ND'). cbn [cm_get]. rewrite cm_get_set.
  destruct (k =? l) eqn:E.
  - apply N.eqb_eq in E. subst k. rewrite (cm_get_notin r l Hnot). reflexivity.
  - reflexivity.
Qed.

Lemma config_append_keepflag_refuted :
  exists self other l,
    NoDup (map fst other) /\
    cm_get (config_append_keepflag self other) l <>
      match cm_get other l with Some v => Some v | None => cm_get self l end.
Proof.
  exists [(1, true)], [(1, false)], 1. split.
  - repeat constructor. cbn. tauto.
  - vm_compute. discriminate.
Qed.

(* ------------------------------------------------------------------------------------------ *)
(* a round that re-analyses nothing must still emit the cache                                    *)
(* ------------------------------------------------------------------------------------------ *)
Lemma noop_round_exact : forall c rt cfg,
  snd (lint c rt cfg []) = emit cfg (filter (fun kv => primary_exists rt (fst kv)) c).
Proof. intros. reflexivity. Qed.

Lemma skip_empty_refuted :
  exists c rt cfg dg,
    cache_ok c rt /\ analyzed_covers rt rt []
    /\ In dg (snd (lint c rt cfg [])) /\ spec_output rt cfg dg
    /\ ~ In dg (snd (lint_skip_empty c rt cfg [])).
Proof.
  exists (fst (lint [] ex_root_twin ex_cfg_twin [(1, 100); (3, 100)])).
  exists ex_root_twin, ex_cfg_twin, (514, 514).
  split; [|split; [|split; [|split]]].
  - split.
    + vm_compute. repeat constructor; cbn; intuition discriminate.
    + intros k ds Hin. vm_compute in Hin.
      destruct Hin as [H|[H|[]]]; injection H as Hk Hds; subst k ds; vm_compute; reflexivity.
  - intros k _. reflexivity.
  - vm_compute. repeat first [left; reflexivity | right].
  - exists (3, 100), ex_o_c, 514.
    split; [vm_compute; reflexivity|]. split; [vm_compute; reflexivity|].
    split; [|split; reflexivity].
    assert (W : wf_events (group_events (group_of ex_root_twin (3, 100)))).
    { apply wf_events_b_sound. vm_compute. reflexivity. }
    destruct (unused_exact (group_of ex_root_twin (3, 100)) W) as [HU _].
    apply (proj1 (HU ex_o_c)).
    vm_compute. repeat first [left; reflexivity | right].
  - cbn [lint_skip_empty snd]. intros H. exact H.
Qed.

(* ------------------------------------------------------------------------------------------ *)
(* closing names (`end record t`, `end protected t`, `end function f` ...) are not references    *)
(* ------------------------------------------------------------------------------------------ *)
Definition with_self_reference (g : group) (d : ent) : group :=
  {| primary := primary g; secondaries := secondaries g ++ [[EvRef (Some d)]] |}.

Lemma self_reference_hides : forall g d,
  ~ In d (find_unused_declarations (with_self_reference g d)).
Proof.
  intros g d. apply (pair_rule (with_self_reference g d) d d); [|reflexivity].
  unfold referenced_in, group_events, with_self_reference. cbn [primary secondaries].
  apply in_or_app. right. rewrite concat_app. apply in_or_app. right.
  cbn. left. reflexivity.
Qed.

Lemma closing_name_as_reference_refuted :
  exists g d, In d (find_unused_declarations g)
              /\ ~ In d (find_unused_declarations (with_self_reference g d)).
Proof.
  exists example_group, ex_t. split.
  - vm_compute. repeat first [left; reflexivity | right].
  - apply self_reference_hides.
Qed.
