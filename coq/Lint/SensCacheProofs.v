(* Lint/SensCacheProofs.v — proofs about the linter cache model of Lint/SensCache.v. *)
From Coq Require Import List NArith Bool Lia Permutation.
Import ListNotations.
From RH Require Import Lint.SensCache.
Open Scope N_scope.
#[local] Arguments N.eqb : simpl never.

Lemma ukey_eqb_eq : forall a b, ukey_eqb a b = true <-> a = b.
Proof.
  intros [n|p n] [m|q m]; simpl; split; intros H; try discriminate.
  - apply N.eqb_eq in H. subst. reflexivity.
  - inversion H. apply N.eqb_refl.
  - apply andb_true_iff in H. destruct H as [H1 H2]. apply N.eqb_eq in H1. apply N.eqb_eq in H2. subst. reflexivity.
  - inversion H. rewrite !N.eqb_refl. reflexivity.
Qed.
Lemma key_eqb_eq : forall a b, key_eqb a b = true <-> a = b.
Proof.
  intros [l u] [l' u']. unfold key_eqb. simpl. rewrite andb_true_iff, N.eqb_eq, ukey_eqb_eq.
  split; [intros [H1 H2]; subst; reflexivity | intros H; inversion H; auto].
Qed.
Lemma key_eqb_refl : forall a, key_eqb a a = true.
Proof. intros a. apply key_eqb_eq. reflexivity. Qed.
Lemma key_eqb_neq : forall a b, key_eqb a b = false <-> a <> b.
Proof. intros a b. rewrite <- key_eqb_eq. destruct (key_eqb a b); split; congruence. Qed.

Lemma memk_In : forall k l, memk k l = true <-> In k l.
Proof.
  intros k l; induction l as [|x r IH]; simpl; [split; [discriminate | tauto]|].
  rewrite orb_true_iff, IH, key_eqb_eq. split; intros [H|H]; auto.
Qed.

Lemma perm_filter' : forall A (p : A -> bool) l l', Permutation l l' -> Permutation (filter p l) (filter p l').
Proof.
  intros A p l l' H; induction H; simpl.
  - constructor.
  - destruct (p x); [apply perm_skip|]; assumption.
  - destruct (p x); destruct (p y); try reflexivity. apply perm_swap.
  - etransitivity; eassumption.
Qed.

Section Proofs.
Variable D : Type.
Notation cache := (cache D).
Notation step := (step D).
Notation keys c := (map fst c).

Lemma lookup_none : forall k (c : cache), c_lookup D k c = None <-> ~ In k (keys c).
Proof.
  intros k c; induction c as [|[k' v] r IH]; simpl; [tauto|].
  destruct (key_eqb k k') eqn:E.
  - apply key_eqb_eq in E. subst. split; [discriminate | intros H; exfalso; apply H; left; reflexivity].
  - apply key_eqb_neq in E. rewrite IH. split; intros H; [intros [H'|H']; [congruence | tauto] | tauto].
Qed.
Lemma lookup_in : forall k v (c : cache), c_lookup D k c = Some v -> In (k, v) c.
Proof.
  intros k v c; induction c as [|[k' v'] r IH]; simpl; intros H; [discriminate|].
  destruct (key_eqb k k') eqn:E; [apply key_eqb_eq in E; inversion H; subst; left; reflexivity | right; apply IH, H].
Qed.
Lemma in_lookup : forall k v (c : cache), NoDup (keys c) -> In (k, v) c -> c_lookup D k c = Some v.
Proof.
  intros k v c; induction c as [|[k' v'] r IH]; simpl; intros Hnd Hin; [contradiction|].
  inversion Hnd as [|? ? Hni Hnd']; subst. destruct Hin as [E|Hin].
  - inversion E; subst. rewrite key_eqb_refl. reflexivity.
  - destruct (key_eqb k k') eqn:E; [|apply IH; assumption].
    apply key_eqb_eq in E. subst. exfalso. apply Hni. apply (in_map fst _ _ Hin).
Qed.

Lemma lookup_remove : forall k k' (c : cache),
  c_lookup D k (c_remove D k' c) = if key_eqb k k' then None else c_lookup D k c.
Proof.
  intros k k' c; induction c as [|[k0 v0] r IH]; simpl; [destruct (key_eqb k k'); reflexivity|].
  destruct (key_eqb k' k0) eqn:E0.
  - apply key_eqb_eq in E0. subst k0. rewrite IH. destruct (key_eqb k k'); reflexivity.
  - simpl. rewrite IH. destruct (key_eqb k k0) eqn:E1; [|reflexivity].
    apply key_eqb_eq in E1. subst k0. destruct (key_eqb k k') eqn:E2; [|reflexivity].
    apply key_eqb_eq in E2. subst. rewrite key_eqb_refl in E0. discriminate.
Qed.
Lemma keys_remove_incl : forall k' (c : cache) x, In x (keys (c_remove D k' c)) -> In x (keys c).
Proof.
  intros k' c x; induction c as [|[k0 v0] r IH]; simpl; [tauto|].
  destruct (key_eqb k' k0); simpl; intros H; [right; apply IH, H | destruct H; [left | right; apply IH]; assumption].
Qed.
Lemma nodup_remove : forall k' (c : cache), NoDup (keys c) -> NoDup (keys (c_remove D k' c)).
Proof.
  intros k' c; induction c as [|[k0 v0] r IH]; simpl; intros H; [constructor|].
  inversion H as [|? ? Hni Hnd]; subst. destruct (key_eqb k' k0); [apply IH, Hnd|].
  simpl. constructor; [intros Hin; apply Hni; eapply keys_remove_incl, Hin | apply IH, Hnd].
Qed.

Lemma prune_analyzed_spec : forall ks (c : cache), NoDup (keys c) ->
  NoDup (keys (prune_analyzed D c ks)) /\
  forall k, c_lookup D k (prune_analyzed D c ks) = if memk k ks then None else c_lookup D k c.
Proof.
  induction ks as [|k0 r IH]; intros c Hnd; [split; [assumption | reflexivity]|].
  unfold prune_analyzed in *. simpl. destruct (IH (c_remove D k0 c) (nodup_remove _ _ Hnd)) as [H1 H2].
  split; [assumption|]. intros k. rewrite H2, lookup_remove.
  destruct (key_eqb k k0); simpl; destruct (memk k r); reflexivity.
Qed.

Lemma filter_keys_spec : forall (p : key -> bool) (c : cache), NoDup (keys c) ->
  NoDup (keys (filter (fun e : key * D => p (fst e)) c)) /\
  forall k, c_lookup D k (filter (fun e : key * D => p (fst e)) c) = if p k then c_lookup D k c else None.
Proof.
  intros p c; induction c as [|[k0 v0] r IH]; simpl; intros Hnd.
  - split; [constructor | intros k; destruct (p k); reflexivity].
  - inversion Hnd as [|? ? Hni Hnd']; subst. destruct (IH Hnd') as [H1 H2].
    destruct (p k0) eqn:P0; simpl.
    + split.
      * constructor; [|assumption]. intros Hin. apply Hni. apply in_map_iff in Hin.
        destruct Hin as [[k v] [E Hin]]. apply filter_In in Hin. simpl in E. subst. apply (in_map fst _ _ (proj1 Hin)).
      * intros k. rewrite H2. destruct (key_eqb k k0) eqn:E; [|reflexivity].
        apply key_eqb_eq in E. subst. rewrite P0. reflexivity.
    + split; [assumption|]. intros k. rewrite H2. destruct (key_eqb k k0) eqn:E; [|reflexivity].
      apply key_eqb_eq in E. subst. rewrite P0. reflexivity.
Qed.

Lemma lookup_snoc : forall k k' v (c : cache),
  c_lookup D k (c ++ [(k', v)]) = match c_lookup D k c with
                                   | Some x => Some x
                                   | None => if key_eqb k k' then Some v else None
                                   end.
Proof.
  intros k k' v c; induction c as [|[k0 v0] r IH]; simpl; [reflexivity|].
  destruct (key_eqb k k0); [reflexivity | apply IH].
Qed.
Lemma nodup_snoc : forall k' v (c : cache), NoDup (keys c) -> c_lookup D k' c = None -> NoDup (keys (c ++ [(k', v)])).
Proof.
  intros k' v c Hnd Hl. apply lookup_none in Hl. rewrite map_app. simpl.
  induction c as [|[k0 v0] r IH]; simpl in *; [constructor; [tauto | constructor]|].
  inversion Hnd as [|? ? Hni Hnd']; subst. constructor.
  - intros Hin. apply in_app_or in Hin. destruct Hin as [Hin|[E|[]]]; [tauto | subst; apply Hl; left; reflexivity].
  - apply IH; [assumption | tauto].
Qed.

Lemma recompute_spec : forall (st : step) ks (c : cache), NoDup (keys c) ->
  let c' := fold_left (fun c k => match c_lookup D k c with
                                  | Some _ => c
                                  | None => if memk k (existing st) then c ++ [(k, lintu st k)] else c
                                  end) ks c in
  NoDup (keys c') /\
  forall k, c_lookup D k c' = match c_lookup D k c with
                              | Some x => Some x
                              | None => if memk k ks && memk k (existing st) then Some (lintu st k) else None
                              end.
Proof.
  intros st ks; induction ks as [|k0 r IH]; intros c Hnd; simpl.
  - split; [assumption|]. intros k. destruct (c_lookup D k c); reflexivity.
  - destruct (c_lookup D k0 c) as [x0|] eqn:L0.
    + destruct (IH c Hnd) as [H1 H2]. split; [assumption|]. intros k. rewrite H2.
      destruct (c_lookup D k c) eqn:L; [reflexivity|].
      destruct (key_eqb k k0) eqn:E; [apply key_eqb_eq in E; subst; congruence | reflexivity].
    + destruct (memk k0 (existing st)) eqn:M0.
      * destruct (IH _ (nodup_snoc k0 (lintu st k0) c Hnd L0)) as [H1 H2]. split; [assumption|].
        intros k. rewrite H2, lookup_snoc. destruct (c_lookup D k c) eqn:L; [reflexivity|].
        destruct (key_eqb k k0) eqn:E; [|reflexivity].
        apply key_eqb_eq in E. subst. rewrite M0. simpl. reflexivity.
      * destruct (IH c Hnd) as [H1 H2]. split; [assumption|]. intros k. rewrite H2.
        destruct (c_lookup D k c) eqn:L; [reflexivity|].
        destruct (key_eqb k k0) eqn:E; [|reflexivity].
        apply key_eqb_eq in E. subst. rewrite M0, andb_false_r. simpl. destruct (memk k0 r); reflexivity.
Qed.

(* the invariant: the cache holds exactly the existing units with their current lint result *)
Definition Inv (c : cache) (st : step) : Prop :=
  NoDup (keys c) /\ forall k, c_lookup D k c = if memk k (existing st) then Some (lintu st k) else None.
Definition InvOpt (c : cache) (prev : option step) : Prop :=
  match prev with None => c = [] | Some p => Inv c p end.

Lemma step_inv : forall c prev st, InvOpt c prev -> wf_step D prev st -> Inv (fst (lint_step D c st)) st.
Proof.
  intros c prev st Hi Hw. unfold lint_step, lint_step_gen. simpl fst.
  assert (NoDup (keys c)) as Hnd by (destruct prev; [apply Hi | rewrite Hi; constructor]).
  destruct (prune_analyzed_spec (analyzed st) c Hnd) as [N1 L1].
  destruct (filter_keys_spec (fun k => memk k (existing st)) _ N1) as [N2 L2].
  destruct (recompute_spec st (analyzed st) _ N2) as [N3 L3].
  split; [exact N3|]. intros k. unfold recompute, prune_missing. rewrite L3, L2, L1.
  destruct (memk k (existing st)) eqn:Me; [|rewrite andb_false_r; reflexivity].
  destruct (memk k (analyzed st)) eqn:Ma; [reflexivity|]. simpl.
  apply memk_In in Me. destruct (Hw k Me) as [Ha|Hp]; [apply memk_In in Ha; congruence|].
  destruct prev as [p|]; [|contradiction]. destruct Hp as [Hex Heq]. destruct Hi as [_ Hl].
  rewrite Hl. apply memk_In in Hex. rewrite Hex, Heq. reflexivity.
Qed.

Lemma nodup_map_pair : forall (f : key -> D) l, NoDup l -> NoDup (map (fun k => (k, f k)) l).
Proof.
  intros f l H; induction H as [|x r Hx Hr IH]; simpl; constructor; [|assumption].
  intros Hin. apply in_map_iff in Hin. destruct Hin as [y [E Hy]]. inversion E; subst. contradiction.
Qed.
Lemma filter_map_pair : forall (f : key -> D) (p : key -> bool) l,
  map (fun k => (k, f k)) (filter p l) = filter (fun e : key * D => p (fst e)) (map (fun k => (k, f k)) l).
Proof.
  intros f p l; induction l as [|x r IH]; simpl; [reflexivity|]. destruct (p x); simpl; rewrite IH; reflexivity.
Qed.

Lemma inv_emit : forall c st, Inv c st -> NoDup (existing st) -> Permutation (emit D st c) (spec_emitted D st).
Proof.
  intros c st [Hnd Hl] Hex. unfold emit, spec_emitted.
  rewrite (filter_map_pair (lintu st) (fun k => reported st (fst k))).
  apply (perm_filter' _ (fun e : key * D => reported st (fst (fst e)))).
  apply NoDup_Permutation.
  - eapply NoDup_map_inv, Hnd.
  - apply nodup_map_pair, Hex.
  - intros [k v]. split.
    + intros Hin. apply (in_lookup _ _ _ Hnd) in Hin. rewrite Hl in Hin.
      destruct (memk k (existing st)) eqn:M; [|discriminate]. inversion Hin; subst.
      apply in_map_iff. exists k. split; [reflexivity | apply memk_In, M].
    + intros Hin. apply in_map_iff in Hin. destruct Hin as [k' [E Hk]]. inversion E; subst.
      apply lookup_in. rewrite Hl. apply memk_In in Hk. rewrite Hk. reflexivity.
Qed.

Fixpoint last_opt (prev : option step) (steps : list step) : option step :=
  match steps with [] => prev | s :: r => last_opt (Some s) r end.

Lemma run_inv : forall steps prev c em, InvOpt c prev -> wf_hist D prev steps ->
  InvOpt (fst (fold_left (fun acc st => lint_step D (fst acc) st) steps (c, em))) (last_opt prev steps).
Proof.
  induction steps as [|s r IH]; intros prev c em Hi Hw; [exact Hi|].
  simpl in Hw. destruct Hw as [Hs [_ Hr]]. simpl.
  destruct (lint_step D c s) as [c' em'] eqn:E.
  apply (IH (Some s)); [|assumption]. simpl. replace c' with (fst (lint_step D c s)) by (rewrite E; reflexivity).
  eapply step_inv; eassumption.
Qed.
Lemma wf_hist_snoc : forall steps prev st, wf_hist D prev (steps ++ [st]) ->
  wf_hist D prev steps /\ wf_step D (last_opt prev steps) st /\ NoDup (existing st).
Proof.
  induction steps as [|s r IH]; intros prev st H; simpl in *.
  - destruct H as [H1 [H2 _]]. auto.
  - destruct H as [H1 [H2 H3]]. destruct (IH _ _ H3) as [A [B C]]. auto.
Qed.

Lemma cache_history_exact : forall steps st,
  wf_hist D None (steps ++ [st]) -> Permutation (snd (run D (steps ++ [st]))) (spec_emitted D st).
Proof.
  intros steps st H. destruct (wf_hist_snoc _ _ _ H) as [Hs [Hst Hnd]].
  unfold run, run_gen. rewrite fold_left_app. simpl.
  pose proof (run_inv steps None [] [] eq_refl Hs) as Hi.
  set (acc := fold_left (fun acc st0 => lint_step D (fst acc) st0) steps ([], [])) in *.
  pose proof (step_inv (fst acc) _ st Hi Hst) as Hinv.
  unfold lint_step, lint_step_gen in *. simpl in *. apply inv_emit; assumption.
Qed.

(* after every call of the history, not only the last one *)
Lemma cache_step_exact : forall c prev st, InvOpt c prev -> wf_step D prev st -> NoDup (existing st) ->
  Permutation (snd (lint_step D c st)) (spec_emitted D st) /\ InvOpt (fst (lint_step D c st)) (Some st).
Proof.
  intros c prev st Hi Hw Hnd. pose proof (step_inv c prev st Hi Hw) as Hinv. split; [|exact Hinv].
  unfold lint_step, lint_step_gen in *. simpl in *. apply inv_emit; assumption.
Qed.

Lemma wf_hist_prefix : forall a b prev, wf_hist D prev (a ++ b) -> wf_hist D prev a.
Proof.
  induction a as [|s r IH]; intros b prev H; simpl in *; [exact I|].
  destruct H as [H1 [H2 H3]]. split; [assumption|]. split; [assumption|]. eapply IH, H3.
Qed.
Lemma cache_every_step_exact : forall pre st post,
  wf_hist D None (pre ++ st :: post) -> Permutation (snd (run D (pre ++ [st]))) (spec_emitted D st).
Proof.
  intros pre st post H. apply cache_history_exact.
  apply (wf_hist_prefix (pre ++ [st]) post). rewrite <- app_assoc. exact H.
Qed.
End Proofs.

(* ---- the seeded variant (prune by the primary unit's existence) keeps a removed architecture's diagnostics ---- *)
Lemma cache_prune_by_primary_refuted :
  exists (steps : list (step N)) (st : step N),
    wf_hist N None (steps ++ [st]) /\
    Permutation (snd (run N (steps ++ [st]))) (spec_emitted N st) /\
    ~ Permutation (snd (run_by_primary N (steps ++ [st]))) (spec_emitted N st) /\
    snd (run_by_primary N (steps ++ [st])) = [(w_arch, 7); (w_ent, 0)].
Proof.
  exists [w_s1], w_s2.
  assert (W : wf_hist N None ([w_s1] ++ [w_s2])).
  { simpl. repeat split.
    - intros k Hk. left. exact Hk.
    - constructor; [intros [E|[]]; discriminate | constructor; [intros [] | constructor]].
    - intros k [E|[]]. left. left. exact E.
    - constructor; [intros [] | constructor]. }
  split; [exact W|]. split; [apply cache_history_exact, W|]. split.
  - intros H. apply Permutation_length in H. vm_compute in H. discriminate.
  - vm_compute. reflexivity.
Qed.
