(* Lint/DeadCode.v — model of vhdl_lang/src/lint/dead_code.rs (unused-declaration lint) and the
   specification of property C19.  Definitions only; proofs are in Lint/DeadCodeProofs.v.

   What is modelled (anchor: vhdl_lang/src/lint/dead_code.rs, as of /repo HEAD):
     * named entities as the lint sees them: id, kind class, parent, `related`, decl_pos   (AnyEnt)
     * the traversal of a design unit as the list of Searcher callbacks it produces
       (`search_pos_with_ref` = EvRef, `search_decl` = EvDecl); the 1 600 lines of `impl Search`
       are NOT modelled: the event list of every generated unit is extracted from the real
       traversal by the harness (recording Searcher) on every run
     * DeadCodeSearcher, find_unused_declarations, can_be_locally_unused (every exclusion, in order)
     * UnusedDeclarationsLinter::lint: cache pruning, or_insert_with, third-party filter.
   Hash sets/maps are modelled as duplicate-free lists in insertion order; their iteration order is
   unspecified in Rust, so all results are compared as sets. *)
From Coq Require Import List NArith Bool.
Import ListNotations.
Open Scope N_scope.

(* ------------------------------------------------------------------------------------------ *)
(* Named entities                                                                               *)
(* ------------------------------------------------------------------------------------------ *)

(* The classes of AnyEntKind that dead_code.rs distinguishes. *)
Inductive kind : Set :=
| KDesignPackage          (* AnyEntKind::Design(Design::Package) *)
| KDesignUninstPackage    (* AnyEntKind::Design(Design::UninstPackage) *)
| KDesignOther            (* any other AnyEntKind::Design(_): entity, architecture, package body, instance, ... *)
| KConcurrent             (* AnyEntKind::Concurrent(..)  : label of a concurrent statement *)
| KSequential             (* AnyEntKind::Sequential(_)   : label of a sequential statement *)
| KLoopParameter          (* AnyEntKind::LoopParameter(..) *)
| KElementDeclaration     (* AnyEntKind::ElementDeclaration(..) : record element *)
| KEnumLiteral            (* Overloaded(EnumLiteral) *)
| KInterfaceSubprogram    (* Overloaded(InterfaceSubprogram) *)
| KSubprogramDecl         (* Overloaded(SubprogramDecl) : subprogram declaration without body *)
| KOverloadedOther        (* Overloaded(Subprogram | UninstSubprogramDecl | UninstSubprogram | Alias) *)
| KObject (iface : bool)  (* Object(o); iface = o.iface.is_some() *)
| KComponent              (* Component(..) *)
| KTypeProtected          (* Type(Type::Protected(..)) : protected type declaration or body *)
| KTypeOther              (* any other Type(_) *)
| KOther.                 (* File, InterfaceFile, Attribute, DeferredConstant, aliases, Library, View, PhysicalLiteral ... *)

(* `Related`: only DeclaredBy matters to the lint. *)
Inductive rel (A : Type) : Type :=
| DeclaredBy (other : A)   (* Related::DeclaredBy(other): this is the body / full declaration of `other` *)
| RelOther                 (* ImplicitOf / InstanceOf / DerivedFrom *)
| RelNone.
Arguments DeclaredBy {A} other.
Arguments RelOther {A}.
Arguments RelNone {A}.

(* EntRef<'a>: a reference to an immutable arena record; modelled as the record itself.
   Equality and hashing of EntRef are by `id` (named_entity.rs: PartialEq/Hash on id). *)
Inductive ent : Type :=
| Ent (id : N) (k : kind) (parent : option ent) (related : rel ent) (decl_pos : option N).

Definition eid (e : ent) : N := match e with Ent i _ _ _ _ => i end.
Definition ekind (e : ent) : kind := match e with Ent _ k _ _ _ => k end.
Definition eparent (e : ent) : option ent := match e with Ent _ _ p _ _ => p end.
Definition erelated (e : ent) : rel ent := match e with Ent _ _ _ r _ => r end.
Definition edecl_pos (e : ent) : option N := match e with Ent _ _ _ _ p => p end.

Definition ent_eqb (a b : ent) : bool := eid a =? eid b.

(* FnvHashSet<EntRef> *)
Fixpoint set_mem (e : ent) (s : list ent) : bool :=
  match s with
  | [] => false
  | x :: r => if ent_eqb e x then true else set_mem e r
  end.
Definition set_insert (e : ent) (s : list ent) : list ent :=
  if set_mem e s then s else s ++ [e].

(* ------------------------------------------------------------------------------------------ *)
(* Search events and DeadCodeSearcher                                                           *)
(* ------------------------------------------------------------------------------------------ *)

Inductive event : Type :=
| EvRef (r : option ent)    (* search_pos_with_ref with reference.get() = r (None: unresolved) *)
| EvDecl (d : option ent).  (* search_decl with decl.ent_id() = d *)

Record searcher : Type := { references : list ent; declarations : list ent }.
Definition searcher_new : searcher := {| references := []; declarations := [] |}.

Definition search_pos_with_ref (s : searcher) (r : option ent) : searcher :=
  match r with
  | Some e =>
    let refs := set_insert e (references s) in
    let refs := match erelated e with
                | DeclaredBy other => set_insert other refs
                | _ => refs
                end in
    {| references := refs; declarations := declarations s |}
  | None => s
  end.

Definition search_decl (s : searcher) (d : option ent) : searcher :=
  match d with
  | Some e => {| references := references s; declarations := set_insert e (declarations s) |}
  | None => s
  end.

Definition search_event (s : searcher) (ev : event) : searcher :=
  match ev with
  | EvRef r => search_pos_with_ref s r
  | EvDecl d => search_decl s d
  end.

(* search_unit: the searcher never answers Finished, so the whole unit is traversed. *)
Definition search_unit (s : searcher) (u : list event) : searcher := fold_left search_event u s.

(* ------------------------------------------------------------------------------------------ *)
(* can_be_locally_unused                                                                        *)
(* ------------------------------------------------------------------------------------------ *)

Definition is_package_header (e : ent) : bool :=
  match ekind e with KDesignPackage | KDesignUninstPackage => true | _ => false end.

Definition is_interface (e : ent) : bool :=
  match ekind e with KObject true | KInterfaceSubprogram => true | _ => false end.

Definition is_design_kind (k : kind) : bool :=
  match k with KDesignPackage | KDesignUninstPackage | KDesignOther => true | _ => false end.

Definition kind_is_component (k : kind) : bool := match k with KComponent => true | _ => false end.
Definition kind_is_protected (k : kind) : bool := match k with KTypeProtected => true | _ => false end.
Definition kind_is_subprogram_decl (k : kind) : bool := match k with KSubprogramDecl => true | _ => false end.

(* the tests on `ent.parent`, in the order of the Rust function *)
Definition parent_allows (e : ent) : bool :=
  match eparent e with
  | Some parent =>
    (* Everything in package header is public, except generics in an uninstantiated package *)
    if is_package_header parent && negb (is_interface e) then false
    (* Component ports are assumed to be needed *)
    else if kind_is_component (ekind parent) then false
    (* Everything in protected types inside of package header *)
    else if kind_is_protected (ekind parent)
            && match eparent parent with
               | Some grand_parent => is_package_header grand_parent
               | None => false
               end then false
    (* Formals inside a subprogram declaration *)
    else if kind_is_subprogram_decl (ekind parent) then false
    else true
  | None => true
  end.

(* the tests on `ent.kind()`, in the order of the Rust function *)
Definition kind_allows (k : kind) : bool :=
  if is_design_kind k then false
  else match k with
       | KConcurrent | KSequential => false      (* no labels *)
       | KLoopParameter => false                 (* no loop parameters *)
       | KElementDeclaration => false            (* record elements *)
       | KEnumLiteral => false                   (* enum variants *)
       | _ => true
       end.

Fixpoint can_be_locally_unused (e : ent) : bool :=
  match e with
  | Ent _ k _ related _ =>
    if match related with
       | DeclaredBy other => negb (can_be_locally_unused other)
       | _ => false
       end then false
    else if negb (kind_allows k) then false
    else parent_allows e
  end.

(* ------------------------------------------------------------------------------------------ *)
(* find_unused_declarations                                                                     *)
(* ------------------------------------------------------------------------------------------ *)

(* the units of one (library, primary name) key *)
Record group : Type := { primary : option (list event); secondaries : list (list event) }.

Definition run_searcher (g : group) : searcher :=
  let s := searcher_new in
  let s := match primary g with Some u => search_unit s u | None => s end in
  fold_left search_unit (secondaries g) s.

Definition declared_by_filter (refs : list ent) (e : ent) : bool :=
  match erelated e with
  (* If the subprogram header is found in the references but not the body,
     the body is considered to be used and we filter it away *)
  | DeclaredBy other => negb (set_mem other refs)
  | _ => true
  end.

Definition unused_of_searcher (s : searcher) : list ent :=
  filter can_be_locally_unused
    (filter (declared_by_filter (references s))
       (filter (fun e => negb (set_mem e (references s))) (declarations s))).

Definition find_unused_declarations (g : group) : list ent := unused_of_searcher (run_searcher g).

(* all events of a group in traversal order (for the specification) *)
Definition group_events (g : group) : list event :=
  (match primary g with Some u => u | None => [] end) ++ concat (secondaries g).

(* Mutations of the mechanism used by Examples (each must be refuted by the specification):
   the DeclaredBy filter inverted / dropped. *)
Definition unused_of_searcher_nofilter (s : searcher) : list ent :=
  filter can_be_locally_unused
    (filter (fun e => negb (set_mem e (references s))) (declarations s)).

(* ------------------------------------------------------------------------------------------ *)
(* UnusedDeclarationsLinter                                                                     *)
(* ------------------------------------------------------------------------------------------ *)

Definition key : Set := (N * N)%type.     (* (library name, primary unit name) as symbols *)
Definition key_eqb (a b : key) : bool := (fst a =? fst b) && (snd a =? snd b).

Record library : Type := {
  lib_primary : N -> option (list event);        (* Library::primary_unit(name) *)
  lib_secondaries : N -> list (list event)       (* Library::secondary_units(name) *)
}.
Definition design_root : Type := N -> option library.     (* DesignRoot::get_lib *)
Definition config : Type := N -> option bool.            (* Config::get_library(name).map(|c| c.is_third_party) *)

Definition lib_group (l : library) (name : N) : group :=
  {| primary := lib_primary l name; secondaries := lib_secondaries l name |}.

(* Diagnostic::new(ent.decl_pos()?, "Unused declaration of ...", ErrorCode::Unused): (position, entity id) *)
Definition diag : Set := (N * N)%type.
Definition diags_of (unused : list ent) : list diag :=
  flat_map (fun e => match edecl_pos e with Some p => [(p, eid e)] | None => [] end) unused.

Definition cache : Type := list (key * list diag).       (* FnvHashMap<(Symbol, Symbol), Vec<Diagnostic>> *)

Fixpoint cache_remove (k : key) (c : cache) : cache :=
  match c with
  | [] => []
  | (k', v) :: r => if key_eqb k k' then cache_remove k r else (k', v) :: cache_remove k r
  end.
Fixpoint cache_mem (k : key) (c : cache) : bool :=
  match c with
  | [] => false
  | (k', _) :: r => if key_eqb k k' then true else cache_mem k r
  end.

Definition primary_exists (rt : design_root) (k : key) : bool :=
  match rt (fst k) with
  | Some l => match lib_primary l (snd k) with Some _ => true | None => false end
  | None => false
  end.

(* for unit in analyzed_units { if let Some(library) = root.get_lib(..) { entry(key).or_insert_with(..) } } *)
Definition lint_insert (rt : design_root) (c : cache) (k : key) : cache :=
  match rt (fst k) with
  | Some l =>
    if cache_mem k c then c
    else c ++ [(k, diags_of (find_unused_declarations (lib_group l (snd k))))]
  | None => c
  end.

Definition emit (cfg : config) (c : cache) : list diag :=
  flat_map (fun kv => match cfg (fst (fst kv)) with
                      | Some is_third_party => if is_third_party then [] else snd kv
                      | None => []
                      end) c.

Definition lint (c : cache) (rt : design_root) (cfg : config) (analyzed : list key) : cache * list diag :=
  (* Prune diagnostics that need to be re-computed *)
  let c := fold_left (fun c k => cache_remove k c) analyzed c in
  (* Prune diagnostics for units that no longer exist *)
  let c := filter (fun kv => primary_exists rt (fst kv)) c in
  let c := fold_left (lint_insert rt) analyzed c in
  (c, emit cfg c).

(* mutation used by an Example: third-party filter dropped *)
Definition emit_nofilter (c : cache) : list diag := flat_map (fun kv => snd kv) c.

(* a history of analyse() calls: (root, config, analyzed_units) per step *)
Fixpoint lint_history (c : cache) (steps : list (design_root * config * list key)) : list (list diag) :=
  match steps with
  | [] => []
  | (rt, cfg, an) :: r => let '(c', out) := lint c rt cfg an in out :: lint_history c' r
  end.

(* ------------------------------------------------------------------------------------------ *)
(* Specification (property C19)                                                                 *)
(* ------------------------------------------------------------------------------------------ *)

(* the declaration a body / full declaration belongs to (itself if it is not a body) *)
Definition root_of (d : ent) : ent :=
  match erelated d with DeclaredBy other => other | _ => d end.

Definition declared_in (evs : list event) (d : ent) : Prop := In (EvDecl (Some d)) evs.
Definition referenced_in (evs : list event) (r : ent) : Prop := In (EvRef (Some r)) evs.

(* A declaration is used when it, its body or its declaration is referenced:
   `used` closes over declaration/body pairs. *)
Definition used (evs : list event) (d : ent) : Prop :=
  exists r, referenced_in evs r /\ eid (root_of r) = eid (root_of d).

(* the property's list of ineligible declarations *)
Definition design_unit (d : ent) : Prop :=
  ekind d = KDesignPackage \/ ekind d = KDesignUninstPackage \/ ekind d = KDesignOther.
Definition label (d : ent) : Prop := ekind d = KConcurrent \/ ekind d = KSequential.
Definition loop_parameter (d : ent) : Prop := ekind d = KLoopParameter.
Definition record_element (d : ent) : Prop := ekind d = KElementDeclaration.
Definition enumeration_literal (d : ent) : Prop := ekind d = KEnumLiteral.
Definition pkg_header (p : ent) : Prop := ekind p = KDesignPackage \/ ekind p = KDesignUninstPackage.
Definition generic_interface (d : ent) : Prop := ekind d = KObject true \/ ekind d = KInterfaceSubprogram.
(* package-header item: declared directly in a package declaration (generics of the package excepted),
   or a member of a protected type declared there *)
Definition package_header_item (d : ent) : Prop :=
  (exists p, eparent d = Some p /\ pkg_header p /\ ~ generic_interface d) \/
  (exists p g, eparent d = Some p /\ ekind p = KTypeProtected /\ eparent p = Some g /\ pkg_header g).
Definition component_port (d : ent) : Prop := exists p, eparent d = Some p /\ ekind p = KComponent.
Definition formal_of_subprogram_declaration (d : ent) : Prop :=
  exists p, eparent d = Some p /\ ekind p = KSubprogramDecl.

Definition eligible1 (d : ent) : Prop :=
  ~ design_unit d /\ ~ label d /\ ~ loop_parameter d /\ ~ record_element d /\ ~ enumeration_literal d /\
  ~ package_header_item d /\ ~ component_port d /\ ~ formal_of_subprogram_declaration d.

(* a body is the same named entity as its declaration: it is eligible only if the declaration is *)
Fixpoint eligible (d : ent) : Prop :=
  match d with
  | Ent _ _ _ related _ =>
    eligible1 d /\ match related with DeclaredBy other => eligible other | _ => True end
  end.

Definition unused_spec (evs : list event) (d : ent) : Prop :=
  declared_in evs d /\ eligible d /\ ~ used evs d.

(* Well-formedness of the events of a unit group (checked on every real case by `wf_events_b`):
   (1) ids identify entities: two entities of the universe with the same id are the same record
       (the arena hands out each id once);
   (2) a declaration that some body is DeclaredBy is not itself DeclaredBy something
       (find_subpgm_specification / find_deferred_constant_declaration / protected body only ever
        link a body to a declaration without body). *)
Definition ev_ents (ev : event) : list ent :=
  match ev with EvRef (Some e) | EvDecl (Some e) => [e] | _ => [] end.
Definition with_related (e : ent) : list ent :=
  match erelated e with DeclaredBy other => [e; other] | _ => [e] end.
Definition universe (evs : list event) : list ent := flat_map with_related (flat_map ev_ents evs).

Definition wf_ids (evs : list event) : Prop :=
  forall a b, In a (universe evs) -> In b (universe evs) -> eid a = eid b -> a = b.
Definition wf_depth (evs : list event) : Prop :=
  forall a other, In a (universe evs) -> erelated a = DeclaredBy other ->
                  match erelated other with DeclaredBy _ => False | _ => True end.
Definition wf_events (evs : list event) : Prop := wf_ids evs /\ wf_depth evs.

(* decidable structural equality of entities, for the executable well-formedness test *)
Definition kind_eqb (a b : kind) : bool :=
  match a, b with
  | KDesignPackage, KDesignPackage | KDesignUninstPackage, KDesignUninstPackage
  | KDesignOther, KDesignOther | KConcurrent, KConcurrent | KSequential, KSequential
  | KLoopParameter, KLoopParameter | KElementDeclaration, KElementDeclaration
  | KEnumLiteral, KEnumLiteral | KInterfaceSubprogram, KInterfaceSubprogram
  | KSubprogramDecl, KSubprogramDecl | KOverloadedOther, KOverloadedOther
  | KComponent, KComponent | KTypeProtected, KTypeProtected | KTypeOther, KTypeOther
  | KOther, KOther => true
  | KObject x, KObject y => Bool.eqb x y
  | _, _ => false
  end.
Definition opt_n_eqb (a b : option N) : bool :=
  match a, b with Some x, Some y => x =? y | None, None => true | _, _ => false end.
Fixpoint ent_struct_eqb (a b : ent) {struct a} : bool :=
  match a, b with
  | Ent i k p r dp, Ent i' k' p' r' dp' =>
    (i =? i') && kind_eqb k k' && opt_n_eqb dp dp'
    && match p, p' with
       | Some x, Some y => ent_struct_eqb x y
       | None, None => true
       | _, _ => false
       end
    && match r, r' with
       | DeclaredBy x, DeclaredBy y => ent_struct_eqb x y
       | RelOther, RelOther => true
       | RelNone, RelNone => true
       | _, _ => false
       end
  end.

Definition wf_ids_b (evs : list event) : bool :=
  let u := universe evs in
  forallb (fun a => forallb (fun b => if eid a =? eid b then ent_struct_eqb a b else true) u) u.
Definition wf_depth_b (evs : list event) : bool :=
  forallb (fun a => match erelated a with
                    | DeclaredBy other => match erelated other with DeclaredBy _ => false | _ => true end
                    | _ => true
                    end) (universe evs).
Definition wf_events_b (evs : list event) : bool := wf_ids_b evs && wf_depth_b evs.

(* --- specification of the linter over a history of analyse() calls ------------------------- *)

Definition empty_group : group := {| primary := None; secondaries := [] |}.
(* the units stored under key k (empty when the library does not exist) *)
Definition group_of (rt : design_root) (k : key) : group :=
  match rt (fst k) with Some l => lib_group l (snd k) | None => empty_group end.

(* cache invariant: every entry is what find_unused_declarations yields on the current root, keys unique *)
Definition cache_ok (c : cache) (rt : design_root) : Prop :=
  NoDup (map fst c) /\
  forall k ds, In (k, ds) c -> ds = diags_of (find_unused_declarations (group_of rt k)).

(* assumption on DesignRoot::analyze (C01's domain, F3 was a violation of it): every key whose unit
   group differs between the previous and the current root is among the analysed units *)
Definition analyzed_covers (rt_old rt_new : design_root) (analyzed : list key) : Prop :=
  forall k, ~ In k analyzed -> group_of rt_old k = group_of rt_new k.

Definition empty_root : design_root := fun _ => None.

(* what analyse() must report: for every existing unit key of a library configured as not third
   party, the eligible unreferenced declarations of the key's current units, at their decl_pos *)
Definition spec_output (rt : design_root) (cfg : config) (dg : diag) : Prop :=
  exists k d p, primary_exists rt k = true /\ cfg (fst k) = Some false
                /\ unused_spec (group_events (group_of rt k)) d /\ edecl_pos d = Some p /\ dg = (p, eid d).

(* every analysed key of an existing library has its primary unit (no orphan secondary units) *)
Definition no_orphans (rt : design_root) (an : list key) : Prop :=
  forall k, In k an -> rt (fst k) <> None -> primary_exists rt k = true.

Fixpoint history_ok (rt_prev : design_root) (steps : list (design_root * config * list key)) : Prop :=
  match steps with
  | [] => True
  | (rt, _, an) :: r => analyzed_covers rt_prev rt an /\ no_orphans rt an /\ history_ok rt r
  end.

Definition root_wf (rt : design_root) : Prop :=
  forall k, wf_events (group_events (group_of rt k)).
Definition history_wf (steps : list (design_root * config * list key)) : Prop :=
  Forall (fun st => root_wf (fst (fst st))) steps.

(* ------------------------------------------------------------------------------------------ *)
(* Example data (used by the Examples of Props/C19.v)                                           *)
(* ------------------------------------------------------------------------------------------ *)
(*  package pkg is                       -- 1
      procedure pub;                     -- 20
    end package;
    package body pkg is                  -- 2 (DeclaredBy 1)
      procedure priv;                    -- 10
      procedure pub is begin priv; end;  -- 21 (DeclaredBy 20), Ref 10
      procedure priv is begin l: null; end;   -- 11 (DeclaredBy 10), label 19
      procedure lone(a : bit);           -- 12, formal 22
      procedure lone(a : bit) is begin end;   -- 13 (DeclaredBy 12), formal 23
      constant c_unused : bit := '0';    -- 14
      constant c_used : bit := '0';      -- 15
      constant c2 : bit := c_used;       -- 24, Ref 15
      type t is (x, y);                  -- 16, literals 17 18
    end package body; *)
Definition ex_pkg := Ent 1 KDesignPackage None RelNone (Some 1).
Definition ex_body := Ent 2 KDesignOther None (DeclaredBy ex_pkg) (Some 2).
Definition ex_pub := Ent 20 KSubprogramDecl (Some ex_pkg) RelNone (Some 20).
Definition ex_priv := Ent 10 KSubprogramDecl (Some ex_body) RelNone (Some 10).
Definition ex_pub_b := Ent 21 KOverloadedOther (Some ex_body) (DeclaredBy ex_pub) (Some 21).
Definition ex_priv_b := Ent 11 KOverloadedOther (Some ex_body) (DeclaredBy ex_priv) (Some 11).
Definition ex_label := Ent 19 KSequential (Some ex_priv_b) RelNone (Some 19).
Definition ex_lone := Ent 12 KSubprogramDecl (Some ex_body) RelNone (Some 12).
Definition ex_lone_f := Ent 22 (KObject true) (Some ex_lone) RelNone (Some 22).
Definition ex_lone_b := Ent 13 KOverloadedOther (Some ex_body) (DeclaredBy ex_lone) (Some 13).
Definition ex_lone_bf := Ent 23 (KObject true) (Some ex_lone_b) RelNone (Some 23).
Definition ex_c_unused := Ent 14 (KObject false) (Some ex_body) RelNone (Some 14).
Definition ex_c_used := Ent 15 (KObject false) (Some ex_body) RelNone (Some 15).
Definition ex_c2 := Ent 24 (KObject false) (Some ex_body) RelNone (Some 24).
Definition ex_t := Ent 16 KTypeOther (Some ex_body) RelNone (Some 16).
Definition ex_x := Ent 17 KEnumLiteral (Some ex_body) RelNone (Some 17).
Definition ex_y := Ent 18 KEnumLiteral (Some ex_body) RelNone (Some 18).

Definition example_primary : list event := [EvDecl (Some ex_pkg); EvDecl (Some ex_pub)].
Definition example_secondary : list event :=
  [EvDecl (Some ex_body); EvDecl (Some ex_priv);
   EvDecl (Some ex_pub_b); EvRef (Some ex_priv);
   EvDecl (Some ex_priv_b); EvDecl (Some ex_label);
   EvDecl (Some ex_lone); EvDecl (Some ex_lone_f);
   EvDecl (Some ex_lone_b); EvDecl (Some ex_lone_bf);
   EvDecl (Some ex_c_unused); EvDecl (Some ex_c_used);
   EvDecl (Some ex_c2); EvRef (Some ex_c_used); EvRef None;
   EvDecl (Some ex_t); EvDecl (Some ex_x); EvDecl (Some ex_y)].
Definition example_group : group :=
  {| primary := Some example_primary; secondaries := [example_secondary] |}.
Definition example_unused_ids : list N := [12; 13; 23; 14; 24; 16].

(* a history: step 1 analyses library 1 (not third party: the example package under key (1,100))
   and library 2 (third party, same units under key (2,100)); step 2: the package body of (1,100)
   has been removed, analyze reports (1,100). *)
Definition ex_lib_full : library :=
  {| lib_primary := fun n => if n =? 100 then Some example_primary else None;
     lib_secondaries := fun n => if n =? 100 then [example_secondary] else [] |}.
Definition ex_lib_nobody : library :=
  {| lib_primary := fun n => if n =? 100 then Some example_primary else None;
     lib_secondaries := fun _ => [] |}.
Definition ex_root1 : design_root :=
  fun l => if l =? 1 then Some ex_lib_full else if l =? 2 then Some ex_lib_full else None.
Definition ex_root2 : design_root :=
  fun l => if l =? 1 then Some ex_lib_nobody else if l =? 2 then Some ex_lib_full else None.
Definition ex_cfg : config := fun l => if l =? 1 then Some false else if l =? 2 then Some true else None.
Definition example_history : list (design_root * config * list key) :=
  [(ex_root1, ex_cfg, [(1, 100); (1, 100); (2, 100)]); (ex_root2, ex_cfg, [(1, 100)])].
Definition example_history_output : list (list diag) :=
  [[(12, 12); (13, 13); (23, 23); (14, 14); (24, 24); (16, 16)]; []].

(* ------------------------------------------------------------------------------------------ *)
(* Mutation: outdated cache entries selected by the primary name only (the cache is keyed by    *)
(* (library, primary name): same-named units of two libraries must not evict each other)        *)
(* ------------------------------------------------------------------------------------------ *)
Fixpoint cache_remove_name (n : N) (c : cache) : cache :=
  match c with
  | [] => []
  | (k', v) :: r => if snd k' =? n then cache_remove_name n r else (k', v) :: cache_remove_name n r
  end.
Definition lint_nameonly (c : cache) (rt : design_root) (cfg : config) (analyzed : list key) : cache * list diag :=
  let c := fold_left (fun c k => cache_remove_name (snd k) c) analyzed c in
  let c := filter (fun kv => primary_exists rt (fst kv)) c in
  let c := fold_left (lint_insert rt) analyzed c in
  (c, emit cfg c).

(* two libraries 1 and 3 (both not third party), each with a unit group named 100 *)
Definition ex_o_unit := Ent 500 KDesignOther None RelNone (Some 500).
Definition ex_o_c := Ent 514 (KObject false) (Some ex_o_unit) RelNone (Some 514).
Definition ex_lib_other : library :=
  {| lib_primary := fun n => if n =? 100 then Some [EvDecl (Some ex_o_unit); EvDecl (Some ex_o_c)] else None;
     lib_secondaries := fun _ => [] |}.
Definition ex_root_twin : design_root :=
  fun l => if l =? 1 then Some ex_lib_full else if l =? 3 then Some ex_lib_other else None.
Definition ex_cfg_twin : config := fun l => if l =? 1 then Some false else if l =? 3 then Some false else None.

(* ------------------------------------------------------------------------------------------ *)
(* Config::append (config.rs): layered configurations; the library table as an association list *)
(* name -> is_third_party (file patterns abstracted); get_library = cm_get                      *)
(* ------------------------------------------------------------------------------------------ *)
Definition config_map : Set := list (N * bool).
Fixpoint cm_get (m : config_map) (l : N) : option bool :=
  match m with
  | [] => None
  | (k, v) :: r => if k =? l then Some v else cm_get r l
  end.
(* `*parent_library = library.clone()` when the name exists, `insert` otherwise *)
Fixpoint cm_set (m : config_map) (l : N) (v : bool) : config_map :=
  match m with
  | [] => [(l, v)]
  | (k, x) :: r => if k =? l then (k, v) :: r else (k, x) :: cm_set r l v
  end.
Definition config_append (self other : config_map) : config_map :=
  fold_left (fun m kv => cm_set m (fst kv) (snd kv)) other self.
(* mutation: a re-defined library keeps the is_third_party flag of the earlier configuration *)
Fixpoint cm_set_keepflag (m : config_map) (l : N) (v : bool) : config_map :=
  match m with
  | [] => [(l, v)]
  | (k, x) :: r => if k =? l then (k, x) :: r else (k, x) :: cm_set_keepflag r l v
  end.
Definition config_append_keepflag (self other : config_map) : config_map :=
  fold_left (fun m kv => cm_set_keepflag m (fst kv) (snd kv)) other self.
(* the `config` the linter sees *)
Definition config_of (m : config_map) : config := cm_get m.

(* Mutation (seeded change C19-m5): Project::analyse skips the linters when no unit was re-analysed;
   the cached diagnostics of the unchanged units are then not emitted in that round. *)
Definition lint_skip_empty (c : cache) (rt : design_root) (cfg : config) (analyzed : list key) : cache * list diag :=
  match analyzed with
  | [] => (c, [])
  | _ => lint c rt cfg analyzed
  end.
